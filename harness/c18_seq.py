"""C18, call sequences -- the property holds for EVERY call, not only for the first call of a fresh process.

The statement quantifies over inputs ("Tokenizing a markup or stylesheet abbreviation either raises ... or returns tokens
whose spans ... cover the input"); a program calls the tokenizers many times, and the token list a call returns belongs
to the caller (editors drain it while highlighting, rebase the spans to document offsets, hand it to the parser --
`parse()` accepts a token list).  The single-call streams of c18.py / c18_css.py tokenize every string once and never
touch the result, so anything an earlier call (or the caller's use of an earlier result) leaves behind is unexplored
there.  This module explores it:

  a SEQUENCE is a list of steps executed in order in one process on one language
  (markup / css property mode / css value mode) and one subject string s:

    ['tokenize', fresh]   tokenize(s) (fresh=1: an equal but distinct str object); the result is judged by the tiling
                          oracle AT ONCE, before anything else happens, and becomes "the caller's list"
    ['edit', name]        the caller edits ITS list / ITS token objects (EDITS below); errors of the edit are ignored
    ['feed-parser']       the caller hands ITS token list to the language's parser (parse(tokens)); outcome ignored
    ['parse'] ['expand']  the library's own consumers run on the string s (they call tokenize themselves); outcome ignored
    ['other', t]          tokenize(t) for another string (prefix / extension of s = the neighbouring keystrokes, an
                          unrelated string, a string that raises); judged by the oracle too
    ['mode']              css only: tokenize(s) in the other mode; judged too

Every 'tokenize' / 'other' / 'mode' result must satisfy the property as worded.  Additionally the canonical observable
of every later tokenize(s) is compared with the first one of the sequence (tokenizing is a function of its input; the
first one is what the single-call stream ties to the Coq model): a difference on which the tiling oracle finds nothing
is reported as a broken correspondence (no-failing-input-found), never as a property failure.

The interpreter `execute` is the single definition used by generation and by replay, so a replay file (which stores
the language, the string and the steps) re-runs exactly the failing sequence in a fresh process.
"""

# ---------------------------------------------------------------------------------------------------------------
# edits a caller may apply to the list it was given (all deterministic; `toks` is the caller's list)


def _drain(toks):
    while toks:
        toks.pop(0)


def _drain_back(toks):
    while toks:
        toks.pop()


def _keep_last(toks):
    del toks[:-1]


def _keep_first(toks):
    del toks[1:]


def _clear(toks):
    toks.clear()


def _drop_first(toks):
    del toks[:1]


def _drop_middle(toks):
    if toks:
        del toks[len(toks) // 2]


def _append_dup(toks):
    if toks:
        toks.append(toks[-1])


def _extend_self(toks):
    toks.extend(list(toks))


def _reverse(toks):
    toks.reverse()


def _rebase(toks):
    # spans mapped to document offsets (abbreviation found at column 7 of the line)
    for t in toks:
        if isinstance(getattr(t, 'start', None), int):
            t.start += 7
        if isinstance(getattr(t, 'end', None), int):
            t.end += 7


def _null_spans(toks):
    for t in toks:
        t.start = None
        t.end = None


def _collapse_first(toks):
    if toks:
        toks[0].end = toks[0].start


def _stretch_last(toks):
    if toks and isinstance(getattr(toks[-1], 'end', None), int):
        toks[-1].end += 1


def _merge_first_two(toks):
    # still a tiling: only the repeatability comparison can notice it
    if len(toks) >= 2:
        toks[0].end = toks[1].end
        del toks[1]


def _retag_values(toks):
    # spans untouched: only the repeatability comparison can notice it
    for t in toks:
        if isinstance(getattr(t, 'value', None), str):
            t.value = t.value.upper() + '~'


EDITS = {
    'drain': _drain, 'drain-back': _drain_back, 'keep-last': _keep_last, 'keep-first': _keep_first, 'clear': _clear,
    'drop-first': _drop_first, 'drop-middle': _drop_middle, 'append-dup': _append_dup, 'extend-self': _extend_self,
    'reverse': _reverse, 'rebase': _rebase, 'null-spans': _null_spans, 'collapse-first': _collapse_first,
    'stretch-last': _stretch_last, 'merge-first-two': _merge_first_two, 'retag-values': _retag_values,
}
EDIT_NAMES = sorted(EDITS)
# edits after which an untouched fresh result and the edited list differ in the spans (the tiling oracle can see a leak)
# -- all but the last two; used only for the coverage text.


class Lang(object):
    """One tokenizer under test.
    name      'markup' | 'css'
    tokenize  (s, is_value) -> list of token objects   (raises ScannerException)
    canon     list of token objects -> [(kind, start, end)]   (the canonical observable of c18.py / c18_css.py)
    oracle    (s, res) -> None | description            (the tiling oracle of c18.py / c18_css.py)
    parse     (s_or_tokens, is_value) -> anything       (the language's parser entry, str or token list)
    expand    (s, is_value) -> anything                  (emmet.expand for the language)"""

    def __init__(self, name, tokenize, canon, oracle, parse, expand):
        self.name = name
        self.tokenize = tokenize
        self.canon = canon
        self.oracle = oracle
        self.parse = parse
        self.expand = expand


def call(lang, s, is_value):
    """One tokenizer call -> (canonical result, raw token list or None).  The canonical result is computed before
    the caller can touch the list."""
    from emmet.scanner import ScannerException
    try:
        toks = lang.tokenize(s, is_value)
    except ScannerException as e:
        return ('err', e.pos), None
    except Exception as e:
        return ('internal', type(e).__name__), None
    try:
        return ('ok', lang.canon(toks)), toks
    except Exception as e:  # not a list of token objects
        return ('internal', 'result is not a list of tokens (%s)' % type(e).__name__), toks


def _quiet(fn, *args):
    try:
        fn(*args)
    except Exception:
        pass


def execute(lang, s, is_value, steps):
    """Runs the sequence.  Returns (failure, drift, calls):
    failure = None | (step index, subject string, mode, canonical result, oracle text)   first property failure
    drift   = None | (step index, first result, this result)   first later tokenize(s) that differs from the first
    calls   = number of tokenizer calls judged."""
    first = None
    own = None
    failure = None
    drift = None
    calls = 0
    for i, st in enumerate(steps):
        op = st[0]
        if op == 'tokenize':
            subj = (s + ' ')[:-1] if (len(st) > 1 and st[1]) else s
            res, toks = call(lang, subj, is_value)
            calls += 1
            bad = lang.oracle(s, res)
            if bad and failure is None:
                failure = (i, s, is_value, res, bad)
            if first is None:
                first = res
            elif res != first and drift is None:
                drift = (i, first, res)
            own = toks
        elif op == 'edit':
            if own is not None:
                _quiet(EDITS[st[1]], own)
        elif op == 'feed-parser':
            if own is not None:
                _quiet(lang.parse, own, is_value)
        elif op == 'parse':
            _quiet(lang.parse, s, is_value)
        elif op == 'expand':
            _quiet(lang.expand, s, is_value)
        elif op == 'other':
            res, _ = call(lang, st[1], is_value)
            calls += 1
            bad = lang.oracle(st[1], res)
            if bad and failure is None:
                failure = (i, st[1], is_value, res, bad)
        elif op == 'mode':
            res, _ = call(lang, s, not is_value)
            calls += 1
            bad = lang.oracle(s, res)
            if bad and failure is None:
                failure = (i, s, not is_value, res, bad)
        else:
            raise ValueError('unknown step %r' % (st,))
    return failure, drift, calls


# ---------------------------------------------------------------------------------------------------------------
# generation

# Realistic abbreviations (Emmet documentation cheat sheet shapes), so that a good share of the subjects tokenize into
# several tokens of every kind; the rest of the subjects are drawn from the single-call streams (incl. failing ones).
MARKUP_SUBJECTS = ['div', 'ul>li.item$*3', 'a[href="x" title]{text ${1:foo}}', '(a+b)*2>span', 'p{$#}*', 'nav>ul>li*5>a{Item $}',
                   'div#page>div.logo+ul#navigation>li*5>a', 'h$[title=item$]{Header $}*3', 'ul>li.item$$$@-*5',
                   'ul>li.item$@3*5', 'p>{Click }+a{here}+{ to continue}', 'td[title="Hello world!" colspan=3]',
                   "td[title='a' b=c d.]", 'div+div>p>span+em^bq', 'div>(header>ul>li*2>a)+footer>p', 'a{${1:x{y}z}}',
                   'input[disabled.]', 'p.a.b#c', '.wrap>.content', 'em>.cls', 'table>.row>.col', 'a/+br/', 'ul>li*',
                   'div[a=${1} b=${2:v}]', '{text only}', 'a\\>b', 'x:y-z', '   a  >  b ', 'a!b@c', 'e[a="1\\"2"]']
CSS_SUBJECTS = ['p10', 'm10-20', 'm-10--20', 'p10px20', 'bd1-s#fc0', 'c#f.5', 'c#t', 'bg#0', 'lg(to right, #0, #f00.5)',
                'scale3d(1, 2, 3)', 'p10!', 'w100p', 'h10e', 'op.5', 'p:10', 'm:a', '@k10', 'bgc$bg', 'm--gap', 'c--main-color',
                'p10+m20', 'ff"Arial", serif', "ff'Open Sans'", 'p${1}', 'p${1:10}-${2:20}', 'trf:rotate(45deg) scale(1.5)',
                'p1.5e', '10%', 'mt-.5', 'fz1.2em', 'a b', 'rgb(1,2,3)', '#fc0-0-0', 'p10 20 30']


def _others(rng, s, pool):
    """A neighbouring or unrelated string for an 'other' step."""
    r = rng.random()
    if r < 0.25 and s:
        return s[:-1]
    if r < 0.4 and s:
        return s[:rng.randint(0, len(s))]
    if r < 0.55:
        return s + rng.choice(['a', '1', '>', '{', '"', '$', '*', '(', '-', '.', ' '])
    if r < 0.65 and s:
        return s[1:]
    return rng.choice(pool)


def gen_sequence(rng, lang, s, pool):
    """Random steps around repeated tokenize(s): tokenize, 1..3 things in between, tokenize, maybe once more."""
    steps = [['tokenize', 0]]
    for rnd in range(2 if rng.random() < 0.35 else 1):
        n_mid = rng.choice([0, 1, 1, 1, 2, 2, 3])
        for _ in range(n_mid):
            r = rng.random()
            if r < 0.55:
                steps.append(['edit', rng.choice(EDIT_NAMES)])
            elif r < 0.65:
                steps.append(['feed-parser'])
            elif r < 0.73:
                steps.append(['parse'])
            elif r < 0.78:
                steps.append(['expand'])
            elif r < 0.93 or lang.name != 'css':
                steps.append(['other', _others(rng, s, pool)])
            else:
                steps.append(['mode'])
        steps.append(['tokenize', 1 if rng.random() < 0.3 else 0])
    return steps


def gen_typing(rng, s):
    """The abbreviation typed character by character and deleted again, the highlighter consuming every result:
    tokenize of every prefix (as 'other' steps) around tokenize(s); every call is judged."""
    edit = rng.choice(EDIT_NAMES)
    steps = []
    for n in range(1, len(s)):
        steps.append(['other', s[:n]])
    steps.append(['tokenize', 0])
    steps.append(['edit', edit])
    for n in range(len(s) - 1, max(len(s) - 4, 0), -1):
        steps.append(['other', s[:n]])
    steps.append(['tokenize', 1])
    return steps


def mentions(seq, strings):
    """Does the sequence (lang name, s, is_value, steps) tokenize one of `strings`?"""
    _, s, _, steps = seq
    if s in strings:
        return True
    return any(st[0] == 'other' and st[1] in strings for st in steps)


def describe(lang, s, is_value, steps, failure, n_before=0):
    i, subj, mode, res, bad = failure
    before = ', '.join('-'.join(str(x) for x in st) if st[0] != 'other' else 'tokenize(%r)' % st[1] for st in steps[:i])
    mode_txt = '' if lang.name == 'markup' else ', is_value=%r' % bool(mode)
    if len(steps) == 1:
        return '%s tokenize(%r%s): %s' % (lang.name, subj, mode_txt, bad)
    hist = ' (after %d earlier sequences of the same process, see replay)' % n_before if n_before else ''
    return '%s tokenize(%r%s) as step %d of the call sequence [%s] on %r%s: %s' % (
        lang.name, subj, mode_txt, i, before[:300], s, hist, bad)


def execute_program(langs, program):
    """program = [[lang name, s, is_value, steps], ...] executed in order in this process.
    Returns None or (index of the sequence, failure of `execute`)."""
    for k, (ln, s, v, steps) in enumerate(program):
        failure, _, _ = execute(langs[ln], s, v, steps)
        if failure is not None:
            return k, failure
    return None


def confirm_in_fresh_process(program):
    """Runs the program through `./check C18 --replay` in a fresh interpreter (the very route a reader of the
    VIOLATION line takes).  Returns what the replay printed about the failing call iff it exits 1 there, else None."""
    import json
    import os
    import subprocess
    import sys
    import tempfile
    from common import VERIF
    fd, path = tempfile.mkstemp(suffix='.json', prefix='c18seq-')
    try:
        with os.fdopen(fd, 'w') as f:
            json.dump({'property': 'C18', 'replay': {'component': 'sequence', 'program': program}}, f)
        p = subprocess.run([sys.executable, os.path.join(VERIF, 'check'), 'C18', '--replay', path],
                           stdout=subprocess.PIPE, stderr=subprocess.DEVNULL, timeout=120, universal_newlines=True)
        if p.returncode != 1:
            return None
        lines = (p.stdout or '').strip().splitlines()
        return lines[0] if lines else 'property fails'
    except Exception:
        return None
    finally:
        try:
            os.unlink(path)
        except OSError:
            pass


def reduce_prelude(prelude, last, budget=14):
    """prelude + [last] fails in a fresh interpreter; returns a shorter prelude that still does (halving, at most
    `budget` fresh interpreters) and what the replay printed for it (None = not re-run)."""
    text = None
    while len(prelude) > 1 and budget > 0:
        h = len(prelude) // 2
        for part in (prelude[h:], prelude[:h]):
            budget -= 1
            got = confirm_in_fresh_process(part + [last])
            if got is not None:
                prelude, text = part, got
                break
        else:
            break
    return prelude, text


class StreamReporter(object):
    """Property failures of a SINGLE-CALL stream (every generated string tokenized once, in order, in this process).
    A failing call may depend on what earlier calls of the stream left behind; then its input alone is not a failing
    input.  The first failures of a stream are therefore re-run alone in a fresh interpreter:
      reproduced   -> reported as before (replay = the single input);
      not          -> the stream is state-dependent: the shortest window of preceding calls of the stream (doubling,
                      then halving) + the call that fails in a fresh interpreter is reported as a call-sequence program;
                      further failures of this stream are only counted.
    When the first CHECK_ALONE failures all reproduce alone, the rest are reported unconfirmed (stateless defect)."""
    CHECK_ALONE = 3
    MAX_PROGRAMS = 3

    def __init__(self, ctx, lang_name):
        self.ctx = ctx
        self.lang_name = lang_name
        self.checked = 0
        self.stateful = False
        self.programs = 0
        self.dropped = 0

    def report(self, cases, j, key, what, single_replay):
        """cases: [(s, is_value)] of the stream in execution order; j: index of the failing call."""
        ctx = self.ctx
        if not self.stateful and self.checked >= self.CHECK_ALONE:
            ctx.property_failure(key, what, single_replay)
            return
        if self.stateful and self.programs >= self.MAX_PROGRAMS:
            self.dropped += 1
            return
        one = lambda c: [self.lang_name, c[0], bool(c[1]), [['tokenize', 0]]]
        last = one(cases[j])
        self.checked += 1
        if confirm_in_fresh_process([last]) is not None:
            ctx.property_failure(key, what, single_replay)
            return
        self.stateful = True
        k = 1
        found = None
        while True:
            prelude = [one(c) for c in cases[max(0, j - k):j]]
            text = confirm_in_fresh_process(prelude + [last])
            if text is not None:
                found = (prelude, text)
                break
            if k >= j:
                break
            k *= 2
        if found is None:
            ctx.property_failure(key, what + ' [seen after the earlier calls of the stream; NOT reproduced in a fresh interpreter]',
                                 single_replay)
            return
        prelude, text = found
        prelude, text2 = reduce_prelude(prelude, last)
        self.programs += 1
        ctx.property_failure(key, (text2 or text) + ' [the input alone passes: needs the earlier calls of the replay]',
                             {'component': 'sequence', 'program': prelude + [last], 'confirmed_in_fresh_process': True,
                              'observed_in_the_run': single_replay})

    def finish(self):
        if self.dropped:
            self.ctx.say('%s single-call stream is state-dependent: %d further failing calls not reported' % (self.lang_name, self.dropped))


MAX_CONFIRMED = 6   # failures per language that are reduced + confirmed in a fresh process and reported


def run_sequences(ctx, lang, subjects, n_random, n_typing, history):
    """subjects: list of (s, is_value) to draw from (is_value ignored for markup).  Judges every call of every
    sequence.  `history` (shared by the languages) collects every executed sequence: what a failing call sees may have
    been left behind by an EARLIER sequence, so a failure is reported with the shortest of
        [the sequence alone] / [earlier sequences that tokenize the failing string + the sequence] / [whole history]
    that fails in a FRESH interpreter (replay = that program).  Drift without a failure -> ctx.broken."""
    rng = ctx.rng
    pool = [s for s, _ in subjects]
    tag = lang.name + '-seq'
    n_seq = 0
    n_calls = 0
    n_drift = 0
    n_fail = 0
    n_reported = 0
    plan = []
    for _ in range(n_random):
        s, v = rng.choice(subjects)
        plan.append((s, v, gen_sequence(rng, lang, s, pool), 'random'))
    # every edit on a few realistic subjects, systematically
    for e in EDIT_NAMES:
        for s, v in subjects[:6]:
            plan.append((s, v, [['tokenize', 0], ['edit', e], ['tokenize', 0]], 'edit-then-again'))
    for _ in range(n_typing):
        s, v = rng.choice(subjects)
        if 2 <= len(s) <= 40:
            plan.append((s, v, gen_typing(rng, s), 'typing'))
    rng.shuffle(plan)
    for s, v, steps, kind in plan:
        failure, drift, calls = execute(lang, s, v, steps)
        this = [lang.name, s, bool(v), steps]
        n_seq += 1
        n_calls += calls
        for _ in range(calls):
            ctx.count_eval()
        ctx.cover('%s:%s' % (tag, kind))
        for st in steps:
            if st[0] == 'edit':
                ctx.cover('%s:edit:%s' % (tag, st[1]))
            elif st[0] != 'tokenize':
                ctx.cover('%s:between:%s' % (tag, st[0]))
        ctx.nontrivial((tag, s, bool(v), repr(steps)))
        if failure is not None:
            n_fail += 1
            if n_reported < MAX_CONFIRMED:
                strings = {failure[1], s}
                related = [q for q in history if mentions(q, strings)]
                cands = [[this]]
                if related:
                    cands.append(related + [this])
                if len(history) > len(related):
                    cands.append(list(history) + [this])
                program = None
                seen_fresh = None
                for c in cands:
                    seen_fresh = confirm_in_fresh_process(c)
                    if seen_fresh is not None:
                        program = c
                        break
                if program is None:
                    program = cands[-1]   # observed in this process; not reproduced in a fresh one (reported as such)
                elif len(program) > 2:
                    pre, txt = reduce_prelude(program[:-1], this)
                    program = pre + [this]
                    seen_fresh = txt or seen_fresh
                ed = [st[1] for st in steps if st[0] == 'edit']
                key = '%s:%s:%s:%s' % (tag, 'value' if v else 'property', '+'.join(ed) or 'no-edit', s)
                i, subj, mode, res, bad = failure
                seen_here = describe(lang, s, v, steps, failure, len(program) - 1)
                ctx.property_failure(key, seen_fresh or (seen_here + ' [NOT reproduced in a fresh interpreter]'),
                                     {'component': 'sequence', 'program': program,
                                      'confirmed_in_fresh_process': seen_fresh is not None,
                                      'observed_in_the_run': {'what': seen_here, 'step': i, 'lang': lang.name, 'input': subj,
                                                              'is_value': bool(mode), 'impl': repr(res)[:300], 'why': bad}})
                n_reported += 1
        elif drift is not None:
            n_drift += 1
            if n_drift <= 3:
                i, a, b = drift
                ctx.say('DRIFT %s tokenize(%r) step %d of %r\n  first %r\n  now   %r' % (lang.name, s, i, steps, a, b))
                ctx.broken.append({'kind': 'correspondence', 'file': lang.name + '-tokenizer-repeatability', 'input': s,
                                   'is_value': bool(v), 'steps': steps, 'first': repr(a)[:300], 'later': repr(b)[:300]})
        history.append(this)
    ctx.cov['correspondence'][lang.name + '_tokenizer_repeat_calls'] = {'cases': n_seq, 'disagreements': n_drift}
    if n_fail:
        ctx.say('%s call sequences with a property failure: %d (first %d reduced and reported)' % (lang.name, n_fail, n_reported))
    return n_seq, n_calls


def rule_text(n_markup, n_css):
    return ('call sequences (%d markup, %d css in both modes, run in one process in shuffled order; property oracle on EVERY '
            'call, outside the Coq correspondence -- the model is a pure function, so a later call is compared with the first '
            'call of its sequence instead): tokenize(s), then the caller edits the list/tokens it was given (%d edits: drain, '
            'truncate, clear, append, reverse, rebase/null/collapse spans, ...), feeds it to the parser, the library '
            'parses/expands s itself, other strings are tokenized (prefixes = neighbouring keystrokes, extensions, unrelated '
            'and failing strings), css the other mode, then tokenize(s) again (same or equal-but-distinct str object), up to '
            'three rounds; plus typing sequences (all prefixes in order, result consumed, deleted back) and every edit '
            'systematically on realistic abbreviations; subjects = realistic abbreviations + draws from the single-call '
            'streams; distinct by (language, mode, input, steps).  Every reported failing input is first re-run in a fresh '
            'interpreter: a failure (of a sequence or of a single-call stream) that needs what earlier calls of the run left '
            'behind is reported with the shortest window of those calls that reproduces it') % (n_markup, n_css, len(EDITS))


def replay_program(langs, rp):
    """langs: {'markup': Lang, 'css': Lang}.  Re-runs the stored program; 1 iff a call violates the property."""
    program = rp.get('program') or []
    hit = execute_program(langs, program)
    if hit is not None:
        k, failure = hit
        ln, s, v, steps = program[k]
        print('sequence %d of %d: %s' % (k + 1, len(program), describe(langs[ln], s, v, steps, failure)))
        print('  result %r' % (failure[3],))
        return 1
    print('%d call sequence(s): property holds on every call' % len(program))
    return 0
