"""Generated tables for the `markup.href` feature (emmet/abbreviation/convert.py: insert_href).

insert_href uses three regular expressions:
    re_url    (module level, .match)   a FINITE language: the text must start with one of its words
    re_email  (module level, .match)   L+ a D+ d T{lo,hi} $      (classes L, D, T; literals a, d; re.I)
    an inline pattern in insert_href   W+ c                       (re.match(r'\\w+:', href))
coq/model/MarkupHref.v hand-compiles exactly these three SHAPES as complete backtracking matchers (every
split is tried, so no disjointness of classes is assumed); everything else comes from here, read off the
COMPILED regex objects of the imported module and the RUNNING interpreter, not off a re-typed pattern:
    * re_url: the words of its language, by expanding the parse tree of the compiled pattern
      (literals, optional parts, alternatives, groups only -- anything else aborts generation);
    * re_email: the parse tree must have the shape above; the literals and the bounds lo/hi are read from it,
      the three classes are found by probing the compiled regex with EVERY code point (so re.I case folding
      of non-ASCII letters -- U+0130 U+0131 U+017F U+212A -- is what the interpreter does), and the set of
      characters `$` tolerates after the match (a final line feed) is probed as well;
    * the inline pattern is taken from the AST of insert_href (the one re.match call with a constant
      pattern); its class is probed with every code point and emitted as ranges.
Fail-closed: a regex of another shape, flags that change the meaning of `$`, or a probe that contradicts the
hand-compiled shape abort generation (GenError); the check then reports the broken tie.
"""
import ast
import inspect
import re

from gen_tables import HEADER, GenError, coq_list, coq_str, write_if_changed

MAXCP = 0x110000


def _parser():
    try:
        import re._parser as P      # Python >= 3.11
        import re._constants as K
    except ImportError:             # pragma: no cover
        import sre_parse as P
        import sre_constants as K
    return P, K


def _cm(s):
    """A pattern as text that is safe inside a Coq comment."""
    return repr(s).replace('*', '<star>').replace('"', '<dq>').replace("'", '`')


# ---------------------------------------------------------------- re_url: finite language
def _lang(items, K):
    """Words of a parse-tree sequence, as lists of code points.  Only literals, optional parts (0..1),
    alternatives and plain groups are accepted."""
    words = [[]]
    for op, arg in items:
        if op is K.LITERAL:
            part = [[arg]]
        elif op is K.MAX_REPEAT or op is K.MIN_REPEAT:
            lo, hi, sub = arg
            if (lo, hi) != (0, 1):
                raise GenError('re_url: repeat {%s,%s} is not an optional part' % (lo, hi))
            part = _lang(list(sub), K) + [[]]
        elif op is K.SUBPATTERN:
            group, add, dele, sub = arg
            if add or dele:
                raise GenError('re_url: inline flags')
            part = _lang(list(sub), K)
        elif op is K.BRANCH:
            part = []
            for alt in arg[1]:
                part += _lang(list(alt), K)
        else:
            raise GenError('re_url: construct %s is outside the finite-language shape' % (op,))
        words = [w + p for w in words for p in part]
        if len(words) > 500:
            raise GenError('re_url: language too large')
    return words


def _url_words(rx):
    P, K = _parser()
    if not hasattr(rx, 'match') or not isinstance(getattr(rx, 'pattern', None), str):
        raise GenError('re_url is not a compiled str regex')
    if rx.flags & ~re.UNICODE:
        raise GenError('re_url: flags %d (only re.UNICODE is modelled)' % rx.flags)
    words = []
    for w in _lang(list(P.parse(rx.pattern, rx.flags)), K):
        if w not in words:
            words.append(w)
    strs = [''.join(map(chr, w)) for w in words]
    if '' in strs:
        raise GenError('re_url matches the empty string')

    def by_words(s):
        return any(s.startswith(w) for w in strs)
    probes = ['', 'x', ' //', 'http:/', 'http:', 'htt', 'ww.', 'wwww.', 'WWW.', 'HTTP://', 'ftp', 'ftp:', 'file:/x', 'https:/', 'httpss://']
    for w in strs:
        probes += [w, w + 'x', w[:-1], w[:-1] + 'x', 'x' + w, w[1:], w.upper(), w[0] + w]
    for s in probes:
        if bool(rx.match(s)) != by_words(s):
            raise GenError('re_url: probe %r: regex %r, word list %r' % (s, bool(rx.match(s)), by_words(s)))
    return words


# ---------------------------------------------------------------- class + literal shapes
def _class_plus(item, K, what):
    op, arg = item
    if op is not K.MAX_REPEAT:
        raise GenError('%s: expected a greedy repeat, found %s' % (what, op))
    lo, hi, sub = arg
    sub = list(sub)
    if len(sub) != 1 or sub[0][0] is not K.IN:
        raise GenError('%s: repeated item is not a character class' % what)
    return lo, hi


def _literal(item, K, what):
    op, arg = item
    if op is not K.LITERAL:
        raise GenError('%s: expected a literal, found %s' % (what, op))
    c = chr(arg)
    if c.lower() != c.upper():
        raise GenError('%s: cased literal %r (case folding of literals is not modelled)' % (what, c))
    return arg


def _cps(pred, what):
    try:
        return [cp for cp in range(MAXCP) if pred(chr(cp))]
    except Exception as e:  # noqa
        raise GenError('%s: probe failed: %r' % (what, e))


def _email(rx):
    P, K = _parser()
    if not hasattr(rx, 'match') or not isinstance(getattr(rx, 'pattern', None), str):
        raise GenError('re_email is not a compiled str regex')
    if rx.flags & ~(re.UNICODE | re.IGNORECASE):
        raise GenError('re_email: flags %d (re.MULTILINE would change `$`; only re.I/re.U are modelled)' % rx.flags)
    items = list(P.parse(rx.pattern, rx.flags))
    if len(items) != 6:
        raise GenError('re_email: %d items, expected class+ lit class+ lit class{lo,hi} $' % len(items))
    for k in (0, 2):
        lo, hi = _class_plus(items[k], K, 're_email item %d' % k)
        if lo != 1 or hi is not K.MAXREPEAT:
            raise GenError('re_email item %d: bounds %s..%s, expected +' % (k, lo, hi))
    at = _literal(items[1], K, 're_email item 1')
    dot = _literal(items[3], K, 're_email item 3')
    lo, hi = _class_plus(items[4], K, 're_email item 4')
    if hi is K.MAXREPEAT or not (1 <= lo <= hi <= 64):
        raise GenError('re_email: top-level-domain bounds %s..%s (bounded, at least 1 expected)' % (lo, hi))
    if items[5] != (K.AT, K.AT_END):
        raise GenError('re_email: does not end with `$`')
    m = rx.match
    A, D = chr(at), chr(dot)
    if not m('a' + A + 'a' + D + 'a' * lo):
        raise GenError('re_email: the ASCII letter a is not in all three classes')
    L = _cps(lambda c: m(c + 'a' + A + 'a' + D + 'a' * lo), 're_email local class')
    Dm = _cps(lambda c: m('a' + A + c + 'a' + D + 'a' * lo), 're_email domain class')
    T = _cps(lambda c: m('a' + A + 'a' + D + 'a' * (lo - 1) + c), 're_email tld class')
    full = 'a' + A + 'a' + D + 'a' * hi
    E = _cps(lambda c: m(full + c), 're_email end')
    return {'at': at, 'dot': dot, 'lo': lo, 'hi': hi, 'L': L, 'D': Dm, 'T': T, 'E': E}


def email_by_tables(t, s):
    """The shape  L+ at D+ dot T{lo,hi} $  over the tables, as a complete search (reference for the probes and
    for harness/href_util.py)."""
    L, Dm, T, E = set(t['L']), set(t['D']), set(t['T']), set(t['E'])
    cps = [ord(c) for c in s]
    n = len(cps)

    def at_end(i):
        return i == n or (i == n - 1 and cps[i] in E)
    i = 0
    while i < n and cps[i] in L:
        i += 1
        if i < n and cps[i] == t['at']:
            j = i + 1
            while j < n and cps[j] in Dm:
                j += 1
                if j < n and cps[j] == t['dot']:
                    k = j + 1
                    cnt = 0
                    while True:
                        if cnt >= t['lo'] and at_end(k):
                            return True
                        if cnt < t['hi'] and k < n and cps[k] in T:
                            k += 1
                            cnt += 1
                        else:
                            break
    return False


def _email_probes(rx, t):
    A, D = chr(t['at']), chr(t['dot'])
    x = chr(t['T'][-1])
    nl = '\n'
    base = ['', 'a', A, 'a' + A, 'a' + A + 'b', 'a' + A + 'b' + D, 'a' + A + D + 'cc', A + 'b' + D + 'cc', 'a' + A + 'b' + D + 'c',
            'a' + A + 'b' + D + 'cc', 'a' + A + 'b' + D + 'c' * t['hi'], 'a' + A + 'b' + D + 'c' * (t['hi'] + 1),
            'a' + A + 'b' + D + 'cc' + nl, 'a' + A + 'b' + D + 'cc' + nl + nl, 'a' + A + 'b' + D + 'cc' + nl + 'x', 'a' + A + 'b' + D + 'cc\r',
            'a' + A + 'b' + D + 'c' + D + 'dd', 'a' + A + 'b' + D + D + 'dd', 'a' + A + A + 'b' + D + 'cc', 'a' + A + 'b' + A + 'c' + D + 'dd',
            'x y' + A + 'z' + D + 'cc', ' a' + A + 'b' + D + 'cc', 'a' + A + 'b' + D + 'cc ', 'a' + A + 'b' + D + 'c1', 'a' + A + 'b' + D + '12',
            'a' + A + 'b-' + D + 'cc', 'a_' + A + 'b_' + D + 'cc', 'a%+-' + D + A + 'b' + D + 'cc', x + A + x + D + x * t['lo'],
            'A' + A + 'B' + D + 'CC', 'a' + A + 'b' + D + 'c' + x, 'a' + A + 'b' + D + x + nl, 'a' + D + A + 'b' + D + 'cc' + D + 'dd' + D + 'e']
    for s in base:
        if bool(rx.match(s)) != email_by_tables(t, s):
            raise GenError('re_email: probe %r: regex %r, hand-compiled shape %r' % (s, bool(rx.match(s)), email_by_tables(t, s)))


def _inline_pattern(fn):
    """The constant pattern of the single re.match(<constant>, ...) call inside insert_href."""
    try:
        tree = ast.parse(inspect.getsource(fn))
    except Exception as e:  # noqa
        raise GenError('insert_href: source not available: %r' % (e,))
    pats = []
    for node in ast.walk(tree):
        if isinstance(node, ast.Call) and isinstance(node.func, ast.Attribute) and node.func.attr in ('match', 'search', 'fullmatch') \
                and isinstance(node.func.value, ast.Name) and node.func.value.id == 're':
            if node.func.attr != 'match' or not node.args or not isinstance(node.args[0], ast.Constant) \
                    or not isinstance(node.args[0].value, str) or len(node.args) != 2 or node.keywords:
                raise GenError('insert_href: a call re.%s(...) of an unknown form' % node.func.attr)
            pats.append(node.args[0].value)
    if len(pats) != 1:
        raise GenError('insert_href: %d inline re.match patterns, expected one' % len(pats))
    return pats[0]


def _proto(pat):
    P, K = _parser()
    rx = re.compile(pat)
    items = list(P.parse(pat, rx.flags))
    if len(items) != 2:
        raise GenError('inline pattern %r: expected class+ literal' % pat)
    lo, hi = _class_plus(items[0], K, 'inline pattern')
    if lo != 1 or hi is not K.MAXREPEAT:
        raise GenError('inline pattern %r: expected +' % pat)
    lit = _literal(items[1], K, 'inline pattern')
    C = chr(lit)
    if not rx.match('a' + C):
        raise GenError('inline pattern %r: the ASCII letter a is not in its class' % pat)
    W = _cps(lambda c: rx.match(c + 'a' + C), 'inline pattern class')
    ws = set(W)

    def by_tables(s):
        i = 0
        while i < len(s) and ord(s[i]) in ws:
            i += 1
            if i < len(s) and s[i] == C:
                return True
        return False
    for s in ['', C, 'a', 'a' + C, 'ab' + C + 'x', ' a' + C, 'a ' + C, 'a' + C + C, C + 'a' + C, 'http' + C + '//x', 'www.x' + C, '_1' + C,
              'é' + C, '٣' + C, '-' + C, 'a.b' + C, 'a\n' + C]:
        if bool(rx.match(s)) != by_tables(s):
            raise GenError('inline pattern %r: probe %r' % (pat, s))
    return lit, W


def ranges(cps):
    out = []
    for c in cps:
        if out and out[-1][1] == c - 1:
            out[-1][1] = c
        else:
            out.append([c, c])
    return out


def _scan(C):
    words = _url_words(C.re_url)
    em = _email(C.re_email)
    _email_probes(C.re_email, em)
    pat = _inline_pattern(C.insert_href)
    lit, W = _proto(pat)
    return {'words': words, 'email': em, 'pat': pat, 'lit': lit, 'W': ranges(W)}


def _cached_scan(C):
    """The scan is a function of (interpreter, source text of convert.py, this generator): kept in
    build/gen_href_cache.json under the hash of exactly these."""
    import hashlib
    import json
    import os
    import sys
    from gen_tables import VERIF
    h = hashlib.sha256()
    h.update(sys.version.encode())
    for path in (C.__file__, os.path.abspath(__file__)):
        with open(path, 'rb') as f:
            h.update(hashlib.sha256(f.read()).digest())
    key = h.hexdigest()
    cache = os.path.join(VERIF, 'build', 'gen_href_cache.json')
    try:
        with open(cache) as f:
            o = json.load(f)
        if o.get('key') == key and isinstance(o.get('scan'), dict):
            return o['scan']
    except Exception:  # noqa
        pass
    scan = _scan(C)
    try:
        os.makedirs(os.path.dirname(cache), exist_ok=True)
        tmp = cache + '.%d' % os.getpid()
        with open(tmp, 'w') as f:
            json.dump({'key': key, 'scan': scan}, f)
        os.replace(tmp, cache)
    except Exception:  # noqa
        pass
    return scan


def tables():
    """The scan for the harness (harness/href_util.py uses the same tables as a reference)."""
    import importlib
    C = importlib.import_module('emmet.abbreviation.convert')
    return _cached_scan(C)


def gen_href():
    import importlib
    C = importlib.import_module('emmet.abbreviation.convert')
    for name in ('re_url', 're_email', 'insert_href'):
        if not hasattr(C, name):
            raise GenError('emmet.abbreviation.convert has no %s' % name)
    s = _cached_scan(C)
    em = s['email']
    out = HEADER % ('emmet.abbreviation.convert: re_url %s (flags %d), re_email %s (flags %d), inline pattern %s of insert_href; '
                    'words of re_url from its parse tree, code points accepted at each class position from the running '
                    'interpreter (re.I case folding included)'
                    % (_cm(C.re_url.pattern), C.re_url.flags, _cm(C.re_email.pattern), C.re_email.flags, _cm(s['pat'])))

    def tbl(name, cps, doc):
        return '(* %s *)\nDefinition %s : list N :=\n  %s.\n\n' % (doc, name, coq_list(['%d' % c for c in cps]))
    out += '(* re_url: the words of its (finite) language; re_url.match(text) <-> one of them is a prefix of text *)\n'
    out += 'Definition href_url_words : list (list N) :=\n  %s.\n\n' % coq_list([coq_str(''.join(map(chr, w))) for w in s['words']])
    out += tbl('href_email_local', em['L'], 're_email: class of the first repeat (before the literal href_email_at)')
    out += '(* re_email: the literal between the first and the second repeat *)\nDefinition href_email_at : N := %d.\n\n' % em['at']
    out += tbl('href_email_domain', em['D'], 're_email: class of the second repeat')
    out += '(* re_email: the literal between the second and the third repeat *)\nDefinition href_email_dot : N := %d.\n\n' % em['dot']
    out += tbl('href_email_tld', em['T'], 're_email: class of the third (bounded) repeat')
    out += '(* re_email: bounds of the third repeat *)\nDefinition href_email_tld_min : nat := %d.\nDefinition href_email_tld_max : nat := %d.\n\n' \
        % (em['lo'], em['hi'])
    out += tbl('href_email_end', em['E'], 're_email: `$` also matches before ONE of these as the very last character')
    out += '(* inline pattern of insert_href: class of the repeat, as inclusive ranges, and the literal after it *)\n'
    out += 'Definition href_proto_word : list (N * N) :=\n  %s.\n\n' % coq_list(['(%d, %d)' % (a, b) for a, b in s['W']])
    out += 'Definition href_proto_colon : N := %d.\n' % s['lit']
    return write_if_changed('GenHref.v', out)


GENERATORS = [gen_href]
