"""Generated character classes of `re_html_tag` (emmet/markup/format/html.py), the test behind
starts_with_block_tag(): `<` NAME+ END with NAME = [\\w\\-:] and END = [\\s>].

In Python `\\w` and `\\s` of a str pattern are the UNICODE classes (the JS original has the ASCII `\\w`), so the model
takes both classes from the running interpreter: the compiled pattern must have exactly the shape
    LITERAL '<'  SUBPATTERN(1, MAX_REPEAT(1, inf, IN ...))  IN ...
and the code points each class accepts are found by probing the compiled regex with EVERY code point.
coq/model/FormatHtml.v hand-compiles the shape (greedy run of NAME, then one END) and is only right when the two
classes are disjoint (no character can be given back by the run): checked here.  Fail-closed (GenError).
"""
import importlib

from gen_tables import HEADER, GenError, coq_list, write_if_changed

MAXCP = 0x110000


def _parser():
    try:
        import re._parser as P      # Python >= 3.11
        import re._constants as K
    except ImportError:             # pragma: no cover
        import sre_parse as P
        import sre_constants as K
    return P, K


def ranges(cps):
    out = []
    for c in cps:
        if out and out[-1][1] == c - 1:
            out[-1][1] = c
        else:
            out.append([c, c])
    return out


def _shape(rx):
    P, K = _parser()
    tree = list(P.parse(rx.pattern, rx.flags))
    if len(tree) != 3:
        raise GenError('re_html_tag: %d items, expected `<` NAME+ END' % len(tree))
    (o1, a1), (o2, a2), (o3, a3) = tree
    if o1 is not K.LITERAL or a1 != ord('<'):
        raise GenError('re_html_tag does not start with the literal `<`')
    if o2 is not K.SUBPATTERN or a2[0] != 1 or a2[1] or a2[2]:
        raise GenError('re_html_tag: second item is not capture group 1')
    sub = list(a2[3])
    if len(sub) != 1 or sub[0][0] is not K.MAX_REPEAT or sub[0][1][0] != 1 or sub[0][1][1] is not K.MAXREPEAT:
        raise GenError('re_html_tag: group 1 is not one greedy `+` repeat')
    inner = list(sub[0][1][2])
    if len(inner) != 1 or inner[0][0] is not K.IN:
        raise GenError('re_html_tag: the repeat is not over one character class')
    if o3 is not K.IN:
        raise GenError('re_html_tag: third item is not a character class')


def _scan(rx):
    _shape(rx)
    name, end = [], []
    for c in range(MAXCP):
        ch = chr(c)
        if rx.match('<' + ch + '>') is not None:
            name.append(c)
        # END probed after a name character that is in the class for sure (`a` is checked below)
        if rx.match('<a' + ch) is not None and rx.match('<a' + ch).end() == 3:
            end.append(c)
    if ord('a') not in name or ord('>') not in end:
        raise GenError('re_html_tag: probes contradict the shape (`a` / `>`)')
    both = set(name) & set(end)
    if both:
        raise GenError('re_html_tag: NAME and END share %d code points (the greedy run could give one back)' % len(both))
    return ranges(name), ranges(end)


def _cached(H):
    import hashlib
    import json
    import os
    import sys
    from gen_tables import VERIF
    h = hashlib.sha256()
    h.update(sys.version.encode())
    h.update(H.re_html_tag.pattern.encode())
    h.update(str(H.re_html_tag.flags).encode())
    with open(os.path.abspath(__file__), 'rb') as f:
        h.update(f.read())
    key = h.hexdigest()
    cache = os.path.join(VERIF, 'build', 'gen_htmltag_cache.json')
    try:
        with open(cache) as f:
            o = json.load(f)
        if o.get('key') == key:
            return o['name'], o['end']
    except Exception:  # noqa
        pass
    name, end = _scan(H.re_html_tag)
    try:
        os.makedirs(os.path.dirname(cache), exist_ok=True)
        tmp = cache + '.%d' % os.getpid()
        with open(tmp, 'w') as f:
            json.dump({'key': key, 'name': name, 'end': end}, f)
        os.replace(tmp, cache)
    except Exception:  # noqa
        pass
    return name, end


def tables():
    H = importlib.import_module('emmet.markup.format.html')
    return _cached(H)


def gen_htmltag():
    H = importlib.import_module('emmet.markup.format.html')
    if not hasattr(H, 're_html_tag'):
        raise GenError('emmet.markup.format.html has no re_html_tag')
    src = importlib.import_module('inspect').getsource(H.starts_with_block_tag)
    if 're_html_tag.match(value[0])' not in src:
        raise GenError('starts_with_block_tag no longer calls re_html_tag.match(value[0])')
    name, end = _cached(H)
    pat = repr(H.re_html_tag.pattern).replace('*', '<star>').replace('"', '<dq>').replace("'", '`')
    out = HEADER % ('emmet.markup.format.html: re_html_tag %s (flags %d); code points accepted at each class position, probed '
                    'with every code point in the running interpreter' % (pat, H.re_html_tag.flags))
    out += '(* class of the repeat (group 1), inclusive ranges *)\n'
    out += 'Definition html_tag_name_ranges : list (N * N) :=\n  %s.\n\n' % coq_list(['(%d, %d)' % (a, b) for a, b in name])
    out += '(* class of the one character after the name, inclusive ranges; disjoint from the name class (checked by the generator) *)\n'
    out += 'Definition html_tag_end_ranges : list (N * N) :=\n  %s.\n' % coq_list(['(%d, %d)' % (a, b) for a, b in end])
    return write_if_changed('GenHtmlTag.v', out)


GENERATORS = [gen_htmltag]
