"""C08 generators: histories whose calls fail (or succeed) INSIDE nested snippet resolution.

The class explored here: "state left behind by a call that stops while one or more snippet levels are open".
A markup snippet may name other snippets (user -> user, user -> built-in, built-in -> a built-in that the user
overrides); resolution is recursive and keeps per-call bookkeeping (which snippets are open: the circular-reference
guard).  A call that raises, or that meets a circular reference, while 1..3 levels are open is followed by calls that
use the very same enclosing snippets through every kind of argument: the same dict, an equal copy, a caller-owned
Config object, a twin configuration in which the innermost snippet is well-formed, another syntax, and no
configuration at all.  Every call is judged by history_util.oracle (same call alone in a pristine process).

Nothing here is an expectation: the tables below only steer the generators towards snippet chains.  The built-in
chains are the documented ones of Emmet's HTML snippet set (docs.emmet.io/cheat-sheet, emmet/snippets/html.json
upstream): `!` = `html:5` = `!!!+doc`, `doc` = `html>(head>meta[charset]+meta:vp+title)+body`, `input:t` =
`inp[type=text]`, `inp` = `input[name id]`, `input:reset` = `input:button[type=reset]`, `ri:d` = `img:s`,
`ri:a` = `pic>src:m+img`, `ri:t` = `pic>src:t+img`, `meta:edge` = `meta:compat[...]`, `src:mt` = `source:media[...]`,
`html:4t` = `!!!4t+doc4`, `btn:s` = `button[type=submit]`.  If the library's table differs, the histories are simply
less deep (the evidence counts the depth really reached: `raised_with_N_snippet_levels_open`)."""
import json

# (abbreviation that enters the chain, ..., innermost built-in name a user table can override)
BUILTIN_CHAINS = [
    ('!', 'doc', 'meta:vp'),
    ('html:5', 'doc', 'meta:vp'),
    ('!', 'doc'),
    ('!', '!!!'),
    ('doc', 'meta:vp'),
    ('html:4t', 'doc4'),
    ('input:t', 'inp'),
    ('input:t', 'inp', 'input'),
    ('input:reset', 'input:button'),
    ('ri:d', 'img:s'),
    ('ri:d', 'img:s', 'img'),
    ('ri:a', 'pic'),
    ('ri:a', 'src:m'),
    ('ri:t', 'img'),
    ('meta:edge', 'meta:compat'),
    ('src:mt', 'source:media'),
    ('btn:s', 'button'),
]

# innermost snippet bodies
LEAF_OK = ['span.leaf', 'p{hi}', 'em+b']
LEAF_BAD = ['a[b="', 'p[', 'a)', 'p{${1', '(a>b', 'meta[name=viewport content="width=device-width', 'a{t', 'ul>li[title=\'x']
# circular references: back to the outermost user snippet / to itself (an element with a predefined shape)
LEAF_CIRCULAR = ['outer', 'div>outer', 'leaf.self', 'mid+p']

# how a snippet body (or the abbreviation itself) mentions the next name: first child, after a sibling, inside a
# group, repeated, deeper, with attributes / text merged into it, before a sibling
SHAPES = ['%s', 'div>%s', 'p+%s', '(%s)*2', 'ul>li*2>%s', '%s[title=t]', '%s+p', 'section>(header+%s)', '%s>i', '%s*2']

TEXTS = [None, None, 'hello', ['x', 'y']]
SYNTAXES = [None, None, None, 'html', 'xml', 'pug', 'slim', 'haml', 'xsl', 'jsx']
OPTIONS = [None, None, None, {'output.reverseAttributes': True}, {'comment.enabled': True}, {'bem.enabled': True},
           {'output.format': False}]


def _copy(o):
    return json.loads(json.dumps(o))


def user_chain(depth, leaf, shape1='%s', shape2='%s'):
    """user snippet table with `depth` levels above the innermost snippet `leaf`; returns (table, entry names from
    the outermost to the innermost)"""
    if depth == 0:
        return {'leaf': leaf}, ['leaf']
    if depth == 1:
        return {'outer': shape1 % 'leaf', 'leaf': leaf}, ['outer', 'leaf']
    return {'outer': shape1 % 'mid', 'mid': shape2 % 'leaf', 'leaf': leaf}, ['outer', 'mid', 'leaf']


def _mk(snippets, text=None, syntax=None, options=None):
    d = {'snippets': snippets}
    if text is not None:
        d['text'] = text
    if syntax is not None:
        d['syntax'] = syntax
    if options is not None:
        d['options'] = options
    return d


def _twin(d, key, body):
    t = _copy(d)
    t['snippets'][key] = body
    return t


def nested_pair_histories():
    """compact exhaustive part: ONE call that stops inside nested resolution, then ONE probe that uses an enclosing
    snippet -- through the same dict, a Config object, the well-formed twin, and (built-in chains) no config"""
    out = []

    def add(dicts, objs, call, probe):
        out.append({'dicts': dicts, 'ncaches': 0, 'objs': objs, 'calls': [call], 'probe': probe})
    # user chains of depth 1 and 2
    for depth in (1, 2):
        for li, leaf in enumerate(LEAF_BAD + LEAF_CIRCULAR):
            s1 = SHAPES[(li + depth) % len(SHAPES)]
            s2 = SHAPES[(2 * li + 1) % len(SHAPES)]
            tbl, names = user_chain(depth, leaf, s1, s2)
            broken = _mk(tbl, text=(['x', 'y'] if li % 3 == 0 else None))
            twin = _twin(broken, 'leaf', LEAF_OK[li % len(LEAF_OK)])
            dicts = [broken, twin]
            first = {'abbr': names[0], 'via': 'dict', 'd': 0}
            add(dicts, [], first, {'abbr': names[0], 'via': 'dict', 'd': 1})       # enclosing snippet, good twin
            add(dicts, [0], {'abbr': names[0], 'via': 'obj', 'd': 0}, {'abbr': names[0], 'via': 'obj', 'd': 0})  # again
            add(dicts, [], first, {'abbr': names[-2], 'via': 'copy', 'd': 1})      # the level just above the leaf
    # built-in chains with the innermost (or a middle) name overridden by a malformed / circular user snippet
    for ci, chain in enumerate(BUILTIN_CHAINS):
        for k, leaf in enumerate((LEAF_BAD[ci % len(LEAF_BAD)], LEAF_BAD[(ci + 3) % len(LEAF_BAD)], chain[0] + '>p')):
            broken = _mk({chain[-1]: leaf}, syntax=(None if k else 'html'))
            other = {'syntax': 'xml'} if ci % 2 else {'options': {'output.indent': '  '}}
            dicts = [broken, other]
            first = {'abbr': chain[0], 'via': 'dict', 'd': 0}
            add(dicts, [], first, {'abbr': chain[0], 'via': 'default', 'd': 0})    # no configuration at all
            add(dicts, [], first, {'abbr': chain[len(chain) - 2], 'via': 'dict', 'd': 1})   # another fresh config
            if k == 0:
                add(dicts, [0], {'abbr': chain[0], 'via': 'obj', 'd': 0}, {'abbr': chain[0], 'via': 'obj', 'd': 0})
    return out


def rand_nested_dicts(rng):
    """2..4 markup configurations around ONE snippet chain: the broken one, its well-formed twin, optionally a
    circular twin and an unrelated one; returns (dicts, abbreviations that enter the chain at every level)"""
    text = rng.choice(TEXTS)
    syntax = rng.choice(SYNTAXES)
    options = rng.choice(OPTIONS)
    leaf = rng.choice(LEAF_BAD)
    if rng.random() < 0.5:
        depth = rng.choice([1, 1, 2, 2, 0])
        tbl, names = user_chain(depth, leaf, rng.choice(SHAPES), rng.choice(SHAPES))
        if rng.random() < 0.3:
            # the user chain ends in a built-in chain: user -> built-in -> overridden built-in
            chain = rng.choice(BUILTIN_CHAINS)
            tbl['leaf'] = rng.choice(SHAPES) % chain[0]
            tbl[chain[-1]] = leaf
            key = chain[-1]
            names = names + list(chain)
        else:
            key = 'leaf'
    else:
        chain = rng.choice(BUILTIN_CHAINS)
        key = chain[-1]
        tbl, names = {key: leaf}, list(chain)
    broken = _mk(tbl, text, syntax, options)
    dicts = [broken, _twin(broken, key, rng.choice(LEAF_OK))]
    if rng.random() < 0.5:
        dicts.append(_twin(broken, key, rng.choice(LEAF_CIRCULAR + [names[0], names[0] + '>b'])))
    if rng.random() < 0.5:
        dicts.append(_mk({'p': 'p.lead'}, rng.choice(TEXTS), rng.choice(SYNTAXES), None))
    if rng.random() < 0.3:
        # same table, other output settings: a config that differs from the broken one only outside the snippets
        t = _copy(broken)
        t.pop('text', None)
        t['syntax'] = rng.choice(['html', 'xml', 'pug'])
        dicts.append(t)
    rng.shuffle(dicts)
    return dicts, names


def rand_nested_history(rng, max_len=6):
    dicts, names = rand_nested_dicts(rng)
    objs = [i for i in range(len(dicts)) if rng.random() < 0.35]
    plain = ['div', 'ul>li*2', 'p*', 'a', 'p']

    def abbr():
        r = rng.random()
        if r < 0.55:
            return rng.choice(names[:2]) if rng.random() < 0.7 else rng.choice(names)
        if r < 0.85:
            return rng.choice(SHAPES) % rng.choice(names)
        return rng.choice(plain)

    def call():
        r = rng.random()
        if r < 0.15:
            return {'abbr': abbr(), 'via': 'default', 'd': 0}
        if objs and r < 0.4:
            return {'abbr': abbr(), 'via': 'obj', 'd': rng.randrange(len(objs))}
        return {'abbr': abbr(), 'via': 'dict' if r < 0.8 else 'copy', 'd': rng.randrange(len(dicts))}
    calls = [call() for _ in range(rng.randint(1, max_len))]
    probe = call()
    if rng.random() < 0.4:
        probe = dict(rng.choice(calls))
    return {'dicts': dicts, 'ncaches': 0, 'objs': objs, 'calls': calls, 'probe': probe}
