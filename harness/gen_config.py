"""Generators for the configuration component (C20).

GenLayerOrder.v  <- AST of emmet/config.py: `merged_data` (the ordered
                    `result.update(<layer>)` statements, their guards and where
                    each layer variable is fetched from), `Config.__init__`
                    (type / syntax defaulting, the three merged_data calls) and
                    the `Config(config, global_config)` call in emmet/__init__.py.
GenConfig.v      <- the imported tables DEFAULT_CONFIG, SYNTAX_CONFIG,
                    DEFAULT_SYNTAXES, SYNTAXES (keys as strings, values as ids).

FAIL-CLOSED: any statement or value shape that is not recognised raises
GenError; the check then reports the broken tie.
"""
import ast
import os
import re
import sys

_gt = sys.modules.get('__main__')
if not (hasattr(_gt, 'GenError') and hasattr(_gt, 'write_if_changed')):
    import gen_tables as _gt
GenError = _gt.GenError
write_if_changed = _gt.write_if_changed
coq_str = _gt.coq_str
REPO = _gt.REPO

import config_util  # noqa: E402


def _src(node):
    try:
        return ast.unparse(node)
    except Exception:
        return ast.dump(node)


def _is_name(n, name=None):
    return isinstance(n, ast.Name) and (name is None or n.id == name)


def _const_str(n):
    return n.value if isinstance(n, ast.Constant) and isinstance(n.value, str) else None


def _find_func(body, name):
    fs = [n for n in body if isinstance(n, ast.FunctionDef) and n.name == name]
    if len(fs) != 1:
        raise GenError('expected exactly one function %s, found %d' % (name, len(fs)))
    return fs[0]


def _plain_params(fn, n):
    a = fn.args
    if a.vararg or a.kwarg or a.kwonlyargs or a.posonlyargs or len(a.args) != n:
        raise GenError('%s: unexpected parameter list %s' % (fn.name, _src(a)))
    if fn.decorator_list:
        # a decorator can change what the function returns or share its result (functools.cache ...)
        raise GenError('%s: decorated (%s)' % (fn.name, ', '.join(_src(d) for d in fn.decorator_list)))
    if isinstance(fn, ast.AsyncFunctionDef):
        raise GenError('%s: async' % fn.name)
    return [x.arg for x in a.args]


def _is_empty_dict(n):
    """`{}` or `dict()`"""
    return (isinstance(n, ast.Dict) and not n.keys) or \
        (isinstance(n, ast.Call) and _is_name(n.func, 'dict') and not n.args and not n.keywords)


def _empty_defaults(fn, params):
    """every default argument value must be an empty dict: a caller that omits the argument supplies no layer"""
    for d in fn.args.defaults:
        if not _is_empty_dict(d):
            raise GenError('%s: default argument %s' % (fn.name, _src(d)))
    return params[len(params) - len(fn.args.defaults):]


def _as_assign(st):
    """`x = e` and `x: T = e` -> (target, value), else None"""
    if isinstance(st, ast.Assign) and len(st.targets) == 1:
        return st.targets[0], st.value
    if isinstance(st, ast.AnnAssign) and st.value is not None and st.simple:
        return st.target, st.value
    return None


def _check_module_bindings(tree):
    """config.py, module level: merged_data / Config are bound once (def / class) and never rebound; the
    built-in tables are bound once by a plain assignment; nothing but imports, assignments, doc strings,
    functions and classes at top level (a loop or an `if` could rebind or patch anything)."""
    funcs = ('merged_data',)
    classes = ('Config',)
    tables = ('DEFAULT_CONFIG', 'SYNTAX_CONFIG', 'DEFAULT_SYNTAXES', 'SYNTAXES', 'DEFAULT_OPTIONS')
    bound = {}

    def bind(name, how):
        bound.setdefault(name, []).append(how)
    for st in tree.body:
        if isinstance(st, (ast.Import, ast.ImportFrom)):
            for a in st.names:
                bind((a.asname or a.name).split('.')[0], 'import')
        elif isinstance(st, ast.FunctionDef):
            bind(st.name, 'def')
        elif isinstance(st, ast.ClassDef):
            bind(st.name, 'class')
        elif isinstance(st, ast.Expr) and isinstance(st.value, ast.Constant) and isinstance(st.value.value, str):
            pass
        elif _as_assign(st) is not None or isinstance(st, ast.Assign):
            tgts = st.targets if isinstance(st, ast.Assign) else [st.target]
            for t in tgts:
                for n in ast.walk(t):
                    if isinstance(n, ast.Name) and isinstance(n.ctx, ast.Store):
                        bind(n.id, 'assign')
        else:
            raise GenError('config.py: unrecognised module-level statement: %s' % _src(st).split('\n')[0])
    for n in funcs:
        if bound.get(n) != ['def']:
            raise GenError('config.py: %s bound as %s' % (n, bound.get(n)))
    for n in classes:
        if bound.get(n) != ['class']:
            raise GenError('config.py: %s bound as %s' % (n, bound.get(n)))
    for n in tables:
        if bound.get(n) != ['assign']:
            raise GenError('config.py: %s bound as %s' % (n, bound.get(n)))


# ---------------------------------------------------------------- merged_data
def parse_merged_data(tree):
    """-> (stmts, comment_lines); stmts = [(source, guard)] with source one of
    'SrcDefault' | 'SrcUser' | 'SrcSyntaxConfig ByType' | ... in statement order."""
    fn = _find_func(tree.body, 'merged_data')
    p_type, p_syntax, p_key, p_user, p_global = _plain_params(fn, 5)
    _empty_defaults(fn, [p_type, p_syntax, p_key, p_user, p_global])
    tables = {'SYNTAX_CONFIG': 'SrcSyntaxConfig', p_global: 'SrcGlobal'}
    direct = {'DEFAULT_CONFIG': 'SrcDefault', p_user: 'SrcUser'}
    selectors = {p_type: 'ByType', p_syntax: 'BySyntax'}
    empties = set()       # names bound to a fresh {}
    layer_vars = {}       # name -> source
    result = None
    stmts = []
    notes = []
    returned = False

    used_as_default = set()

    def is_empty(n):
        if isinstance(n, ast.Name):
            used_as_default.add(n.id)
        # a fresh `{}` / `dict()` or a local that holds one and is never written to (the accumulator is
        # removed from `empties` as soon as it receives its first update)
        return _is_empty_dict(n) or (isinstance(n, ast.Name) and n.id in empties)

    def container(n, where):
        """expression denoting one layer config -> source"""
        if isinstance(n, ast.Name):
            if n.id in layer_vars:
                return layer_vars[n.id]
            if n.id in direct:
                return direct[n.id]
        raise GenError('merged_data: %s: not a layer: %s' % (where, _src(n)))

    def get_call(n):
        """X.get(a, <empty>) -> (X node, a node) or None"""
        if (isinstance(n, ast.Call) and isinstance(n.func, ast.Attribute) and n.func.attr == 'get'
                and len(n.args) == 2 and not n.keywords and is_empty(n.args[1])):
            return n.func.value, n.args[0]
        return None

    def update_arg(st):
        """`result.update(E)` -> E or None"""
        if (isinstance(st, ast.Expr) and isinstance(st.value, ast.Call)
                and isinstance(st.value.func, ast.Attribute) and st.value.func.attr == 'update'
                and _is_name(st.value.func.value, result) and result is not None
                and len(st.value.args) == 1 and not st.value.keywords):
            return st.value.args[0]
        return None

    body = list(fn.body)
    if body and isinstance(body[0], ast.Expr) and _const_str(body[0].value) is not None:
        body = body[1:]           # docstring
    for st in body:
        if returned:
            raise GenError('merged_data: statement after return: %s' % _src(st))
        # empty = {}   /  result = {}   (also annotated: `result: dict = {}`)
        asg = _as_assign(st)
        if asg is not None and _is_name(asg[0]):
            name = asg[0].id
            st_value = asg[1]
            if name in (p_type, p_syntax, p_key, p_user, p_global, 'SYNTAX_CONFIG', 'DEFAULT_CONFIG') \
                    or name in layer_vars or name in empties or name == result:
                raise GenError('merged_data: rebinding of %s' % name)
            if _is_empty_dict(st_value):
                if stmts or result is not None:
                    raise GenError('merged_data: second accumulator %s' % name)
                # the first `{}` that later receives .update() is the accumulator; decide lazily
                empties.add(name)
                continue
            g = get_call(st_value)
            if g is not None and _is_name(g[0]) and g[0].id in tables and _is_name(g[1]) and g[1].id in selectors:
                layer_vars[name] = '%s %s' % (tables[g[0].id], selectors[g[1].id])
                notes.append('%s = %s' % (name, _src(st_value)))
                continue
            # another name for a layer that was fetched already (never for a `{}`: that would alias the
            # accumulator with the default)
            if _is_name(st_value) and st_value.id in layer_vars:
                layer_vars[name] = layer_vars[st_value.id]
                notes.append('%s = %s' % (name, st_value.id))
                continue
            raise GenError('merged_data: unrecognised assignment: %s' % _src(st))
        # result.update(X.get(key, empty))
        if isinstance(st, ast.Expr) and isinstance(st.value, ast.Call) and isinstance(st.value.func, ast.Attribute) \
                and st.value.func.attr == 'update' and _is_name(st.value.func.value):
            rn = st.value.func.value.id
            if result is None and rn in empties:
                result = rn
                empties.discard(rn)
            arg = update_arg(st)
            g = get_call(arg) if arg is not None else None
            if g is None or not _is_name(g[1], p_key):
                raise GenError('merged_data: unrecognised update: %s' % _src(st))
            stmts.append((container(g[0], _src(st)), 'GetOrEmpty'))
            notes.append(_src(st))
            continue
        # if key in X: result.update(X[key])
        if isinstance(st, ast.If):
            t = st.test
            if not (isinstance(t, ast.Compare) and _is_name(t.left, p_key) and len(t.ops) == 1
                    and isinstance(t.ops[0], ast.In) and len(t.comparators) == 1
                    and not st.orelse and len(st.body) == 1):
                raise GenError('merged_data: unrecognised if: %s' % _src(st))
            inner = st.body[0]
            if isinstance(inner, ast.Expr) and isinstance(inner.value, ast.Call) \
                    and isinstance(inner.value.func, ast.Attribute) and _is_name(inner.value.func.value):
                rn = inner.value.func.value.id
                if result is None and rn in empties:
                    result = rn
                    empties.discard(rn)
            arg = update_arg(inner)
            if not (arg is not None and isinstance(arg, ast.Subscript) and _is_name(arg.slice, p_key)
                    and ast.dump(arg.value) == ast.dump(t.comparators[0])):
                raise GenError('merged_data: unrecognised guarded update: %s' % _src(st))
            stmts.append((container(arg.value, _src(st)), 'IfKeyIn'))
            notes.append(_src(st).replace('\n', ' '))
            continue
        if isinstance(st, ast.Return):
            if not (result is not None and _is_name(st.value, result)):
                raise GenError('merged_data: returns %s' % _src(st.value))
            returned = True
            continue
        raise GenError('merged_data: unrecognised statement: %s' % _src(st))
    if not returned:
        raise GenError('merged_data: no `return result`')
    if result in used_as_default:
        raise GenError('merged_data: the accumulator %s is also used as a default value' % result)
    return stmts, notes


# ---------------------------------------------------------------- Config.__init__
def parse_config_init(tree):
    cls = [n for n in tree.body if isinstance(n, ast.ClassDef) and n.name == 'Config']
    if len(cls) != 1:
        raise GenError('expected exactly one class Config')
    fn = _find_func(cls[0].body, '__init__')
    p_self, p_user, p_global = _plain_params(fn, 3)
    _empty_defaults(fn, [p_self, p_user, p_global])
    default_type = fallback_syntax = None
    v_type = v_syntax = None
    sections = []
    assigned_type = assigned_syntax = False
    reserved = ('type', 'syntax') + config_util.SECTIONS

    def user_get(n, key=None):
        """user_config.get('<key>'[, default]) -> (key, default node or None) / None"""
        if (isinstance(n, ast.Call) and isinstance(n.func, ast.Attribute) and n.func.attr == 'get'
                and _is_name(n.func.value, p_user) and 1 <= len(n.args) <= 2 and not n.keywords):
            k = _const_str(n.args[0])
            if k is not None and (key is None or k == key):
                return k, (n.args[1] if len(n.args) == 2 else None)
        return None

    body = list(fn.body)
    if body and isinstance(body[0], ast.Expr) and _const_str(body[0].value) is not None:
        body = body[1:]
    for st in body:
        asg = _as_assign(st)
        if asg is None:
            raise GenError('Config.__init__: unrecognised statement: %s' % _src(st))
        tgt, val = asg
        if _is_name(tgt):
            g = user_get(val)
            if g and g[0] == 'type' and v_type is None and g[1] is not None and _const_str(g[1]) is not None:
                v_type, default_type = tgt.id, _const_str(g[1])
                continue
            if g and g[0] == 'syntax' and v_syntax is None and v_type is not None and g[1] is not None:
                d = g[1]
                if (isinstance(d, ast.Call) and isinstance(d.func, ast.Attribute) and d.func.attr == 'get'
                        and _is_name(d.func.value, 'DEFAULT_SYNTAXES') and len(d.args) == 2 and not d.keywords
                        and _is_name(d.args[0], v_type) and _const_str(d.args[1]) is not None):
                    v_syntax, fallback_syntax = tgt.id, _const_str(d.args[1])
                    continue
            raise GenError('Config.__init__: unrecognised local: %s' % _src(st))
        if isinstance(tgt, ast.Attribute) and _is_name(tgt.value, p_self):
            attr = tgt.attr
            if attr == 'type':
                if not (v_type and _is_name(val, v_type)):
                    raise GenError('Config.__init__: %s' % _src(st))
                assigned_type = True
                continue
            if attr == 'syntax':
                if not (v_syntax and _is_name(val, v_syntax)):
                    raise GenError('Config.__init__: %s' % _src(st))
                assigned_syntax = True
                continue
            if attr in config_util.SECTIONS:
                ok = (isinstance(val, ast.Call) and _is_name(val.func, 'merged_data') and not val.keywords
                      and len(val.args) == 5 and v_type and v_syntax
                      and _is_name(val.args[0], v_type) and _is_name(val.args[1], v_syntax)
                      and _const_str(val.args[2]) == attr
                      and _is_name(val.args[3], p_user) and _is_name(val.args[4], p_global))
                if not ok or attr in sections:
                    raise GenError('Config.__init__: %s' % _src(st))
                sections.append(attr)
                continue
            # other slots: plain copies of caller data, irrelevant to layering
            if _is_name(val, p_user) or (user_get(val) and user_get(val)[0] not in reserved
                                         and (user_get(val)[1] is None or isinstance(user_get(val)[1], ast.Constant))):
                continue
        raise GenError('Config.__init__: unrecognised statement: %s' % _src(st))
    if not (assigned_type and assigned_syntax and sorted(sections) == sorted(config_util.SECTIONS)):
        raise GenError('Config.__init__: type/syntax/sections not all assigned (%s)' % sections)
    return default_type, fallback_syntax, sections


def parse_expand(tree):
    """emmet/__init__.py: expand(abbr, config, global_config) must build the Config from its 2nd and 3rd
    parameter in that order, either unconditionally (`x = Config(config, global_config)`) or in the
    else-branch of `if isinstance(config, Config): x = config`; x is not rebound afterwards."""
    fn = _find_func(tree.body, 'expand')
    p = _plain_params(fn, 3)
    _empty_defaults(fn, p)
    calls = [n for n in ast.walk(fn) if isinstance(n, ast.Call) and _is_name(n.func, 'Config')]
    if len(calls) != 1:
        raise GenError('expand: expected one Config(...) call, found %d' % len(calls))
    c = calls[0]
    if not (len(c.args) == 2 and not c.keywords and _is_name(c.args[0], p[1]) and _is_name(c.args[1], p[2])):
        raise GenError('expand: unexpected call %s' % _src(c))

    def assigns_call(st):
        a = _as_assign(st)
        return a[0].id if a is not None and _is_name(a[0]) and a[1] is c else None
    target = None
    where = None
    for i, st in enumerate(fn.body):
        t = assigns_call(st)
        if t is not None:
            target, where = t, i
            break
        if isinstance(st, ast.If) and any(n is c for n in ast.walk(st)):
            t = st.test
            ok = (isinstance(t, ast.Call) and _is_name(t.func, 'isinstance') and len(t.args) == 2 and not t.keywords
                  and _is_name(t.args[0], p[1]) and _is_name(t.args[1], 'Config')
                  and len(st.body) == 1 and len(st.orelse) == 1)
            if ok:
                a = _as_assign(st.body[0])
                tt = assigns_call(st.orelse[0])
                ok = a is not None and _is_name(a[0]) and _is_name(a[1], p[1]) and tt == a[0].id
            if not ok:
                raise GenError('expand: unrecognised statement around the Config(...) call: %s' % _src(st).split('\n')[0])
            target, where = tt, i
            break
    if target is None:
        raise GenError('expand: the Config(...) call is not a plain assignment at function level')
    if target in p:
        raise GenError('expand: the Config is assigned to the parameter %s' % target)
    for st in fn.body[where + 1:]:
        for n in ast.walk(st):
            if isinstance(n, ast.Name) and n.id == target and not isinstance(n.ctx, ast.Load):
                raise GenError('expand: %s is rebound: %s' % (target, _src(st).split('\n')[0]))
    return True


def gen_layer_order():
    with open(os.path.join(REPO, 'emmet', 'config.py'), encoding='utf-8') as f:
        tree = ast.parse(f.read())
    _check_module_bindings(tree)
    stmts, notes = parse_merged_data(tree)
    default_type, fallback_syntax, sections = parse_config_init(tree)
    with open(os.path.join(REPO, 'emmet', '__init__.py'), encoding='utf-8') as f:
        parse_expand(ast.parse(f.read()))
    out = ['(* GENERATED by harness/gen_config.py from the AST of emmet/config.py -- do not edit *)',
           'From Coq Require Import List NArith.', 'Import ListNotations.',
           'From Emmet Require Import lib.Base lib.ConfigLib.', '',
           '(* merged_data, statement by statement:']
    out += ['     ' + n.replace('*)', '* )').replace('(*', '( *') for n in notes]
    out += ['*)',
            'Definition layer_stmts : list (source * guard) :=',
            '  [' + ';\n   '.join('(%s, %s)' % s for s in stmts) + '].', '',
            'Definition layer_order : list layer := map (fun st => layer_of_source (fst st)) layer_stmts.', '',
            '(* Config.__init__: user_config.get(\'type\', %r);' % default_type,
            '   user_config.get(\'syntax\', DEFAULT_SYNTAXES.get(<type>, %r));' % fallback_syntax,
            '   merged_data(<type>, <syntax>, <section>, user_config, global_config) per section, in this order *)',
            'Definition init_default_type : str := %s.' % coq_str(default_type),
            'Definition init_fallback_syntax : str := %s.' % coq_str(fallback_syntax),
            'Definition init_sections : list str :=',
            '  [' + ';\n   '.join(coq_str(s) for s in sections) + '].', '']
    return write_if_changed('GenLayerOrder.v', '\n'.join(out))


# ---------------------------------------------------------------- GenConfig
def _cmt(s):
    """a Coq comment naming the string, when that is lexically safe"""
    return ' (* %s *)' % s if re.fullmatch(r'[A-Za-z0-9_.:!|+@ -]*', s) else ''


def _dict_lit(ids, d):
    items = list(d.items())
    return '[' + '\n      '.join('(%s, %d%%Z)%s%s' % (coq_str(k), ids.builtin_id(v), ';' if i + 1 < len(items) else '',
                                                    _cmt(k)) for i, (k, v) in enumerate(items)) + ']'


def gen_config():
    try:
        import emmet.config as cfg
        ids = config_util.ValueIds(cfg)
        layers = config_util.builtin_layers(cfg)
    except config_util.ShapeError as e:
        raise GenError(str(e))
    except Exception as e:
        raise GenError('cannot import emmet.config: %r' % (e,))
    try:
        out = ['(* GENERATED by harness/gen_config.py from the imported emmet.config -- do not edit.',
               '   Values are abstracted to ids (equal values share an id, %d distinct built-in values). *)' % ids.n_builtin,
               'From Coq Require Import List NArith ZArith.', 'Import ListNotations.',
               'From Emmet Require Import lib.Base lib.ConfigLib.', '']
        ds = cfg.DEFAULT_SYNTAXES
        if not (isinstance(ds, dict) and all(isinstance(k, str) and isinstance(v, str) for k, v in ds.items())):
            raise GenError('DEFAULT_SYNTAXES shape')
        out.append('Definition default_syntaxes : list (str * str) :=\n  [' +
                   ';\n   '.join('(%s, %s)' % (coq_str(k), coq_str(v)) for k, v in ds.items()) + '].\n')
        sx = cfg.SYNTAXES
        if not (isinstance(sx, dict) and all(isinstance(k, str) and isinstance(v, list) and
                                             all(isinstance(s, str) for s in v) for k, v in sx.items())):
            raise GenError('SYNTAXES shape')
        out.append('Definition syntaxes : list (str * list str) :=\n  [' +
                   ';\n   '.join('(%s, [%s])' % (coq_str(k), '; '.join(coq_str(s) for s in v))
                                 for k, v in sx.items()) + '].\n')
        scal = [(k, v) for k, v in cfg.DEFAULT_CONFIG.items() if isinstance(v, str)]
        out.append('(* str-valued entries of DEFAULT_CONFIG (not consulted by merged_data) *)\n'
                   'Definition default_config_scalars : list (str * str) :=\n  [' +
                   ';\n   '.join('(%s, %s)' % (coq_str(k), coq_str(v)) for k, v in scal) + '].\n')
        dsec = [(sec, d) for where, sec, d in layers if where == 'DEFAULT_CONFIG']
        out.append('(* dict-valued entries of DEFAULT_CONFIG: section -> key -> value id *)\n'
                   'Definition default_config : list (str * dict Z) :=\n  [' +
                   ';\n   '.join('(%s,%s\n     %s)' % (coq_str(sec), _cmt(sec), _dict_lit(ids, d)) for sec, d in dsec) + '].\n')
        ents = []
        for name, layer in cfg.SYNTAX_CONFIG.items():
            ents.append('(%s,%s\n    [%s])' % (coq_str(name), _cmt(name), ';\n     '.join(
                '(%s,%s\n     %s)' % (coq_str(sec), _cmt(sec), _dict_lit(ids, d)) for sec, d in layer.items())))
        out.append('Definition syntax_config : list (str * list (str * dict Z)) :=\n  [' +
                   ';\n   '.join(ents) + '].\n')
        out.append('Definition builtin_value_count : Z := %d%%Z.\n' % ids.n_builtin)
    except config_util.ShapeError as e:
        raise GenError(str(e))
    return write_if_changed('GenConfig.v', '\n'.join(out))


GENERATORS = [gen_layer_order, gen_config]
