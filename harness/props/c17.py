"""C17 -- Editor action helpers select exactly the tag, attribute and property parts.
Thin dispatcher: one library module per half."""
import c17_html

HALVES = [c17_html.run_html]
REPLAYS = [c17_html.replay_html]


def run(ctx):
    for half in HALVES:
        half(ctx)


def replay(ctx, obj):
    for rp in REPLAYS:
        rc = rp(ctx, obj)
        if rc is not None:
            return rc
    print('replay names a broken obligation, no input: %s' % str(obj.get('replay'))[:600])
    return 1
