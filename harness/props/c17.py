"""C17 -- Editor action helpers select exactly the tag, attribute and property parts.
Thin dispatcher: one library module per half."""
import c17_css
import c17_html

HALVES = [c17_html.run_html, c17_css.run_css]


def _css_replay(ctx, obj):
    if obj.get('replay', {}).get('component') != 'css':
        return None
    return c17_css.replay_css(ctx, obj)


REPLAYS = [c17_html.replay_html, _css_replay]


def run(ctx):
    for half in HALVES:
        half(ctx)


def replay(ctx, obj):
    for rp in REPLAYS:
        rc = rp(ctx, obj)
        if rc is not None:
            return rc
    print('replay names a broken obligation, no input: %s' % str(obj.get('replay'))[:600])
    return 1
