"""C10 -- CSS matcher returns the innermost rule or declaration with exact ranges.

Obligations: coq/props/C10.v (Level A theorems for all rule trees) and, because the folds
are proved for ordered event lists, the scanner theorems of coq/props/C16Css.v.
Tie: every generated stylesheet goes through emmet.css_matcher (scan, match,
balanced_outward, balanced_inward at every position -1..len+1) and through the extracted
model; canonical observables are compared.  Search: the ground truth recorded by the
generator is the oracle (independent of the model).
Level B tie (level_b): every generated stylesheet is also read as a sheet of the GRAMMAR of the
Level B theorems (coq/model/CssSheet.v, extracted via coq/run/SheetRun.v); when the grammar
accepts it (wf_sheet) the sheet must render to the very text, and the callbacks it denotes
(`events`, the right-hand side of css_scan_render) must equal both the generator's record and what
emmet.css_matcher.scan reports.  The share of generated sheets inside the proved grammar is
written into the evidence."""
import collections
import json
import os

import common
import css_util as U
import sheet_util as SU

FUNCS = ('match', 'outward', 'inward')
KEY_PAREN = 'css:semicolon-or-brace-inside-parentheses-delimits'


def load_corpus(pid):
    d = os.path.join(common.VERIF, 'corpus', pid)
    out = []
    if os.path.isdir(d):
        for fn in sorted(os.listdir(d)):
            if fn.endswith('.json'):
                with open(os.path.join(d, fn)) as f:
                    o = json.load(f)
                if o.get('component', 'css') == 'css':
                    o['file'] = fn
                    out.append(o)
    return out


def gen_docs(ctx, n, big):
    docs = []
    for i in range(n):
        r = ctx.rng.random()
        if r < 0.55:
            docs.append(U.gen_sheet(ctx.rng, ctx.cover, True, max_depth=2, n_max=2))
        elif r < 0.9 or not big:
            docs.append(U.gen_sheet(ctx.rng, ctx.cover, True, max_depth=3, n_max=3))
        else:
            docs.append(U.gen_sheet(ctx.rng, ctx.cover, True, max_depth=4, n_max=4))
    return docs


# ------------------------------------------------------------------ characters beyond ASCII, in every position
# Hard-coded facts, NOT read from the library under test (CSS Syntax Module Level 3, section 4.2 "Definitions" and
# section 3.3 "Preprocessing the input stream"; the Unicode White_Space / NFKC data for the look-alike lists):
#   * white space of a stylesheet is exactly U+0009 TAB, U+000A LF, U+000D CR, U+0020 SPACE (and U+000C FF);
#   * every code point >= U+0080 is a name ("non-ASCII ident") code point, the C0 controls other than those above and
#     U+007F are ordinary (delim) code points: all of them are part of the selector / name / value they occur in;
#   * only the ASCII characters { } : ; ( ) " ' / * \ have structural meaning.
# So none of the characters below separates, delimits, quotes or can be trimmed from anything, although Python's
# str.isspace() / str.strip() / str.split() / str.splitlines(), unicodedata.normalize() and the case mappings treat
# many of them like white space, line ends or ASCII punctuation.  Not in these lists: U+00A0, which Emmet's scanners
# document as white space (it is generated AS white space by the white space styles below, WS_UNITS), and U+000C (CSS
# counts it as white space, Emmet does not: the statement does not pin it, left out on purpose).
WIDE_CLASSES = {
    # str.isspace() is true for each of these; the last four of the first row and \x85 \u2028 \u2029 also end a line
    # for str.splitlines()
    'space-lookalike': ['\x0b', '\x1c', '\x1d', '\x1e', '\x1f', '\x85', '\u1680', '\u2000', '\u2001', '\u2002', '\u2003',
                        '\u2004', '\u2005', '\u2006', '\u2007', '\u2008', '\u2009', '\u200a', '\u2028', '\u2029',
                        '\u202f', '\u205f', '\u3000'],
    # invisible / format characters and remaining controls (str.isspace() false)
    'invisible': ['\u200b', '\u200c', '\u200d', '\u2060', '\ufeff', '\xad', '\u180e', '\x01', '\x7f', '\x80', '\x9f', '\x00'],
    # compatibility forms of the delimiters (NFKC / NFC folds them to { } : ; ( ) " ' / * \ , -) and other colon / semicolon twins
    'delimiter-lookalike': ['\uff1a', '\uff1b', '\uff5b', '\uff5d', '\uff08', '\uff09', '\uff02', '\uff07', '\uff0f',
                            '\uff0a', '\uff3c', '\ufe55', '\ufe54', '\ufe5b', '\ufe5c', '\ufe59', '\ufe5a', '\u037e',
                            '\u2236', '\u02d0', '\u2215', '\u2044', '\u201c', '\u201d', '\u2018', '\u2019', '\uff0c'],
    # letters, digits, marks: accented, case mappings that change the length (\xdf, \u0130, \ufb01, \u0149), combining
    # mark, non-ASCII decimal digits, full-width letter, CJK, beyond the BMP
    'letter': ['\xe9', '\xdf', '\u0130', '\u0131', '\ufb01', '\u0149', '\u03a9', '\u044f', '\u4e2d', '\uff58', '\u0301',
               '\u0663', '\xb2', '\U0001f600', '\U00010400', '\uffff', '\U0010ffff'],
}
WIDE_WORDS = {
    'selector': ['a', '.b', '#c', 'ul > li', 'a:hover', '::before', ':root', '&.sel', 'li:not(:last-child)', 'a, b',
                 '@media (min-width: 10px)', '@font-face', 'a[title="x;}"]', '@include mq($from: mobile)', 'from', '50%'],
    'name': ['color', 'margin-top', 'b', '$var', '--custom', '--x', 'font', '*zoom', '-webkit-transition'],
    'value': ['10px', 'red', '#fff', '$var', '-1px', '!important', '0', 'c', '1.5em', 'a-b', '100%'],
}


def wide_chars(rng, cover, where):
    """one or two characters of one class"""
    cls = rng.choice(sorted(WIDE_CLASSES))
    cover('wide:%s:%s' % (where, cls))
    return ''.join(rng.choice(WIDE_CLASSES[cls]) for _ in range(rng.choice((1, 1, 1, 2))))


def wide_word(rng, cover, where, p):
    """a selector / name / value word, with probability p carrying non-ASCII (or control) characters: as the whole
    word, as its first, its last, its first and last characters, or between two of its letters"""
    w = rng.choice(WIDE_WORDS[where])
    if rng.random() >= p:
        return w
    place = rng.choice(('whole', 'first', 'last', 'first-and-last', 'inside'))
    if place == 'inside':
        cuts = [i for i in range(1, len(w)) if w[i - 1].isalnum() and w[i].isalnum() and w[i - 1].isascii() and w[i].isascii()]
        if not cuts:
            place = 'last'
        else:
            i = rng.choice(cuts)
            w = w[:i] + wide_chars(rng, cover, where) + w[i:]
    if place == 'whole':
        w = wide_chars(rng, cover, where)
    elif place == 'first':
        w = wide_chars(rng, cover, where) + w
    elif place == 'last':
        w = w + wide_chars(rng, cover, where)
    elif place == 'first-and-last':
        w = wide_chars(rng, cover, where) + w + wide_chars(rng, cover, where)
    cover('wide:%s:%s' % (where, place))
    return w


def pick(rng, options):
    """one of the options; a callable option is called only when chosen (so that generator calls and coverage counts
    describe what was actually written)"""
    o = rng.choice(options)
    return o() if callable(o) else o


def wide_string(rng, cover):
    """a quoted string mixing such characters with delimiters, comment markers and escape pairs"""
    q = rng.choice('"\'')
    bits = ['{', '}', ';', ':', '(', ')', '/*', '*/', '\\' + q, '\\\\', 'a', ' ', '"' if q == "'" else "'"]
    out = ''
    for _ in range(rng.randint(1, 5)):
        r = rng.random()
        if r < 0.5:
            out += wide_chars(rng, cover, 'string')
        elif r < 0.6:
            out += '\\' + wide_chars(rng, cover, 'string-escaped')
        else:
            out += rng.choice(bits)
    return q + out + q


def wide_comment(rng, cover):
    out = ''
    for _ in range(rng.randint(1, 4)):
        out += wide_chars(rng, cover, 'comment') if rng.random() < 0.6 else rng.choice(['{', '}', ';', ':', ' ', 'a: b;', '*', '/', '"', "'"])
    return '/*' + out.replace('*/', '* /') + '*/'


def wide_atom(rng, cover, p):
    r = rng.random()
    if r < 0.5:
        return wide_word(rng, cover, 'value', p)
    if r < 0.7:
        return wide_string(rng, cover) if rng.random() < p else U.rnd_string(rng)
    if r < 0.8:
        return 'url(' + (wide_string(rng, cover) if rng.random() < 0.5 else wide_chars(rng, cover, 'parenthesised')) + ')'
    # parenthesised expression: colons (never ; { }) and such characters inside
    inner = wide_word(rng, cover, 'value', p)
    if rng.random() < 0.5:
        inner = wide_word(rng, cover, 'name', p) + rng.choice([': ', ':']) + inner
    if rng.random() < 0.4:
        inner = '(' + inner + ')' + rng.choice([', ', ' ']) + wide_word(rng, cover, 'value', p)
    return pick(rng, ['f', 'calc', 'var', '', lambda: wide_word(rng, cover, 'value', 1)]) + '(' + inner + ')'


def wide_items(rng, cover, depth, top, p):
    """mk_sheet specification of a body; p = share of the words / strings / comments that carry such characters"""
    spec = []
    com = lambda: wide_comment(rng, cover) if rng.random() < p else rng.choice(U.COMMENTS)  # noqa: E731
    gap = lambda: U.rnd_ws(rng) + (com() + U.rnd_ws(rng) if rng.random() < 0.25 else '')  # noqa: E731
    for _ in range(rng.randint(1 if top else 0, 3)):
        spec.append(gap())
        if depth < 2 and rng.random() < (0.7 if top else 0.3):
            sel = wide_word(rng, cover, 'selector', p)
            spec.append(('rule', sel, gap() if rng.random() < 0.2 else U.rnd_ws(rng),
                         wide_items(rng, cover, depth + 1, False, p)))
        else:
            atoms = []
            for i in range(rng.choice((1, 1, 1, 2, 3))):
                sep = '' if i == 0 else pick(rng, [' ', ' ', ', ', ',', ' / ', '\n    ', lambda: ' ' + com() + ' '])
                atoms.append((sep, wide_atom(rng, cover, p)))
            spec.append(('decl', wide_word(rng, cover, 'name', p), pick(rng, ['', '', '', ' ', com]),
                         pick(rng, [' ', ' ', '', '\n    ', lambda: ' ' + com() + ' ']), atoms,
                         pick(rng, ['', '', '', ' ', '\n', lambda: ' ' + com()]), True))
    spec.append(gap())
    return spec


def gen_wide_docs(ctx, n):
    """Stylesheets whose selectors, names, values, strings, comments and parenthesised expressions carry the characters
    of WIDE_CLASSES in every position (whole word, first, last, inside), with the same kind of record as U.gen_sheet;
    sparse sheets (one word in five), mixed and dense ones."""
    docs = []
    for _ in range(n):
        p = ctx.rng.choice((0.2, 0.45, 0.8))
        docs.append(U.mk_sheet(wide_items(ctx.rng, ctx.cover, 0, True, p)))
        ctx.cover('wide:sheets')
        ctx.cover('wide:sheets:share-of-words-%d%%' % int(p * 100))
    return docs


# ------------------------------------------------------------------ declarations whose value is empty
# The half-typed form of a declaration (name and colon typed, value still missing: `color:;`, `color: ;`), the empty
# custom property (`--x:;`, valid CSS) and the value that was commented out (`color: /* red */;`).  The slot between
# colon and semicolon then holds nothing, white space only, or white space and comments only.  The record marks such a
# declaration with 'empty': True and no tokens; vstart == vend are placeholders (see oracle_one / record_variants).
EMPTY_SLOTS = ['', ' ', '  ', '\t', '\n', '\n    ', '\r\n', '/**/', ' /* red */ ', '/*;*/', ' /* } */', '/* a: b; */ ',
               '/*{*/ /*:*/', ' \n /* x */ \n ']
EMPTY_NAMES = ['color', 'b', '--x', '--custom', '$v', 'margin-top', '*zoom', '-webkit-transition']


def _ev_items(o, spec):
    """css_util.mk_sheet with one more form: a declaration with NO atoms has an empty value"""
    items = []
    for it in spec:
        if isinstance(it, str):
            o.w(it)
        elif it[0] == 'rule':
            _, sel, gap, children = it
            r = {'t': 'rule', 'start': o.pos}
            o.w(sel)
            r['sel_end'] = o.pos
            o.w(gap)
            r['brace'] = o.pos
            o.w('{')
            r['children'] = _ev_items(o, children)
            r['close'] = o.pos
            o.w('}')
            r['end'] = o.pos
            items.append(r)
        elif it[4]:
            sub = U.Out()
            sub.pos = o.pos
            items += U._mk_items(sub, [it])
            o.w(sub.text())
        else:
            _, name, pre, post, _atoms, tail, _term = it
            d = {'t': 'decl', 'start': o.pos, 'empty': True, 'tokens': []}
            o.w(name)
            d['name_end'] = o.pos
            o.w(pre)
            d['colon'] = o.pos
            o.w(':')
            o.w(post + tail)
            d['semi'] = d['vstart'] = d['vend'] = o.pos
            o.w(';')
            d['end'] = o.pos
            items.append(d)
    return items


def mk_sheet_ev(spec):
    o = U.Out()
    items = _ev_items(o, spec)
    return o.text(), items


_VARIANTS = {}


def record_variants(items):
    """The records a sheet with empty values stands for: every empty value placed at the first and at the last
    position of its slot (colon + 1, semicolon).  [items] itself for a sheet without empty values."""
    hit = _VARIANTS.get(id(items))
    if hit is not None and hit[0] is items:
        return hit[1]
    if not any(n.get('empty') for n in U.preorder(items)):
        out = [items]
    else:
        def place(ns, last):
            res = []
            for n in ns:
                n = dict(n)
                if n['t'] == 'rule':
                    n['children'] = place(n['children'], last)
                elif n.get('empty'):
                    n['vstart'] = n['vend'] = n['semi'] if last else n['colon'] + 1
                res.append(n)
            return res
        out = [place(items, False), place(items, True)]
    if len(_VARIANTS) > 4000:
        _VARIANTS.clear()
    _VARIANTS[id(items)] = (items, out)
    return out


def empty_decl_spec(rng, cover):
    name = rng.choice(EMPTY_NAMES)
    slot = rng.choice(EMPTY_SLOTS)
    cover('empty-value:slot:%s' % ('nothing' if slot == '' else 'white-space' if not slot.strip() else 'comment'))
    cover('empty-value:name:%s' % ('custom-property' if name.startswith('--') else 'scss-variable' if name.startswith('$') else 'plain'))
    return ('decl', name, pick(rng, ['', '', '', ' ', lambda: rng.choice(U.COMMENTS)]), slot, [], '', True)


def empty_items(rng, cover, depth, top, p):
    """mk_sheet_ev specification of a body; p = share of the declarations whose value is empty"""
    spec = []
    for _ in range(rng.randint(1 if top else 0, 3)):
        spec.append(U.rnd_gap(rng))
        if depth < 3 and rng.random() < (0.7 if top else 0.3):
            sel = pick(rng, [lambda: rng.choice(U.SELECTORS), lambda: 'a[title=%s]' % U.rnd_string(rng)])
            spec.append(('rule', sel, pick(rng, [lambda: U.rnd_ws(rng), lambda: U.rnd_ws(rng) + rng.choice(U.COMMENTS)]),
                         empty_items(rng, cover, depth + 1, False, p)))
        elif rng.random() < p:
            spec.append(empty_decl_spec(rng, cover))
            cover('empty-value:%s' % ('top-level' if top else 'nested-rule' if depth > 1 else 'in-rule'))
        else:
            atoms = []
            for i in range(rng.choice((1, 1, 2, 3))):
                atoms.append(('' if i == 0 else rng.choice([' ', ', ', ' / ', '\n    ']),
                              pick(rng, [lambda: rng.choice(U.ATOMS), lambda: rng.choice(U.ATOMS), lambda: U.rnd_string(rng)])))
            spec.append(('decl', rng.choice(U.NAMES), pick(rng, ['', '', ' ']), pick(rng, [' ', ' ', '', '\n    ']), atoms,
                         pick(rng, ['', '', ' ']), True))
    spec.append(U.rnd_gap(rng))
    return spec


def gen_empty_value_docs(ctx, n_small, n_random):
    """Sheets with declarations whose value is empty: a sample of the small systematic ones (every name x slot x shape
    is a candidate: only / first / last / middle child, in a nested rule, before and after a nested rule, at top level
    before / after / between rules, inside an at-rule, next to comments, strings and parentheses) and random trees in
    which a third, two thirds or all of the declarations are value-less."""
    rng = ctx.rng
    docs = []
    combos = [(sh, nm, sl) for sh in range(len(EMPTY_SHAPE_SPECS)) for nm in EMPTY_NAMES for sl in EMPTY_SLOTS]
    for sh, nm, sl in (rng.sample(combos, n_small) if n_small < len(combos) else combos):
        docs.append(mk_sheet_ev(_fill(EMPTY_SHAPE_SPECS[sh], ('decl', nm, '', sl, [], '', True))))
        ctx.cover('empty-value:systematic-sheets')
        ctx.cover('empty-value:slot:%s' % ('nothing' if sl == '' else 'white-space' if not sl.strip() else 'comment'))
    for _ in range(n_random):
        p = rng.choice((0.34, 0.67, 1.0))
        docs.append(mk_sheet_ev(empty_items(rng, ctx.cover, 0, True, p)))
        ctx.cover('empty-value:random-sheets')
        ctx.cover('empty-value:random-sheets:share-of-declarations-%d%%' % int(p * 100))
    return docs


# ------------------------------------------------------------------ white space of every kind in every slot
# Hard-coded fact, NOT read from the library under test: what Emmet's scanners call white space.  Upstream
# @emmetio/scanner, utils.ts: isWhiteSpace(c) is c === 32 (space) || c === 9 (tab) || c === 160 ("non-breaking space"),
# isSpace(c) is isWhiteSpace(c) || c === 10 (LF) || c === 13 (CR); the CSS matcher skips exactly these between tokens
# and trims exactly these from a rule's content range.  So for the matcher a NO-BREAK SPACE is white space like a blank:
# it is never part of a selector, a property name or a value it stands next to, it never starts or ends one, and it is
# trimmed from both ends of a rule's content; inside strings, comments and parentheses it is an ordinary character.
# (css_util.is_space / css_util.trim, which the oracle uses for content ranges, hard-code the same five characters.)
# Editors and copy/paste from web pages and word processors produce NBSP indentation and `name:<NBSP>value`.
# A sheet is written in ONE white space style; every white space slot of the sheet draws its run from the style:
WS_UNITS = {'space': ' ', 'tab': '\t', 'lf': '\n', 'cr': '\r', 'crlf': '\r\n', 'nbsp': '\xa0'}
WS_STYLES = ('space', 'tab', 'lf', 'cr', 'crlf', 'nbsp',            # one unit only, runs of one to three
             'lf+nbsp-indent', 'crlf+nbsp-indent', 'lf+tab-indent', 'cr+space-indent',   # line break + indentation
             'mixed', 'mixed-nbsp-at-the-ends')                       # runs of one to four units of any kind
# slots at which a line may break (between items, before the closing brace, at the ends of the file); all others
# (around the colon, between selector and brace, between the words of a selector or value, before the semicolon,
# inside parentheses / strings / comments) are within a line
WS_LINE_SLOTS = ('before-declaration', 'before-selector', 'before-closing-brace', 'file-start', 'file-end',
                 'before-comment', 'after-comment')
WS_NO_BREAK_SLOTS = ('inside-string',)      # a raw line break ends a string for the scanner (and for CSS)
WS_EMPTY_SHARES = (0.0, 0.3, 0.6, 1.0)      # share of the optional slots left empty (1.0: no white space at all)


class WsStyle:
    """the white space writer of one sheet"""

    def __init__(self, rng, cover, style, p_empty):
        self.rng, self.cover, self.style, self.p_empty = rng, cover, style, p_empty
        self.depth = 0
        # every other sheet is small (at most two items per body, one level of nesting): short replays
        self.n_max, self.max_depth = rng.choice(((2, 2), (3, 3)))

    def _run(self, slot):
        rng, st = self.rng, self.style
        if slot in WS_NO_BREAK_SLOTS:
            units = {'tab': ['tab'], 'lf+tab-indent': ['tab', 'space'], 'nbsp': ['nbsp'], 'space': ['space'],
                     'cr+space-indent': ['space']}.get(st, ['nbsp', 'space', 'tab'] if 'nbsp' in st or 'mixed' in st else ['space'])
            return [rng.choice(units) for _ in range(rng.randint(1, 2))]
        if st in WS_UNITS:
            return [st] * rng.randint(1, 3)
        if st.endswith('-indent'):
            brk, ind = st[:-len('-indent')].split('+')
            if slot in WS_LINE_SLOTS:
                return [brk] * rng.choice((1, 1, 2)) + [ind] * rng.choice((self.depth, self.depth, 2 * self.depth, 1))
            return [rng.choice((ind, ind, 'space'))] * rng.choice((1, 1, 2))
        names = sorted(WS_UNITS)
        run = [rng.choice(names) for _ in range(rng.randint(1, 4))]
        if st == 'mixed-nbsp-at-the-ends':
            where = rng.choice(('first', 'last', 'both', 'only'))
            if where in ('first', 'both'):
                run[0] = 'nbsp'
            if where in ('last', 'both'):
                run[-1] = 'nbsp'
            if where == 'only':
                run = ['nbsp'] * len(run)
        return run

    def __call__(self, slot, need=False):
        if not need and self.rng.random() < self.p_empty:
            self.cover('ws:%s:none' % slot)
            return ''
        run = self._run(slot)
        if not run:
            self.cover('ws:%s:none' % slot)
            return ''
        kinds = sorted(set(run))
        self.cover('ws:%s:%s' % (slot, kinds[0] if len(kinds) == 1 else 'mixed-with-nbsp' if 'nbsp' in kinds else 'mixed'))
        # which unit touches the token that follows / precedes the slot
        self.cover('ws:unit-before-next-token:%s' % run[-1])
        self.cover('ws:unit-after-previous-token:%s' % run[0])
        return ''.join(WS_UNITS[u] for u in run)

    def word(self, w, slot):
        """the blanks inside a selector / a parenthesised expression rewritten in the style (never left out)"""
        if ' ' not in w or '"' in w or "'" in w:
            return w
        return ''.join(self(slot, need=True) if ch == ' ' else ch for ch in w)

    def comment(self):
        rng = self.rng
        if rng.random() < 0.5:
            return rng.choice(U.COMMENTS)
        return '/*' + self('inside-comment') + rng.choice(['x', 'a: b;', '{', '}', ';', 'c { d: e; }']) + self('inside-comment') + '*/'

    def string(self):
        rng = self.rng
        q = rng.choice('"\'')
        bits = ['{', '}', ';', ':', '(', ')', '/*', '*/', '\\' + q, '\\\\', 'a', 'x']
        out = ''
        for _ in range(rng.randint(1, 4)):
            out += self('inside-string', need=True) if rng.random() < 0.5 else rng.choice(bits)
        return q + out + q

    def gap(self, slot):
        """white space and comments before an item / before the closing brace"""
        out = ''
        while self.rng.random() < 0.2:
            out += self('before-comment') + self.comment()
            out += self('after-comment') if self.rng.random() < 0.3 else ''
        return out + self(slot)


def ws_items(W, depth, top):
    """mk_sheet_ev specification of a body written by the white space writer W"""
    rng = W.rng
    spec = []
    n = rng.randint(1 if top else 0, W.n_max)
    for i in range(n):
        W.depth = depth
        if depth < W.max_depth and rng.random() < (0.7 if top else 0.3):
            spec.append(W.gap('file-start' if top and i == 0 else 'before-selector'))
            sel = pick(rng, [lambda: W.word(rng.choice(U.SELECTORS), 'inside-selector'),
                             lambda: W.word(rng.choice(U.SELECTORS), 'inside-selector'),
                             lambda: 'a[title=%s]' % W.string()])
            between = W('between-selector-and-brace')
            if rng.random() < 0.1:
                between += W.comment() + W('between-selector-and-brace')
            spec.append(('rule', sel, between, ws_items(W, depth + 1, False)))
        else:
            spec.append(W.gap('file-start' if top and i == 0 else 'before-declaration'))
            name = rng.choice(U.NAMES)
            pre = W('before-colon') if rng.random() < 0.3 else ''
            if rng.random() < 0.12:
                # value-less declaration whose slot holds white space of the style (or nothing)
                W.cover('ws:declaration-with-empty-value')
                spec.append(('decl', name, pre, W('empty-value-slot'), [], '', True))
                continue
            post = W('after-colon')
            if rng.random() < 0.08:
                post += W.comment() + W('after-colon')
            atoms = []
            for j in range(rng.choice((1, 1, 2, 3))):
                if j == 0:
                    sep = ''
                else:
                    sep = pick(rng, [lambda: W('between-value-words', need=True), lambda: W('between-value-words', need=True),
                                     lambda: W('before-comma') + ',' + W('after-comma'),
                                     lambda: W('between-value-words') + '/' + W('between-value-words'),
                                     lambda: W('between-value-words') + W.comment() + W('between-value-words')])
                atoms.append((sep, pick(rng, [lambda: W.word(rng.choice(U.ATOMS), 'inside-parentheses'),
                                              lambda: W.word(rng.choice(U.ATOMS), 'inside-parentheses'),
                                              W.string, lambda: 'url(' + W.string() + ')'])))
            tail = W('before-semicolon') if rng.random() < 0.3 else ''
            if rng.random() < 0.06:
                tail += W.comment() + (W('before-semicolon') if rng.random() < 0.3 else '')
            spec.append(('decl', name, pre, post, atoms, tail, True))
    W.depth = max(depth - 1, 0)
    spec.append(W.gap('file-end' if top else 'before-closing-brace'))
    return spec


def gen_ws_docs(ctx, n):
    """Stylesheets written in one white space style each (WS_STYLES x WS_EMPTY_SHARES in turn, so that every style is
    met with every share of omitted slots): random trees of nested rules and declarations in which EVERY white space
    slot is filled by the style, with the same kind of record as U.gen_sheet."""
    combos = [(st, pe) for pe in WS_EMPTY_SHARES for st in WS_STYLES if not (pe == 1.0 and st != 'space')]
    ctx.rng.shuffle(combos)
    docs = []
    for k in range(n):
        st, pe = combos[k % len(combos)]
        docs.append(mk_sheet_ev(ws_items(WsStyle(ctx.rng, ctx.cover, st, pe), 0, True)))
        ctx.cover('ws:sheets')
        ctx.cover('ws:style:%s' % ('no-white-space-at-all' if pe == 1.0 else st))
        ctx.cover('ws:optional-slots-left-empty-%d%%' % int(pe * 100))
    return docs


# the systematic shapes, as mk_sheet_ev specifications with a hole _D for the value-less declaration:
# a{D}  a { D }  a{Dc:d;}  a{c:d;D}  a{c:d; D e:f;}  a{b{D}}  a{b{}D}  a{Db{c:d;}}  D  Da{}  a{}D  a{}\nD\nb{c:d;}
# @media (min-width: 1px) { a:hover {D} }  a{/* x */D/* y */}  a{c:"};";Dc:(d);}
_D = object()
_CD = ('decl', 'c', '', '', [('', 'd')], '', True)
EMPTY_SHAPE_SPECS = [
    [('rule', 'a', '', [_D])],
    [('rule', 'a', ' ', [' ', _D, ' '])],
    [('rule', 'a', '', [_D, _CD])],
    [('rule', 'a', '', [_CD, _D])],
    [('rule', 'a', '', [_CD, ' ', _D, ' ', ('decl', 'e', '', '', [('', 'f')], '', True)])],
    [('rule', 'a', '', [('rule', 'b', '', [_D])])],
    [('rule', 'a', '', [('rule', 'b', '', []), _D])],
    [('rule', 'a', '', [_D, ('rule', 'b', '', [_CD])])],
    [_D],
    [_D, ('rule', 'a', '', [])],
    [('rule', 'a', '', []), _D],
    [('rule', 'a', '', []), '\n', _D, '\n', ('rule', 'b', '', [_CD])],
    [('rule', '@media (min-width: 1px)', ' ', [' ', ('rule', 'a:hover', ' ', [_D]), ' '])],
    [('rule', 'a', '', ['/* x */', _D, '/* y */'])],
    [('rule', 'a', '', [('decl', 'c', '', '', [('', '"};"')], '', True), _D, ('decl', 'c', '', '', [('', '(d)')], '', True)])],
]


def _fill(spec, decl):
    out = []
    for it in spec:
        if it is _D:
            out.append(decl)
        elif isinstance(it, tuple) and it[0] == 'rule':
            out.append(it[:3] + (_fill(it[3], decl),))
        else:
            out.append(it)
    return out


def oracle_doc(text, items, im):
    """first failing (pos, func, why) per function, over all positions"""
    bad = {}
    for pos in range(-1, len(text) + 2):
        got = {f: im[f][pos + 1] for f in FUNCS}
        for f, why in c10_oracle(text, items, pos, got):
            if f not in bad:
                bad[f] = (pos, why)
    return bad


def level_b(ctx, docs, impls, finding_docs=()):
    """Spec of the Level B theorems against the generator's record and the implementation.
    The witnesses of the listed finding must lie OUTSIDE the proved grammar."""
    model = ctx.model('sheet')
    if model is None:
        return
    cases, idx = [], []
    stat = {'sheets': len(docs), 'in_grammar': 0, 'outside': {}, 'render_differs': 0, 'record_differs': 0,
            'implementation_differs': 0, 'finding_witnesses_outside': 0}
    for text, items in finding_docs:
        try:
            w = model.run([SU.enc_sheet(SU.build_sheet(text, items))])[0]
            r = SU.decode(w)
            if r is not None and r[0]:
                # a sheet of the proved grammar on which the property is recorded to fail
                ctx.broken.append({'kind': 'level-b-tie', 'file': 'finding-witness-inside-proved-grammar', 'input': text})
            else:
                stat['finding_witnesses_outside'] += 1
        except SU.Outside:
            stat['finding_witnesses_outside'] += 1

    def outside(why):
        stat['outside'][why] = stat['outside'].get(why, 0) + 1
    for i, (text, items) in enumerate(docs):
        try:
            cases.append(SU.enc_sheet(SU.build_sheet(text, items)))
            idx.append(i)
        except SU.Outside as e:
            outside(str(e))
    outs = model.run(cases)
    for i, w in zip(idx, outs):
        text, items = docs[i]
        r = SU.decode(w)
        if r is None:
            ctx.broken.append({'kind': 'level-b-tie', 'file': 'sheet-encoding', 'input': text})
            continue
        wf, rendered, evs = r
        if not wf:
            outside('wf_sheet-false')
            continue
        stat['in_grammar'] += 1
        ctx.cover('levelB:sheet-in-proved-grammar')
        if rendered != text:
            stat['render_differs'] += 1
            ctx.broken.append({'kind': 'level-b-tie', 'file': 'render', 'input': text, 'model': rendered[:300]})
            continue
        im = impls[i]
        if im['events'] != ('ok', evs):
            # the implementation does not report the callbacks the theorem's right-hand side denotes
            stat['implementation_differs'] += 1
            if stat['implementation_differs'] <= 3:
                ctx.say('LEVEL-B css scan on %s\n  impl   %r\n  events %r' % (U.short(text), im['events'], evs))
            if not oracle_doc(text, items, im):
                ctx.broken.append({'kind': 'level-b-tie', 'file': 'css_scan_render:events-vs-implementation',
                                   'input': text, 'impl': repr(im['events'])[:300], 'model': repr(evs)[:300]})
        if SU.record_events(items) != evs:
            stat['record_differs'] += 1
            ctx.broken.append({'kind': 'level-b-tie', 'file': 'tree-vs-generator-record', 'input': text,
                               'record': repr(SU.record_events(items))[:300], 'model': repr(evs)[:300]})
    ctx.cov['correspondence']['level_b_grammar'] = stat


POISON_SHEETS = ['a {\n    background: url(', 'x{y:(', '@media (a', 'a{b:c)}', 'a{b:"c', '/* open', 'a{b{c{', '}}}', 'a:(b:(c']


def call_sequences(ctx, docs):
    """The result for (sheet, position) does not depend on which calls came before: positions are queried in a
    shuffled order, alternating between two sheets, with queries on half-typed sheets (unbalanced parentheses,
    unterminated strings/comments, stray braces) interleaved; every answer is checked against the record."""
    rng = ctx.rng
    n = bad_n = 0
    for k in range(0, len(docs) - 1, 2):
        pair = [docs[k], docs[k + 1]]
        queries = []
        for text, items in pair:
            ps = list(range(0, len(text) + 1))
            rng.shuffle(ps)
            queries += [(text, items, p) for p in ps[:40]]
        rng.shuffle(queries)
        hist = []
        for j, (text, items, pos) in enumerate(queries):
            if j % 4 == 0:
                poison = rng.choice(POISON_SHEETS)
                pp = rng.randint(0, len(poison))
                for f in ('match', 'outward', 'inward'):
                    U.IMPL[f](poison, pp)
                    CALL_LOG.append((f, poison, pp))
                hist.append([poison, pp])
            got = {f: U.IMPL[f](text, pos) for f in ('match', 'outward', 'inward')}
            CALL_LOG.extend((f, text, pos) for f in ('match', 'outward', 'inward'))
            hist.append([text, pos])
            n += 1
            ctx.count_eval()
            ctx.cover('call-sequence-queries')
            bad = c10_oracle(text, items, pos, got)
            if bad:
                bad_n += 1
                f, why = bad[0]
                fresh = {g: U.IMPL[g](text, pos) for g in ('match', 'outward', 'inward')}
                ctx.property_failure('c10:sequence:%s:%s@%d' % (f, text, pos),
                                     'css %s on %s after other calls (shuffled positions, other sheets, half-typed sheets): %s' % (f, U.short(text), why),
                                     {'component': 'css', 'check': 'c10-sequence', 'text': text, 'items': items, 'pos': pos, 'func': f,
                                      'why': why, 'history': hist[-40:],
                                      'note': 'history-dependent: asked again right away the answer is %r' % (fresh[f],)})
                if bad_n >= 5:
                    break
        if bad_n >= 5:
            break
    ctx.cov['call_sequence_queries'] = n


# ------------------------------------------------------------------ the answer belongs to the caller
# match() hands out an object, balanced_outward()/balanced_inward() hand out lists.  The statement says what each
# CALL returns; so it must hold for a call whatever the caller did with the answers of earlier calls (an editor's
# "expand selection" command pops the ranges off the list, others shift the offsets, sort, clear or extend it), and an
# answer the caller still holds must stay what the call returned whatever is asked -- or done to other answers --
# afterwards.  Scripts of three kinds of steps, run on the RAW return values of emmet.css_matcher (the canonical
# observers of css_util copy the ranges out and never touch the object):
#   ask     call func(text, pos) (with the very string object or an equal string built separately), keep the raw answer
#           in a slot, judge it against the record;
#   use     the caller uses up / edits the answer in a slot in place (LIST_USES, OBJECT_USES);
#   reread  judge an answer asked earlier and not used since against the record again.
LIST_USES = ('pop-first', 'pop-last', 'clear', 'reverse', 'shift-offsets', 'append-own-range', 'insert-front',
             'drop-until-larger', 'sort-widest-first', 'keep-one', 'extend-with-itself')
OBJECT_USES = ('shift-offsets', 'change-type', 'drop-body', 'collapse-to-start')
OWNED_FUNCS = {'match': 'match', 'outward': 'balanced_outward', 'inward': 'balanced_inward'}


def _raw_call(f, text, pos):
    import emmet.css_matcher as M
    try:
        return ('ok', getattr(M, OWNED_FUNCS[f])(text, pos))
    except Exception as e:  # noqa: BLE001
        return ('internal', U._kind(e))


_raw_limited = common.limited(_raw_call)
# the calls made in this process, most recent last (call_sequences and the scripts below): a failure inside a script may
# be due to what an EARLIER call left behind in the library -- or to what the caller did to an EARLIER answer the library
# still refers to -- so the replay carries the calls that preceded the script (f, text, pos, serial number of the answer)
# and the in-place uses of those answers ('use', serial, how, k, pos)
CALL_LOG = collections.deque(maxlen=240)
_SERIAL = [0]
_LAST_SERIAL = [None]


def raw_call(f, text, pos):
    _SERIAL[0] += 1
    _LAST_SERIAL[0] = _SERIAL[0]
    CALL_LOG.append((f, text, pos, _SERIAL[0]))
    return _raw_limited(f, text, pos)


def canon(f, raw):
    """canonical observable (module docstring of css_util) of a raw answer as it is NOW"""
    if raw[0] != 'ok':
        return raw
    v = raw[1]
    try:
        if f == 'match':
            if v is None:
                return None
            return (v.type == 'property', v.start, v.end, v.body_start, v.body_end) if v.type in ('property', 'selector') \
                else ('badtype', v.type)
        return ('ok', [(r[0], r[1]) for r in v])
    except Exception as e:  # noqa: BLE001
        return ('unreadable', type(e).__name__)


def oracle_one(text, items, pos, f, got):
    """the statement for ONE function at one position, against the generator's record; None when it holds.
    A declaration whose value is EMPTY (record field 'empty') has no value text the body could be compared with: the
    statement ("from its name to its terminating semicolon with the value as body") then fixes name start and end
    exactly and says of the body only that it is the (empty) value, i.e. an empty range inside the value slot --
    after the colon, not after the semicolon: colon < body_start == body_end <= semicolon.  balanced_outward() never
    lists empty ranges, so it is pinned exactly; balanced_inward() treats a position up to the value's end as a direct
    hit of the declaration, so both ends of the slot are accepted for that test and nothing beyond them."""
    variants = record_variants(items)
    if f == 'match':
        exp = U.expected_match(variants[-1], pos)
        chain = U.enclosing_chain(items, pos)
        if chain and chain[-1].get('empty'):
            n = chain[-1]
            ok = (isinstance(got, tuple) and len(got) == 5 and got[:3] == exp[:3] and type(got[3]) is int
                  and got[3] == got[4] and n['colon'] < got[3] <= n['semi'])
            exp = '%r with an empty body v..v inside the value slot, %d < v <= %d' % (exp[:3], n['colon'], n['semi'])
        else:
            ok = got == exp
    elif f == 'outward':
        exp = ('ok', U.expected_outward(text, variants[-1], pos))
        ok = got == exp
    else:
        exp = ('ok', U.expected_inward(text, variants[-1], pos))
        ok = any(got == ('ok', U.expected_inward(text, v, pos, value_body=vb)) for v in variants for vb in (False, True))
    return None if ok else '%s(pos=%d) = %r, the record says %s' % (OWNED_FUNCS[f], pos, got, exp if isinstance(exp, str) else repr(exp))


def c10_oracle(text, items, pos, got):
    """got: dict func -> canonical result of the implementation at pos; list of (func, description) that fail"""
    bad = []
    for f in FUNCS:
        why = oracle_one(text, items, pos, f, got[f])
        if why:
            bad.append((f, why))
    return bad


def use_answer(v, how, k, pos):
    """what a caller does with an answer it owns; True when the object was really edited"""
    if isinstance(v, list):
        before = list(v)
        if how == 'pop-first' and v:
            v.pop(0)
        elif how == 'pop-last' and v:
            v.pop()
        elif how == 'clear':
            v.clear()
        elif how == 'reverse':
            v.reverse()
        elif how == 'shift-offsets':
            for i, e in enumerate(v):
                if isinstance(e, list):
                    e[0] += k
                    e[1] += k
                    before = None
                else:
                    v[i] = (e[0] + k, e[1] + k)
        elif how == 'append-own-range':
            v.append((pos, pos + abs(k)))
        elif how == 'insert-front':
            v.insert(0, (pos, pos))
        elif how == 'drop-until-larger':
            while v:
                r = v.pop(0)
                if r[0] < pos < r[1] and r[1] - r[0] > abs(k):
                    break
        elif how == 'sort-widest-first':
            v.sort(key=lambda r: (r[0] - r[1], r[0]))
        elif how == 'keep-one' and v:
            v[:] = v[len(v) // 2:len(v) // 2 + 1]
        elif how == 'extend-with-itself':
            v.extend(list(v))
        return before is None or before != v
    if v is None or isinstance(v, (tuple, str, int)):
        return False
    done = False
    try:
        if how == 'shift-offsets':
            for a in ('start', 'end', 'body_start', 'body_end'):
                if isinstance(getattr(v, a, None), int):
                    setattr(v, a, getattr(v, a) + k)
                    done = True
        elif how == 'change-type':
            v.type = 'selector' if v.type == 'property' else 'property'
            done = True
        elif how == 'drop-body':
            v.body_start = v.body_end = None
            done = True
        elif how == 'collapse-to-start':
            v.end = v.body_start = v.body_end = v.start
            done = True
    except (AttributeError, TypeError):
        pass
    return done


def run_owned_script(text, items, steps, cover=None):
    """Runs a script; first failing step as (index, func, pos, why, what kind of step) or None."""
    slots = {}
    for n, st in enumerate(steps):
        if st['op'] == 'ask':
            src = ''.join(list(text)) if st.get('copy') else text
            raw = raw_call(st['func'], src, st['pos'])
            slots[st['slot']] = {'func': st['func'], 'pos': st['pos'], 'raw': raw, 'used': False, 'serial': _LAST_SERIAL[0]}
            why = oracle_one(text, items, st['pos'], st['func'], canon(st['func'], raw))
            if why:
                return (n, st['func'], st['pos'], why, 'asked again' if st.get('again') else 'asked')
        elif st['op'] == 'use':
            sl = slots[st['slot']]
            if sl['raw'][0] == 'ok' and use_answer(sl['raw'][1], st['how'], st['k'], sl['pos']):
                sl['used'] = True
                CALL_LOG.append(('use', sl['serial'], st['how'], st['k'], sl['pos']))
                if cover:
                    cover('owned:use:%s:%s' % (sl['func'], st['how']))
        elif st['op'] == 'reread':
            sl = slots[st['slot']]
            if not sl['used']:
                why = oracle_one(text, items, sl['pos'], sl['func'], canon(sl['func'], sl['raw']))
                if why:
                    return (n, sl['func'], sl['pos'], 'the answer the caller still holds now reads: ' + why, 'held')
    return None


def owned_script(rng, text, pos, f, cover):
    """one script around the question f(text, pos)"""
    steps = [{'op': 'ask', 'slot': 0, 'func': f, 'pos': pos, 'copy': False}]
    nslot = [1]

    def ask(func, p, again=False):
        st = {'op': 'ask', 'slot': nslot[0], 'func': func, 'pos': p, 'copy': rng.random() < 0.5}
        if again:
            st['again'] = True
            cover('owned:asked-again:%s' % ('equal-string-built-separately' if st['copy'] else 'same-string-object'))
        nslot[0] += 1
        steps.append(st)
        return st['slot']

    def others():
        n = rng.choice((0, 0, 0, 1, 2, 5))
        cover('owned:other-calls-in-between:%s' % (n if n < 2 else '2+'))
        for _ in range(n):
            ask(rng.choice(FUNCS), rng.randint(0, len(text)))

    def use(slot):
        steps.append({'op': 'use', 'slot': slot, 'how': rng.choice(OBJECT_USES if f == 'match' else LIST_USES),
                      'k': rng.choice((1, -1, 2, 7, 100))})

    if rng.random() < 0.65:
        # ask, use the answer up, ask the same again (twice over: the second answer is used up as well)
        cover('owned:script:use-then-ask-again')
        cur = 0
        for _ in range(2):
            use(cur)
            others()
            cur = ask(f, pos, again=True)
    else:
        # ask, keep the answer; ask other things and the same again, use THAT answer up; the first one must still stand
        cover('owned:script:hold-while-others-are-asked-and-used')
        others()
        second = ask(f, pos, again=True)
        steps.append({'op': 'reread', 'slot': 0})
        use(second)
        steps.append({'op': 'reread', 'slot': 0})
        ask(f, pos, again=True)
    return steps


def pack_calls(calls):
    texts = []
    out = []
    for c in calls:
        if c[0] == 'use':
            out.append(list(c))
            continue
        if c[1] not in texts:
            texts.append(c[1])
        out.append([c[0], texts.index(c[1]), c[2]] + ([c[3]] if len(c) > 3 else []))
    return {'texts': texts, 'calls': out}


def replay_owned(text, items, steps, calls_before):
    """In a fresh process: the recorded earlier calls (and what the caller did to their answers) and then the script,
    i.e. what the run did; when the property holds on that, the script once more alone."""
    if calls_before and calls_before.get('calls'):
        kept = {}
        for c in calls_before['calls']:
            if c[0] == 'use':
                raw = kept.get(c[1])
                if raw is not None and raw[0] == 'ok':
                    use_answer(raw[1], c[2], c[3], c[4])
            else:
                raw = raw_call(c[0], calls_before['texts'][c[1]], c[2])
                if len(c) > 3:
                    kept[c[3]] = raw
        bad = run_owned_script(text, items, steps)
        if bad:
            return bad, True
    return run_owned_script(text, items, steps), False


def caller_owned_answers(ctx, docs, per_sheet):
    rng = ctx.rng
    n = bad_n = 0
    for text, items in docs:
        ps = list(range(0, len(text) + 1))
        rng.shuffle(ps)
        for pos in ps[:per_sheet]:
            for f in FUNCS:
                steps = owned_script(rng, text, pos, f, ctx.cover)
                before = list(CALL_LOG)
                n += 1
                ctx.count_eval()
                ctx.cover('owned:scripts')
                bad = run_owned_script(text, items, steps, ctx.cover)
                if bad:
                    bad_n += 1
                    k, g, p, why, kind = bad
                    ctx.property_failure(
                        'c10:owned:%s:%s@%d' % (g, text, p),
                        'css %s on %s, %s after the caller used/kept earlier answers (step %d of the script): %s' % (
                            g, U.short(text), kind, k, why),
                        {'component': 'css', 'check': 'c10-owned', 'text': text, 'items': items, 'pos': p, 'func': g,
                         'why': why, 'steps': steps, 'failed_at_step': k, 'calls_before': pack_calls(before),
                         'note': 'steps: ask = call func(text, pos) (copy: with an equal string built separately) and keep '
                                 'the raw answer in the slot; use = the caller edits the answer of that slot in place; '
                                 'reread = read the kept answer of that slot again; calls_before = the calls made in the '
                                 'process before the script, [func, text index, pos, serial], and the in-place uses of '
                                 'their answers, [use, serial, how, k, pos] (the replay runs these and then the script '
                                 'and, when that passes, the script alone)'})
                    if bad_n >= 5:
                        break
            if bad_n >= 5:
                break
        if bad_n >= 5:
            break
    ctx.cov['caller_owned_answer_scripts'] = n


def run(ctx):
    ok = ctx.build(['props/C10.vo', 'props/C16Css.vo', 'run/CssRun.vo', 'run/SheetRun.vo'])
    if ok:
        ctx.obligations('props/C10.v')
        ctx.obligations('props/C16Css.v')
    model = ctx.model('css') if ok else None
    quick = ctx.tier == 'quick'
    procs = 8 if quick else common.NPROC
    ctx.cov['rule'] = (
        'corpus of past failures first, then random rule trees rendered to text with recorded offsets (nested rules, '
        'semicolon-terminated declarations, pseudo-selectors incl. leading : and ::, at-rules with parenthesised '
        'conditions, attribute selectors and values with braces/colons/semicolons inside strings, comments between '
        'items / inside selectors / inside values, $variables, --custom properties, several top-level rules); then '
        'stylesheets of the same shape (built with css_util.mk_sheet, buckets wide:*) whose selectors, property names, '
        'value words, quoted strings (also escaped), comments and parenthesised expressions carry characters beyond '
        'printable ASCII as the whole word, its first, its last, its first and last characters or between two letters: '
        'the code points for which str.isspace() holds but which are not CSS white space (U+000B, U+001C-1F, U+0085, '
        'U+1680, U+2000-200A, U+2028/2029, U+202F, U+205F, U+3000), invisible/format and control characters (NUL, U+0001, '
        'U+007F-9F, soft hyphen, ZWSP/ZWNJ/ZWJ, word joiner, BOM), compatibility twins of the delimiters (full-width '
        'and small { } : ; ( ) " \' / * \\ , Greek question mark, ratio, typographic quotes) and letters/digits/marks '
        '(accented, length-changing case mappings, combining mark, non-ASCII digits, CJK, beyond the BMP); by the CSS '
        'syntax all of these are ordinary name characters and the record counts them as part of the word they stand '
        'in (U+000C is not generated: the statement does not say which side it is on; U+00A0 is Emmet white space, see '
        'the white space styles below); then '
        'stylesheets with declarations whose value is EMPTY (buckets empty-value:*; the half-typed `name:;`, the '
        'empty custom property `--x:;`, the commented-out value `name: /* red */;`): the slot between colon and '
        'semicolon holds nothing, white space only (space, tab, LF, CRLF) or white space and comments only (also '
        'comments holding ; } { :), for plain names, custom properties and SCSS variables -- a sample of the '
        'systematic small sheets name x slot x shape (only / first / last / middle child, in a nested rule, before '
        'and after a nested rule, at top level before / after / between rules, inside an at-rule under a '
        'pseudo-selector, next to comments, strings and parentheses) and random trees in which a third, two '
        'thirds or all declarations are value-less; for such a declaration the oracle demands name start and end '
        '(semicolon + 1) exactly and an empty body inside the value slot (colon < v <= semicolon), '
        'balanced_outward exactly (empty ranges are never listed), balanced_inward with the direct-hit test up to '
        'either end of the slot; these sheets are compared with the extracted model like all others and lie '
        'outside the Level B grammar (reported there as declaration-with-empty-value); then stylesheets written '
        'in ONE WHITE SPACE STYLE each (buckets ws:*): random trees (nested rules, declarations with one to three '
        'value words / strings / url() / parenthesised expressions, comments, a share of value-less declarations) in '
        'which every white space slot -- start of file, before a declaration, before a selector, between the words '
        'of a selector, between selector and brace, before and after the colon, between value words, around commas '
        'and slashes, inside parentheses, inside strings (no raw line break there), inside and around comments, '
        'before the semicolon, the empty-value slot, before the closing brace, end of file -- is filled from the '
        'style: only blanks, only tabs, only LF, only CR, only CRLF, only NO-BREAK SPACE (runs of one to three), '
        'line break + indentation (LF+NBSP, CRLF+NBSP, LF+tab, CR+blank; NBSP / tab / blank around the colon), runs '
        'of one to four units of any kind, such runs with NBSP as first / last / both / only unit; each style with '
        'none, 30% and 60% of the optional slots left empty, and no white space at all; the white space set is '
        'hard-coded from upstream @emmetio/scanner utils.ts (isWhiteSpace: U+0020, U+0009, U+00A0; isSpace: plus '
        'U+000A, U+000D), so a NBSP never belongs to, starts or ends a selector, name or value and is trimmed from '
        'a rule\'s content range like a blank; buckets ws:<slot>:<units> and ws:unit-before-next-token:* / '
        'ws:unit-after-previous-token:* say which unit touched the neighbouring token; every '
        'position -1..len+1; match, balanced_outward, balanced_inward compared with the generator\'s record (oracle) '
        'and with the extracted model (correspondence). Call sequences: positions of two sheets in shuffled order '
        'with queries on half-typed sheets in between. Caller-owned answers (buckets owned:*, oracle only, the model '
        'has no objects): on the shortest and on random sheets of all these generators, for random positions and each of '
        'the three functions, scripts on the RAW return values: ask, let the caller use the answer up in place '
        '(lists: pop first/last, clear, reverse, shift offsets, append/insert a range of its own, drop until a larger '
        'range, sort, keep one, extend; the match object: shift offsets, change type, drop body, collapse), ask the '
        'same question again -- with the same string object or an equal string built separately, directly or after up to '
        'five other calls -- twice over; or keep the first answer, ask other things and the same again, use that second '
        'answer up, and read the first one again; every answer of every ask and every kept answer is judged against '
        'the record. An evaluation is one (sheet, position) or one such script; it is non-trivial '
        'when the position lies strictly inside a declaration or rule; distinct by (text, position).')
    corpus = load_corpus('C10')
    docs = [(c['text'], c['items']) for c in corpus if not c.get('finding_key')]
    n_corpus = len(docs)
    docs += gen_docs(ctx, 260 if quick else 5000, not quick)
    n_classic = len(docs)
    docs += gen_wide_docs(ctx, 70 if quick else 1400)
    n_wide = len(docs)
    docs += gen_empty_value_docs(ctx, 90 if quick else 10 ** 6, 40 if quick else 800)
    n_empty = len(docs)
    docs += gen_ws_docs(ctx, 90 if quick else 1800)
    texts = [t for t, _ in docs]
    impls = U.impl_docs(texts, FUNCS, procs)
    ctx.cover('docs', len(docs))
    ctx.cover('chars', sum(len(t) for t in texts))
    failures = []
    for i, ((text, items), im) in enumerate(zip(docs, impls)):
        for pos in range(-1, len(text) + 2):
            ctx.count_eval()
            m = im['match'][pos + 1]
            if m is not None:
                ctx.nontrivial((text, pos))
                if isinstance(m, tuple) and m and m[0] is True:
                    ctx.cover('pos:in-declaration')
                else:
                    ctx.cover('pos:in-rule')
            else:
                ctx.cover('pos:outside')
        bad = oracle_doc(text, items, im)
        for f, (pos, why) in bad.items():
            failures.append((len(text), i, f, pos, why))
        if n_corpus <= i < n_corpus + 3 or n_classic <= i < n_classic + 2 or n_wide <= i < n_wide + 2 or n_empty <= i < n_empty + 2:
            ctx.sample({'text': text, 'match@%d' % (len(text) // 2): repr(im['match'][len(text) // 2 + 1]),
                        'outward': repr(im['outward'][len(text) // 2 + 1])})
    failures.sort()
    seen = {}
    for ln, i, f, pos, why in failures:
        if seen.get(f, 0) >= 3:
            continue
        seen[f] = seen.get(f, 0) + 1
        text, items = docs[i]
        ctx.property_failure('c10:%s:%s@%d' % (f, text, pos), 'css %s on %s: %s' % (f, U.short(text), why),
                             {'component': 'css', 'check': 'c10', 'text': text, 'items': items, 'pos': pos,
                              'func': f, 'why': why})
    ctx.cov['oracle'] = {'sheets': len(docs), 'failing_sheets': len({i for _, i, _, _, _ in failures})}
    call_sequences(ctx, docs[n_corpus:n_corpus + (12 if quick else 120)])
    # the answers belong to the caller: sheets of all generators, the shortest ones (small replays) and random ones
    pool = sorted(docs[n_corpus:], key=lambda d: len(d[0]))
    k_short, k_rand = (8, 16) if quick else (40, 160)
    owned_docs = pool[:k_short] + ctx.rng.sample(pool[k_short:], min(k_rand, len(pool) - k_short))
    caller_owned_answers(ctx, owned_docs, 24 if quick else 60)
    # known finding witnesses: the statement's last sentence for parenthesised expressions
    for c in corpus:
        key = c.get('finding_key')
        if not key:
            continue
        im = U.impl_doc(c['text'], FUNCS)
        bad = oracle_doc(c['text'], c['items'], im)
        if bad:
            f, (pos, why) = sorted(bad.items())[0]
            ctx.property_failure(key, 'css %s on %s: %s' % (f, U.short(c['text']), why),
                                 {'component': 'css', 'check': 'c10', 'text': c['text'], 'items': c['items'],
                                  'pos': pos, 'func': f, 'why': why})
        else:
            ctx.cov.setdefault('stale_findings', []).append(key + ' (' + c['file'] + ')')
    # correspondence
    if model is not None:
        models = U.model_docs(model, texts)
        dis = 0
        for (text, items), im, mo in zip(docs, impls, models):
            d = U.compare(im, mo, FUNCS)
            if d:
                dis += 1
                if dis <= 5:
                    f, idx = d[0]
                    a = im['events'] if f == 'events' else im[f][idx]
                    b = mo['events'] if f == 'events' else mo[f][idx]
                    ctx.say('DISAGREE css %s on %s pos %s\n  impl  %r\n  model %r' % (
                        f, U.short(text), None if idx is None else idx - 1, a, b))
                    if not oracle_doc(text, items, im):
                        ctx.broken.append({'kind': 'correspondence', 'file': 'css-matcher:' + f, 'input': text,
                                           'pos': None if idx is None else idx - 1,
                                           'impl': repr(a)[:300], 'model': repr(b)[:300]})
        ctx.cov['correspondence']['css_matcher'] = {'sheets': len(docs), 'positions': sum(len(t) + 3 for t in texts),
                                                    'disagreements': dis}
    if ok:
        level_b(ctx, docs, impls, [(c['text'], c['items']) for c in corpus if c.get('finding_key')])


def replay(ctx, obj):
    rp = obj.get('replay', {})
    text = rp.get('text')
    if text is None or rp.get('items') is None:
        print('replay names a broken obligation, no input: %s' % json.dumps(rp)[:500])
        return 1
    if rp.get('check') == 'c10-sequence':
        for t, q in rp.get('history', []):
            got = {f: U.IMPL[f](t, q) for f in ('match', 'outward', 'inward')}
        bad = c10_oracle(text, rp['items'], rp['pos'], got)
        print('after the recorded call history, position %d of %r: %s' % (rp['pos'], text, bad[0][1] if bad else 'property holds'))
        return 1 if bad else 0
    if rp.get('check') == 'c10-owned':
        bad, with_history = replay_owned(text, rp['items'], rp['steps'], rp.get('calls_before'))
        print('sheet %r, script of %d steps%s: %s' % (text, len(rp['steps']),
                                                    ' after the recorded earlier calls' if with_history else '',
                                                    'step %d (%s): %s' % (bad[0], bad[4], bad[3]) if bad else 'property holds at every step'))
        return 1 if bad else 0
    im = U.impl_doc(text, FUNCS)
    bad = oracle_doc(text, rp['items'], im)
    if bad:
        for f, (pos, why) in sorted(bad.items()):
            print('input %r: %s' % (text, why))
        return 1
    print('input %r: property holds at every position' % (text,))
    return 0
