"""C12 -- Formatting options are cosmetic and indentation equals nesting depth."""
import copy
import glob
import json
import os
import re

import abbr_gen as g
import format_util as fu
import c12_opts as co
import c12_classes as cc
import c12_values as cv
from markup_util import run_cases, canon_cfg, enc_config, decode_res, NotModelled, mentions_lorem
from common import enc_str

HERE = os.path.dirname(os.path.abspath(__file__))
CORPUS = os.path.join(os.path.dirname(os.path.dirname(HERE)), 'corpus', 'C12')

# ---------------------------------------------------------------- the property, stated on outputs


def oracle_cosmetic(out1, out2):
    return fu.cosmetic_diff(out1, out2)


def oracle_depth(out, cfg):
    return fu.depth_check(out, co.in_force(cfg))


def depth_premise(abbr, out, cfg):
    """"With formatting on and no element exempted through output.formatSkip": the second sentence of the statement
    speaks about this expansion.  The list in force is the explicit one, else the documented default ['html']; an element
    is exempted when its name IS an entry (exact spelling: names are case-sensitive)."""
    o = co.in_force(cfg)
    return bool(o['output.format']) and not cc.exempted_by_format_skip(abbr, out, o)


def after_tag_blanks_dropped(s):
    return re.sub(r'>[ \t]+', '>', s)


def oracle_comments(out_on, out_off, cfg_on, abbr=None):
    """Enabling comments only adds comment text: erasing it gives the comment-off output."""
    a = fu.strip_comments_tokens(out_on)
    b = fu.content(out_off)
    if a != b:
        for i, (x, y) in enumerate(zip(a, b)):
            if x != y:
                return 'without its comments item %d is %r, comment-off output has %r' % (i, x, y)
        return 'without its comments the output has %d items, the comment-off output %d' % (len(a), len(b))
    o = co.in_force(cfg_on)
    if '<!--' not in out_off and '<!--' not in o['output.newline'] + o['output.indent'] + o['output.baseIndent']:
        # where the added text sits (C12_comments_additive): every comment stands directly after a closing tag
        # (comment.after) or directly before an opening tag (comment.before)
        toks = [t for t, _ in fu.scan(out_on)]
        rev = {}
        for k, v in (o.get('markup.attributes') or {}).items():
            rev[str(v).lower()] = k.rstrip('*').lower()
        trig = set(x.lower() for x in (o.get('comment.trigger') or []))

        def has_trigger(open_tok):
            names = set()
            for nm, _ in open_tok[2]:
                n = nm.lower()
                names.add(n)
                names.add(rev.get(n, n))
            return bool(names & trig)
        closed = {}
        stack = []
        strict = True       # every opening tag without '/' has its closing tag (no html-style self-closed tags)
        for i, t in enumerate(toks):
            if t[0] == 'open' and not t[3]:
                stack.append(t)
            elif t[0] == 'close':
                if stack and stack[-1][1] == t[1]:
                    closed[i] = stack.pop()
                else:
                    strict = False
        if stack:
            strict = False
        for i, t in enumerate(toks):
            if t[0] != 'comment':
                continue
            after_ok = bool(o['comment.after']) and i > 0 and toks[i - 1][0] == 'close' and (not strict or ((i - 1) in closed and has_trigger(closed[i - 1])))
            before_ok = bool(o['comment.before']) and i + 1 < len(toks) and toks[i + 1][0] == 'open' and has_trigger(toks[i + 1])
            if not (after_ok or before_ok):
                return 'comment %r (item %d) stands neither directly after the closing tag nor directly before the opening tag of an element with a trigger attribute: %r' % (
                    t[1], i, toks[max(0, i - 1):i + 2])
    if o['comment.before'] == '' and o['comment.after'] == '\n<!-- /[#ID][.CLASS] -->' and '<!--' not in out_off:
        nl, base, ind = o['output.newline'], o['output.baseIndent'], o['output.indent']
        pat = re.escape(nl + base) + '(?:' + re.escape(ind) + ')*' + r'<!-- /[^\r\n]*? -->' if ind else \
            re.escape(nl + base) + r'<!-- /[^\r\n]*? -->'
        erased = re.sub(pat, '', out_on)
        if erased != out_off and abbr is not None and '${' in abbr and \
                after_tag_blanks_dropped(erased) == after_tag_blanks_dropped(out_off):
            # A value with an explicit field on a node with children: the rest of the value follows the children, and
            # its leading blanks are dropped when the children ended on another line -- which a comment with a line
            # break brings about (`</p> b` vs `</p>\n<!-- /.c -->b`).  Blanks between a tag and the text after it are
            # the whitespace the statement calls cosmetic; coq/props/C12.v states C12_comments_additive on text items
            # with leading blanks removed for this very reason.  Only this difference is let through.
            erased = out_off
        if erased != out_off:
            return 'erasing the comment lines gives %r, comment-off output is %r' % (erased[:200], out_off[:200])
    return None


def oracle_selfclose(out_a, out_b):
    a, b = fu.selfclose_neutral(out_a), fu.selfclose_neutral(out_b)
    if a != b:
        k = next((i for i, (x, y) in enumerate(zip(a, b)) if x != y), min(len(a), len(b)))
        return 'outputs differ beyond the self-closing mark at %d: %r vs %r' % (k, a[max(0, k - 20):k + 20], b[max(0, k - 20):k + 20])
    return None


def classify_selfclose(abbr, cfg_a, cfg_b, out_a, out_b):
    """Known class: a boolean attribute written without value under compactBoolean gets `=""`
    as soon as the self-closing style is not `html` (push_attribute tests the style)."""
    oa, ob = co.in_force(cfg_a), co.in_force(cfg_b)
    if oa.get('output.compactBoolean') and (oa['output.selfClosingStyle'] == 'html') != (ob['output.selfClosingStyle'] == 'html'):
        # erase the `=""` / `=''` of valueless attributes and compare again
        def norm(s):
            return re.sub(r'=(""|\'\'|\{\})', '', fu.selfclose_neutral(s))
        if norm(out_a) == norm(out_b):
            return 'C12:selfclose-compact-boolean'
    return None


# ---------------------------------------------------------------- cases
KINDS = ('cosmetic', 'depth', 'comments', 'selfclose')


def depth_safe(abbr):
    return '<' not in abbr


# Part of the depth-level abbreviations is built around the names the documented option DEFAULTS mention (html in
# formatSkip, body in formatForce) and around the document snippets: only an explicit option value tells them apart
# from any other name.
P_DEFAULT_LISTED = 0.35


def rand_depth_abbr(rng):
    """Depth-level statement (what the indentation oracle can read) over the plain names plus, in about a third of
    the cases, html / body / head at random places and/or a document snippet or `html>`, `html>body>` ... prefix."""
    if rng.random() >= P_DEFAULT_LISTED:
        return g.render(fu.rand_abbr(rng, 'depth')), False
    names = g.safe_names()
    names = names + co.DEFAULT_LISTED_NAMES * max(1, len(names) // 9)      # ~ a quarter of all picks
    n = rng.randint(1, 8)
    st = g.rand_stmt(rng, names, n, max_depth=3, rep_max=3, decorate=fu.decorator(rng, 'depth'))
    abbr = g.render(st)
    k = rng.random()
    if k < 0.25:
        abbr = rng.choice(co.DOCUMENT_SNIPPETS) + '>' + abbr
    elif k < 0.5:
        abbr = rng.choice(['html>', 'html>body>', 'html>head+body>', 'html[lang=en]>', 'body>', 'html#i.c>']) + abbr
    return abbr, True


def make_group(rng, kind_bias=None, variant=None):
    """One abbreviation with the configurations it is run under.
    Returns dict(abbr, cfgs={name: cfg}, checks=[(kind, name_a, name_b)]).
    variant 'fields': values with fields (c12_classes, class 1) -- content checks only, the indentation of a value
    that is split around children is the subject of listed findings;
    variant 'case': element names in every case shape, list options with near-miss entries (c12_classes, class 2);
    variant 'lines': multi-line values with LF / CRLF / bare CR line ends in element texts, text nodes, attribute
    values and in the text handed over for wrapping (config `text`: string / list) (c12_classes, class 3);
    variant 'attrs': class / id shorthands in every multiplicity under the syntax presets and user-given
    markup.attributes / markup.valuePrefix maps (c12_classes, class 4);
    variant 'empty': empty values written explicitly (`{}`, `p{}`, `[title=""]`) in every position and abbreviations
    cut short as an as-you-type expansion sees them (c12_classes, class 6); one of the two cosmetic runs has
    formatting off, the other on, in most draws;
    variant 'values': option values at the edges of their documented type and range (c12_values, class 7) on
    abbreviations in which self-closing elements are frequent: the self-closing pair compares values outside the three
    documented words (None, '', other spelling / case, unknown word, other type) with a documented word or with each
    other; the switches of the cosmetic, depth and comment runs are spelled 1 / 0 / None / '', output.inlineBreak
    takes 0 / None / False / True / 1000 / -1."""
    level = 'depth' if rng.random() < (0.5 if variant in ('case', 'lines', 'empty') else 0.35) else 'c12'
    listed = False
    cased_names = None
    if variant == 'fields':
        level = 'c12'
        abbr = cc.rand_field_abbr(rng)
    elif variant == 'lines':
        abbr = g.render(cc.rand_lines_stmt(rng, level))
    elif variant == 'attrs':
        abbr = g.render(cc.rand_shorthand_stmt(rng, level))
    elif variant == 'empty':
        abbr = cc.rand_unfinished_stmt_abbr(rng, level)
    elif variant == 'values':
        abbr = cv.rand_selfclosing_abbr(rng, level)
    elif variant == 'case':
        st = cc.rand_cased_stmt(rng, level)
        abbr = g.render(st)
        cased_names = cc.stmt_names(st)
        listed = True           # the depth configuration marks self-closed tags
    elif level == 'depth':
        abbr, listed = rand_depth_abbr(rng)
    else:
        st = fu.rand_abbr(rng, level)
        abbr = g.render(st)
    names = sorted(set(re.findall(r'[a-z][a-z0-9:\-]*', abbr)))[:8]
    if cased_names is not None:
        # the cosmetic list options draw from the exact names AND from their near misses (other case shapes)
        names = sorted(cased_names)[:6] + cc.near_miss_list(rng, cased_names)
    base = fu.rand_base(rng)
    if variant == 'lines' and rng.random() < 0.4:
        base['text'] = cc.rand_wrap_text(rng)       # an input, not an option: the same in every run of the group
    if variant == 'attrs':
        base['options'].update(cc.rand_attr_maps(rng, base['syntax']))      # not cosmetic: the same in every run
    k1 = fu.rand_cosmetic(rng, names)
    k2 = fu.rand_cosmetic(rng, names)
    if variant == 'empty' and rng.random() < 0.7:
        # the pair the statement names first: format on / off
        k1['output.format'], k2['output.format'] = rng.choice([(True, False), (False, True)])
    if variant == 'values':
        k1, k2 = cv.edge_values(rng, k1), cv.edge_values(rng, k2)
        if rng.random() < 0.3:
            base['options']['output.selfClosingStyle'] = cv.rand_style(rng)     # not cosmetic: the same in every run
    cfgs = {'a': fu.with_options(base, k1), 'b': fu.with_options(base, k2)}
    checks = [('cosmetic', 'a', 'b')]
    if level == 'depth':
        d = fu.with_options(base, k1)
        # "no element exempted through output.formatSkip": the list is given explicitly, empty or naming only
        # elements the output does not contain
        skip = [] if rng.random() < 0.75 else rng.sample(co.ABSENT_NAMES, rng.randint(1, 2))
        d['options'].update({'output.format': rng.choice(cv.TRUTHY) if variant == 'values' else True, 'output.formatSkip': skip,
                             'output.indent': rng.choice(['\t', '  ', '    ']),
                             'output.newline': rng.choice(['\n', '\r\n'])})
        if cased_names is not None:
            # formatSkip left unset (documented default ['html']) or naming near misses of the names present: no
            # entry IS an element name, so nothing is exempted (depth_premise() re-checks that on the output)
            k = rng.random()
            if k < 0.4:
                del d['options']['output.formatSkip']
            elif k < 0.85:
                d['options']['output.formatSkip'] = cc.near_miss_list(rng, cased_names)
        if rng.random() < 0.2:
            d['options']['output.formatForce'] = rng.choice([[], ['html'], ['p', 'body']])
        if ('/' in abbr or listed) and co.in_force(d)['output.selfClosingStyle'] not in ('xhtml', 'xml'):
            # the indentation oracle reads self-closed tags by their mark
            d['options']['output.selfClosingStyle'] = rng.choice(['xhtml', 'xml'])
        if d['options'].get('comment.enabled'):
            d['options'].pop('comment.before', None)
            d['options'].pop('comment.after', None)
        cfgs['d'] = d
        checks.append(('depth', 'd', None))
    src = rng.choice(sorted(cfgs))
    con = {'comment.enabled': True}
    if rng.random() < 0.3:
        # the trigger list / templates given explicitly, the empty list and the empty templates included
        con['comment.trigger'] = rng.choice([[], [], ['id'], ['class'], ['title'], ['id', 'class', 'title'], ['data-v']])
        if rng.random() < 0.3:
            con['comment.before'], con['comment.after'] = rng.choice(fu.COMMENT_TEMPLATES + [('', '')])
    if variant == 'values':
        con['comment.enabled'] = rng.choice(cv.TRUTHY)
        if rng.random() < 0.3:
            con[rng.choice(['comment.trigger', 'comment.before', 'comment.after'])] = None       # "not set"
    on = fu.with_options(cfgs[src], con)
    off = fu.with_options(on, {'comment.enabled': rng.choice(cv.FALSY) if variant == 'values' else False})
    strings_ok = all(isinstance(co.in_force(on)[k], str) for k in ('output.newline', 'output.indent', 'output.baseIndent'))
    if '<!--' not in abbr and strings_ok:      # a text that itself writes comment marks: the comment oracle cannot tell them apart
        cfgs['con'], cfgs['coff'] = on, off
        checks.append(('comments', 'con', 'coff'))
    styles = cv.rand_style_pair(rng) if variant == 'values' else rng.sample(['html', 'xhtml', 'xml'], 2)
    cfgs['s1'] = fu.with_options(cfgs[src], {'output.selfClosingStyle': styles[0]})
    cfgs['s2'] = fu.with_options(cfgs[src], {'output.selfClosingStyle': styles[1]})
    checks.append(('selfclose', 's1', 's2'))
    return {'abbr': abbr, 'cfgs': cfgs, 'checks': checks, 'listed': listed and variant != 'case', 'variant': variant}


FIXED = [
    # (abbr, cfg_a, cfg_b) pairs worth keeping: defaults vs no format, leaf formatting, skips
    ('div>p>span+em^ul>li*2', {}, {'options': {'output.format': False}}),
    ('html>body>div>p', {'options': {'output.formatSkip': []}}, {'options': {'output.formatForce': ['p'], 'output.indent': '  '}}),
    ('p>a+b+i+u', {'options': {'output.inlineBreak': 2}}, {'options': {'output.inlineBreak': 0}}),
    ('div>{a\nb}+p{x}', {'options': {'output.newline': '\r\n', 'output.baseIndent': '  '}}, {}),
    ('p{${1:x} tail}>a', {'options': {'output.format': False}}, {}),
    ('p{hi ${1} there}>div', {'options': {'output.format': False}}, {}),
    ('xsl:variable[select]>a', {'syntax': 'xsl', 'options': {'comment.enabled': True}}, {'syntax': 'xsl'}),
    ('vare>x', {'syntax': 'xsl', 'options': {'comment.enabled': True}}, {'syntax': 'xsl', 'options': {'output.format': False}}),
    ('div.c>{<div>x</div>}', {}, {'options': {'output.format': False}}),
    ('ul>li.item$*3>a{t$}', {'syntax': 'jsx'}, {'syntax': 'jsx', 'options': {'output.formatLeafNode': True}}),
]


DEPTH_CFG = {'options': {'output.formatSkip': [], 'output.selfClosingStyle': 'xhtml'}}
# depth checks on fixed abbreviations: (abbr, config, finding class or None)
FIXED_DEPTH = [
    ('div>p{a\x0bb}', DEPTH_CFG, None),        # \v, \f: ordinary characters since push_string splits at CR/LF only
    ('ul>li{x\x0cy}+li', DEPTH_CFG, None),
    ('div>a[title="x\ny"]', DEPTH_CFG, None),
    # an inline element nested in a block whose FIRST child needs no line break but a later one does
    ('div>span>b+{x}+{y}', {'options': {'output.formatSkip': [], 'output.selfClosingStyle': 'xhtml', 'output.inlineBreak': 0}}, None),
    ('div>span>b+{x}+{y}', {'options': {'output.formatSkip': [], 'output.selfClosingStyle': 'xhtml', 'output.inlineBreak': 4}}, None),
    ('section>em>i+b+{t1}+{t2}+u', {'options': {'output.formatSkip': [], 'output.selfClosingStyle': 'xhtml', 'output.inlineBreak': 0}}, None),
    ('div>span>b+{a\nb}', DEPTH_CFG, None),
    ('ul>li>a>i+{x\ny}+b', DEPTH_CFG, None),
    ('div>p{a\nb ${1} c}>x', DEPTH_CFG, 'C12:depth-multiline-field-text-with-children'),
    ('section>p{${1}l1\nl2}>em', DEPTH_CFG, 'C12:depth-multiline-field-text-with-children'),
    # the rest of a text with a field, written after line-broken children (push_snippet path, single-line text)
    ('p{hi ${1} there}>div', DEPTH_CFG, 'C12:depth-field-text-after-block-children'),
    ('div>p{hi ${1} there}>div', DEPTH_CFG, 'C12:depth-field-text-after-block-children'),
    ('div>p{hi ${1} there}>span', DEPTH_CFG, None),          # inline child: no line change, nothing deviates
    ('div>p{hi ${1}}>div', DEPTH_CFG, None),                 # the text ends with the field: in the theorem's domain
    # an inline element that is not line-broken although its last child is (classified in evaluate())
    ('span>div+em+i^span>div', {'options': {'output.formatSkip': [], 'output.selfClosingStyle': 'xhtml', 'output.inlineBreak': 0}}, None),
    ('{x}+span>div+em+i^{y}+span>div', {'options': {'output.formatSkip': [], 'output.selfClosingStyle': 'xhtml', 'output.inlineBreak': 0}}, None),
    # text nodes with children (theorem domain: offset 0 for children of a text node)
    ('div>{a}>p+p', DEPTH_CFG, None),
    ('{a}>span+p', DEPTH_CFG, None),
    ('div>{x ${1} y}>p+em', DEPTH_CFG, None),
]


def field_text_with_children(abbr):
    """Finding class: an element whose text has an explicit field and a line break and which has
    children goes through push_snippet(), which has no inner formatting."""
    i = 0
    n = len(abbr)
    while i < n:
        if abbr[i] == '{' and (i == 0 or abbr[i - 1] != '$'):
            depth = 0
            j = i
            while j < n:
                if abbr[j] == '{':
                    depth += 1
                elif abbr[j] == '}':
                    depth -= 1
                    if depth == 0:
                        break
                j += 1
            text = abbr[i + 1:j]
            k = j + 1
            m = re.match(r'(\*\d*)?', abbr[k:])
            k += m.end()
            if '${' in text and ('\n' in text or '\r' in text) and abbr[k:k + 1] == '>':
                return True
            i = j + 1
        else:
            i += 1
    return False


def field_text_then_children(abbr):
    """Finding class: an element whose (single-line) text has an explicit field followed by more text and which has
    children: push_snippet() writes the rest of the text after the children, at the level of the element."""
    for m in re.finditer(r'\{([^{}]*\$\{[^{}]*\}[^{}]+)\}(\*\d*)?>', abbr):
        if '\n' not in m.group(1) and '\r' not in m.group(1):
            return True
    return False


# a quoted attribute value with a line break in it (listed finding: re-indented inside the quotes)
ATTR_LINE_BREAK_RE = re.compile(r'="[^"]*[\r\n][^"]*"|=\'[^\']*[\r\n][^\']*\'')

CLASS_GUARD = {
    'C12:depth-multiline-field-text-with-children': field_text_with_children,
    'C12:depth-field-text-after-block-children': field_text_then_children,
}

ALIGN_RE = re.compile(r'^closing tag </[^>]*> at offset (\d+) stands first on its line .* opening tag \(offset (\d+)\)')


def classify_alignment(out, cfg, bad):
    """Known class: the element has child elements, its closing tag stands first on its line, its opening tag does NOT
    stand first on its line (the element was not line-broken although its last child was)."""
    m = ALIGN_RE.match(bad)
    if not m:
        return None
    ooff = int(m.group(2))
    nl = co.in_force(cfg)['output.newline']
    ls = out.rfind(nl, 0, ooff)
    ls = 0 if ls < 0 else ls + len(nl)
    if out[ls:ooff].strip(' \t') != '':
        return 'C12:close-aligned-unformatted-inline-parent'
    return None


def cover_option_classes(ctx, kind, gr, cfg_a):
    """Evidence for the explicit-value classes: which checks ran with an explicitly empty list / template and on
    abbreviations with a name of the documented defaults."""
    o = cfg_a.get('options') or {}
    if kind == 'depth':
        skip = o.get('output.formatSkip')
        ctx.cover('C12:depth-formatSkip-%s' % ('explicit-empty' if skip == [] else 'absent-names-only' if skip else 'unset'))
        if gr.get('listed'):
            ctx.cover('C12:depth-default-listed-name-or-document-snippet')
        if o.get('output.formatForce') == []:
            ctx.cover('C12:depth-formatForce-explicit-empty')
    elif kind == 'comments':
        if o.get('comment.trigger') == []:
            ctx.cover('C12:comments-trigger-explicit-empty')
        elif 'comment.trigger' in o:
            ctx.cover('C12:comments-trigger-explicit')
        if o.get('comment.before') == '' and o.get('comment.after') == '':
            ctx.cover('C12:comments-templates-explicit-empty')
    elif kind == 'cosmetic':
        if o.get('output.formatSkip') == [] or o.get('output.formatForce') == []:
            ctx.cover('C12:cosmetic-list-option-explicit-empty')


def add_field_value_groups(ctx, rng, groups):
    """Class 1 of c12_classes: values with fields.  A deterministic sweep over every value shape (string / empty field /
    field with placeholder in every order, up to 3 pieces in the quick tier, 4 in the thorough one) x host x children
    shape x option pair, then random statements with such values."""
    quick = ctx.tier == 'quick'
    n_sw = 0
    for k, (abbr, oa, ob) in enumerate(cc.field_value_sweep(3 if quick else 4, stride=4 if quick else 1)):
        syn = fu.HTML_SYNTAXES[k % len(fu.HTML_SYNTAXES)]
        groups.append({'abbr': abbr, 'cfgs': {'a': {'syntax': syn, 'options': oa}, 'b': {'syntax': syn, 'options': ob}},
                       'checks': [('cosmetic', 'a', 'b')], 'variant': 'fields'})
        n_sw += 1
    n = 110 if quick else 1200
    for _ in range(n):
        groups.append(make_group(rng, variant='fields'))
    ctx.cov['field_value_groups'] = {'sweep': n_sw, 'random': n}


def add_name_case_groups(ctx, rng, groups):
    """Class 2 of c12_classes: letter case of element names against the list options."""
    quick = ctx.tier == 'quick'
    n_sw = 0
    for k, (abbr, _names, skip) in enumerate(cc.case_sweep()):
        syn = fu.HTML_SYNTAXES[k % len(fu.HTML_SYNTAXES)]
        a = {'syntax': syn, 'options': {'output.selfClosingStyle': 'xhtml', 'output.format': bool(k % 2)}}
        d = {'syntax': syn, 'options': {'output.selfClosingStyle': 'xhtml', 'output.format': True,
                                        'output.indent': ['\t', '  '][k % 2]}}
        if skip is not None:
            d['options']['output.formatSkip'] = list(skip)
        if k % 5 == 0:
            d['options']['output.baseIndent'] = '  '
        groups.append({'abbr': abbr, 'cfgs': {'a': a, 'd': d}, 'checks': [('cosmetic', 'a', 'd'), ('depth', 'd', None)],
                       'variant': 'case'})
        n_sw += 1
    n = 100 if quick else 1200
    for _ in range(n):
        groups.append(make_group(rng, variant='case'))
    ctx.cov['name_case_groups'] = {'sweep': n_sw, 'random': n}


def add_line_separator_groups(ctx, rng, groups):
    """Class 3 of c12_classes: line ends LF / CRLF / bare CR (alone, mixed, doubled, leading, trailing) in element
    texts, text nodes, attribute values and in the wrap text of the config (string / list).  A deterministic sweep of
    every spelling x host with a cosmetic pair and the depth check, then random statements."""
    quick = ctx.tier == 'quick'
    n_sw = 0
    for k, (abbr, wrap, opts, _nm) in enumerate(cc.line_separator_sweep()):
        syn = fu.HTML_SYNTAXES[k % len(fu.HTML_SYNTAXES)]
        d = {'syntax': syn, 'options': dict(opts, **{'output.format': True, 'output.formatSkip': [],
                                                     'output.selfClosingStyle': 'xhtml'})}
        a = {'syntax': syn, 'options': {'output.format': False, 'output.selfClosingStyle': 'xhtml'}}
        if wrap is not None:
            d['text'] = a['text'] = wrap
        checks = [('cosmetic', 'a', 'd'), ('depth', 'd', None)]
        if '="' in abbr and not cc.LINE_BREAKS_IN_ATTRIBUTE_VALUES_COSMETIC:
            checks = checks[1:]         # a multi-line attribute value: indentation only (see the switch in c12_classes)
        groups.append({'abbr': abbr, 'cfgs': {'a': a, 'd': d}, 'checks': checks, 'variant': 'lines'})
        n_sw += 1
    n = 90 if quick else 1200
    for _ in range(n):
        groups.append(make_group(rng, variant='lines'))
    ctx.cov['line_separator_groups'] = {'sweep': n_sw, 'random': n}


def add_shorthand_groups(ctx, rng, groups):
    """Class 4 of c12_classes: class / id shorthands in every multiplicity x syntax presets and user attribute maps,
    as one-shot expansions (compared with the model like every other group)."""
    quick = ctx.tier == 'quick'
    n_sw = 0
    for k, abbr in enumerate(cc.shorthand_sweep()):
        syn = ['jsx', 'vue', 'html', 'jsx', 'xml', 'svelte'][k % 6]
        base = {'syntax': syn, 'options': {'output.selfClosingStyle': 'xhtml'}}
        if k % 4 == 1 or syn in ('html', 'xml', 'svelte'):
            base['options']['markup.valuePrefix'] = dict(cc.USER_PREFIX_MAPS[k % len(cc.USER_PREFIX_MAPS)])
        if k % 4 == 3:
            base['options']['markup.attributes'] = dict(cc.USER_ATTR_MAPS[k % len(cc.USER_ATTR_MAPS)])
        a = fu.with_options(base, {'output.format': False})
        d = fu.with_options(base, {'output.format': True, 'output.formatSkip': [], 'output.indent': ['\t', '  '][k % 2]})
        groups.append({'abbr': abbr, 'cfgs': {'a': a, 'd': d}, 'checks': [('cosmetic', 'a', 'd'), ('depth', 'd', None)],
                       'variant': 'attrs'})
        n_sw += 1
    n = 50 if quick else 800
    for _ in range(n):
        groups.append(make_group(rng, variant='attrs'))
    ctx.cov['shorthand_attribute_groups'] = {'sweep': n_sw, 'random': n}


def add_empty_value_groups(ctx, rng, groups):
    """Class 6 of c12_classes: empty values written explicitly and abbreviations cut short.  Deterministic sweeps
    (every empty unit x every host; every prefix of the typed abbreviations), each with the pair format off / format on
    (cosmetic) and the depth check on the formatted run, then random statements."""
    quick = ctx.tier == 'quick'
    n_sw = n_pre = 0
    sweep = [(a, o, 'value') for a, o in cc.empty_value_sweep()]
    typed = [(a, o, 'typed') for a, o in cc.typed_prefix_sweep(stride=2 if quick else 1)]
    for k, (abbr, opts, what) in enumerate(sweep + typed):
        syn = fu.HTML_SYNTAXES[k % len(fu.HTML_SYNTAXES)]
        a = {'syntax': syn, 'options': {'output.format': False, 'output.selfClosingStyle': 'xhtml'}}
        d = {'syntax': syn, 'options': dict(opts, **{'output.format': True, 'output.formatSkip': [],
                                                     'output.selfClosingStyle': 'xhtml'})}
        groups.append({'abbr': abbr, 'cfgs': {'a': a, 'd': d}, 'checks': [('cosmetic', 'a', 'd'), ('depth', 'd', None)],
                       'variant': 'empty'})
        if what == 'value':
            n_sw += 1
        else:
            n_pre += 1
    n = 120 if quick else 1500
    for _ in range(n):
        groups.append(make_group(rng, variant='empty'))
    ctx.cov['empty_value_groups'] = {'sweep': n_sw, 'typed_prefixes': n_pre, 'random': n}


def add_option_value_groups(ctx, rng, groups):
    """Class 7 of the input classes (harness/c12_values.py): option values at the edges of their documented type and
    range.  Deterministic sweeps -- every value of output.selfClosingStyle outside the documented words x every
    abbreviation with self-closing elements x rotating syntaxes, against a documented word or another outside value
    (self-closing oracle); every respelling of the switches and every inline-break edge against the documented
    spelling (cosmetic oracle, plus the depth oracle when formatting is on); comment.enabled in every spelling of on x
    every spelling of off (comment oracle) -- then random statements."""
    quick = ctx.tier == 'quick'
    n_sc = n_sw = n_co = 0
    for abbr, syn, v, w in cv.selfclose_sweep(2 if quick else len(fu.HTML_SYNTAXES)):
        s1 = {'syntax': syn, 'options': {'output.selfClosingStyle': v}}
        s2 = {'syntax': syn, 'options': {'output.selfClosingStyle': w}}
        if n_sc % 3 == 0:
            for c in (s1, s2):
                c['options'].update({'output.format': False} if n_sc % 2 else {'comment.enabled': True})
        groups.append({'abbr': abbr, 'cfgs': {'s1': s1, 's2': s2}, 'checks': [('selfclose', 's1', 's2')], 'variant': 'values'})
        n_sc += 1
    for k, (abbr, oa, ob, opt, v) in enumerate(cv.switch_sweep()):
        syn = fu.HTML_SYNTAXES[k % len(fu.HTML_SYNTAXES)]
        base = {'syntax': syn, 'options': {'output.formatSkip': [], 'output.selfClosingStyle': 'xhtml'}}
        a, b = fu.with_options(base, oa), fu.with_options(base, ob)
        checks = [('cosmetic', 'a', 'b')]
        if co.in_force(a)['output.format']:
            checks.append(('depth', 'a', None))
        groups.append({'abbr': abbr, 'cfgs': {'a': a, 'b': b}, 'checks': checks, 'variant': 'values'})
        n_sw += 1
    for k, (abbr, on, off) in enumerate(cv.comment_switch_sweep()):
        syn = fu.HTML_SYNTAXES[k % len(fu.HTML_SYNTAXES)]
        groups.append({'abbr': abbr, 'cfgs': {'con': {'syntax': syn, 'options': on}, 'coff': {'syntax': syn, 'options': off}},
                       'checks': [('comments', 'con', 'coff')], 'variant': 'values'})
        n_co += 1
    n = 150 if quick else 2000
    for _ in range(n):
        groups.append(make_group(rng, variant='values'))
    ctx.cov['option_value_groups'] = {'self_closing_style_sweep': n_sc, 'switch_and_number_sweep': n_sw,
                                      'comment_switch_sweep': n_co, 'random': n}


def cover_value_classes(ctx, kind, gr, cfg_a, cfg_b, ra):
    """Evidence for class 7: which values outside the documented ones the checks ran with."""
    if gr.get('variant') != 'values':
        return
    oa = cfg_a.get('options') or {}
    ob = (cfg_b or {}).get('options') or {}
    if kind == 'selfclose':
        ca, cb = cv.style_class(oa.get('output.selfClosingStyle')), cv.style_class(ob.get('output.selfClosingStyle'))
        what = 'documented-vs-documented' if ca == cb == 'documented' else \
            'outside-vs-documented' if 'documented' in (ca, cb) else 'outside-vs-outside'
        ctx.cover('C12:option-values-selfclose-' + what)
        for c in (ca, cb):
            if c != 'documented':
                ctx.cover('C12:option-values-selfclose-style-' + c)
        if ra[0] == 'ok' and cv.asks_for_self_closing(gr['abbr']):
            ctx.cover('C12:option-values-selfclose-with-self-closing-element')
            if what != 'documented-vs-documented':
                ctx.cover('C12:option-values-selfclose-outside-style-with-self-closing-element')
        return
    for o in (oa, ob):
        for k in cv.SWITCHES:
            if k in o and not isinstance(o[k], bool):
                ctx.cover('C12:option-values-%s-%s-%s' % (kind, k, cv.value_name(o[k])))
        ib = o.get('output.inlineBreak', 3)
        if 'output.inlineBreak' in o and (ib is None or isinstance(ib, bool) or ib < 0 or ib > 7):
            ctx.cover('C12:option-values-%s-output.inlineBreak-%s' % (kind, cv.value_name(ib)))
        for k in ('comment.trigger', 'comment.before', 'comment.after'):
            if k in o and o[k] is None:
                ctx.cover('C12:option-values-%s-%s-None' % (kind, k))
    if kind != 'selfclose' and cv.style_class(co.in_force(cfg_a)['output.selfClosingStyle']) != 'documented':
        ctx.cover('C12:option-values-%s-under-outside-self-closing-style' % kind)


FIELD_IN_VALUE_RE = re.compile(r'\$\{\d+(?::[^{}]*)?\}')


def cover_new_classes(ctx, kind, gr, cfg_a, ra):
    """Evidence for the two classes of c12_classes."""
    abbr = gr['abbr']
    if gr.get('variant') == 'fields' and kind == 'cosmetic':
        ctx.cover('C12:field-values')
        if re.search(r'\$\{\d+(?::[^{}]*)?\}\$\{', abbr):
            ctx.cover('C12:field-values-two-fields-in-a-row')
        if re.search(r'\$\{\d+:[^{}]+\}', abbr):
            ctx.cover('C12:field-values-with-placeholder')
        if re.search(r'(^|[>+^(])\{[^{}]*\$\{[^{}]*\}[^{}]*(\$\{[^{}]*\}[^{}]*)*\}(\*\d+)?>', abbr):
            ctx.cover('C12:field-values-text-node-with-children')
        if re.search(r'[\w\]]\{[^{}]*\$\{[^{}]*\}[^{}]*(\$\{[^{}]*\}[^{}]*)*\}(\*\d+)?>', abbr):
            ctx.cover('C12:field-values-element-text-with-children')
    if gr.get('variant') == 'lines' and kind in ('depth', 'cosmetic') and ra[0] == 'ok':
        wrap = cfg_a.get('text')
        texts = [abbr] + ([wrap] if isinstance(wrap, str) else list(wrap or []))
        for nm in sorted(set(x for t in texts for x in cc.text_seps(t))):
            ctx.cover('C12:line-ends-%s-%s' % (kind, nm))
        if wrap is not None:
            ctx.cover('C12:line-ends-%s-wrap-text-%s' % (kind, 'string' if isinstance(wrap, str) else 'list'))
        if kind == 'depth' and not depth_premise(abbr, ra[1], cfg_a):
            ctx.cover('C12:line-ends-depth-premise-not-met')
    if gr.get('variant') == 'attrs' and kind == 'cosmetic':
        ctx.cover('C12:shorthand-attributes')
        o = cfg_a.get('options') or {}
        if '..' in abbr or '##' in abbr:
            ctx.cover('C12:shorthand-attributes-multiple')
        if 'markup.valuePrefix' in o:
            ctx.cover('C12:shorthand-attributes-user-valuePrefix')
        if 'markup.attributes' in o:
            ctx.cover('C12:shorthand-attributes-user-attribute-names')
    if gr.get('variant') == 'empty' and kind in ('cosmetic', 'depth'):
        ctx.cover('C12:empty-or-cut-short-%s-%s' % (kind, 'expands' if ra[0] == 'ok' else 'does-not-parse'))
        if ra[0] == 'ok':
            for nm in cc.empty_class_marks(abbr):
                ctx.cover('C12:empty-or-cut-short-%s-%s' % (kind, nm))
            if kind == 'cosmetic':
                oa, ob = co.in_force(cfg_a), co.in_force(gr['cfgs'][[c for c in gr['checks'] if c[0] == 'cosmetic'][0][2]])
                if bool(oa['output.format']) != bool(ob['output.format']):
                    ctx.cover('C12:empty-or-cut-short-cosmetic-format-on-vs-off')
    if gr.get('variant') == 'case':
        if kind == 'depth' and ra[0] == 'ok':
            o = co.in_force(cfg_a)
            skip = o.get('output.formatSkip') or []
            if not depth_premise(abbr, ra[1], cfg_a):
                ctx.cover('C12:name-case-depth-premise-not-met(an entry is a name)')
            else:
                ctx.cover('C12:name-case-depth-checked')
                low = set(t[1].lower() for t, _ in fu.scan(ra[1]) if t[0] == 'open')
                if any(s.lower() in low for s in skip):
                    ctx.cover('C12:name-case-depth-formatSkip-near-miss-%s' % (
                        'explicit' if 'output.formatSkip' in (cfg_a.get('options') or {}) else 'default'))
        elif kind == 'cosmetic':
            ctx.cover('C12:name-case-cosmetic')


def load_corpus():
    out = []
    for p in sorted(glob.glob(os.path.join(CORPUS, '*.json'))):
        with open(p) as f:
            out.append(json.load(f))
    return out


def evaluate(kind, abbr, cfg_a, cfg_b, ra, rb):
    """Returns (failure text or None, finding-class key or None)."""
    if ra[0] == 'hang' or (rb is not None and rb[0] == 'hang'):
        return 'expand did not return within %s s' % (ra[1] if ra[0] == 'hang' else rb[1]), None
    if ra[0] != 'ok' or (rb is not None and rb[0] != 'ok'):
        if rb is not None and ra[:2] == rb[:2]:
            return None, None       # both runs fail alike (parse error): nothing to compare
        if rb is None:
            return None, None
        return 'one run fails, the other does not: %r vs %r' % (ra[:2], rb[:2]), None
    if kind == 'cosmetic':
        return oracle_cosmetic(ra[1], rb[1]), None
    if kind == 'depth':
        if not depth_premise(abbr, ra[1], cfg_a):
            return None, None
        bad = oracle_depth(ra[1], cfg_a)
        if bad and bad.startswith(fu.ALIGN_LEAF):
            return bad, 'C12:close-aligned-inline-leaf-inner-format'
        if bad:
            return bad, classify_alignment(ra[1], cfg_a, bad)
        return bad, None
    if kind == 'comments':
        return oracle_comments(ra[1], rb[1], cfg_a, abbr), None
    if kind == 'selfclose':
        bad = oracle_selfclose(ra[1], rb[1])
        if bad:
            return bad, classify_selfclose(abbr, cfg_a, cfg_b, ra[1], rb[1])
        return None, None
    raise ValueError(kind)


CACHE_SEQ_ABBRS = ['ul>li.item*2', 'div#main>p.c+span', 'section.a>div.b>p', 'table>.row>.col']
CACHE_SEQ_OPTS = [
    {'comment.enabled': True},
    {'comment.enabled': False},
    {'comment.enabled': True, 'comment.after': '<!-- end [#ID][.CLASS] -->'},
    {'comment.enabled': True, 'comment.trigger': ['id']},
    {'comment.enabled': False, 'output.indent': '  '},
    {'comment.enabled': True, 'comment.before': '<!-- [#ID] -->', 'output.format': False},
]


def shared_cache_sequences(ctx):
    """The options decide the output also when one `cache` dict is shared by successive expansions with different
    option sets (comments on, then off, then other templates/triggers): each result must equal the result of the
    same call without a cache; in particular comments disabled => no comment text."""
    from emmet import expand
    n = 0
    for abbr in CACHE_SEQ_ABBRS:
        for start in range(len(CACHE_SEQ_OPTS)):
            cache = {}
            seq = CACHE_SEQ_OPTS[start:] + CACHE_SEQ_OPTS[:start]
            for step, opts in enumerate(seq):
                try:
                    got = expand(abbr, {'options': dict(opts), 'cache': cache})
                    want = expand(abbr, {'options': dict(opts)})
                except Exception as e:  # noqa
                    got, want = repr(e), None
                n += 1
                ctx.count_eval()
                ctx.cover('C12:shared-cache-sequence')
                if got != want:
                    ctx.property_failure('C12:shared-cache|%s|%d|%d' % (abbr, start, step),
                                         'C12 shared cache: expand(%r) under options %r through a cache dict used by %d earlier '
                                         'expansion(s) with other comment/format options gives %r, without cache %r' % (
                                             abbr, opts, step, got, want),
                                         {'component': 'C12', 'kind': 'shared-cache', 'abbr': abbr, 'sequence': seq[:step + 1],
                                          'why': 'result depends on options of earlier calls sharing the cache'})
                    break
    ctx.cov['shared_cache_sequences'] = n


# ---------------------------------------------------------------- one parsed tree, many renderings
def render_sequence(abbr, cfgs):
    """emmet.markup.parse once (under cfgs[0]), emmet.markup.stringify of THAT tree under every configuration in turn;
    next to each rendering the one-shot emmet.expand under the same configuration.
    Returns ('ok', [rendering...], [one-shot...]) or ('err', text) when the abbreviation does not parse."""
    from emmet import expand
    from emmet.config import Config
    from emmet.markup import parse, stringify
    from common import time_limit, Hang
    from markup_util import CALL_LIMIT_S
    with time_limit(CALL_LIMIT_S):
        try:
            tree = parse(abbr, Config(copy.deepcopy(cfgs[0])))
        except Hang:
            raise
        except Exception as e:  # noqa
            return ('err', type(e).__name__)
        outs, fresh = [], []

        def attempt(f):
            # a step that raises is recorded as ('raised', text) in its place, so that the oracle knows WHICH option
            # set raised and which did not
            try:
                return f()
            except Hang:
                raise
            except Exception as e:  # noqa
                return ('raised', '%s: %s' % (type(e).__name__, e))
        for c in cfgs:
            outs.append(attempt(lambda: stringify(tree, Config(copy.deepcopy(c)))))
            fresh.append(attempt(lambda: expand(abbr, copy.deepcopy(c))))
    return ('ok', outs, fresh)


def oracle_sequence(cfgs, outs, fresh):
    """The first sentence of the statement on the renderings of one tree: the configurations differ in cosmetic
    options only, so every rendering has the content of the first one -- and of the one-shot expansion under the
    same configuration.  The abbreviation parsed, so a rendering that raises is a failure; when another option set of
    the sequence renders the same tree, the sequence up to both is reported (a cosmetic option decides whether the
    tags come out at all).  Returns (step, text) or None."""
    for i in range(len(outs)):
        for what, r in (('rendering', outs[i]), ('one-shot expansion', fresh[i])):
            if isinstance(r, tuple):
                j = next((j for j in range(len(outs)) if not isinstance(outs[j], tuple)), None)
                if j is None:
                    return i, 'parse succeeded, %s %d raised %s' % (what, i, r[1])
                return max(i, j), ('parse succeeded, %s %d (options %s) raised %s while rendering %d of the same tree (options %s) '
                                   'gives %r' % (what, i, canon_cfg(cfgs[i]), r[1], j, canon_cfg(cfgs[j]), outs[j][:120]))
    for i in range(len(outs)):
        if i:
            bad = oracle_cosmetic(outs[0], outs[i])
            if bad:
                return i, 'rendering 0 and rendering %d of the same tree differ in more than whitespace: %s' % (i, bad)
        bad = oracle_cosmetic(fresh[i], outs[i])
        if bad:
            return i, ('rendering %d of the re-used tree differs in more than whitespace from the one-shot expansion under '
                       'the same options: %s' % (i, bad))
    return None


def rand_sequence_case(rng):
    """(abbr, [cfg...]): an abbreviation of any class (plain statement, shorthand attributes, values with fields,
    multi-line values, document snippets) and 2-4 configurations over ONE non-cosmetic base (syntax, comment options,
    cases, quotes, user attribute maps, wrap text) that differ in cosmetic options only."""
    k = rng.random()
    if k < 0.3:
        abbr = g.render(cc.rand_shorthand_stmt(rng))
    elif k < 0.4:
        abbr = cc.rand_unfinished_stmt_abbr(rng, 'c12')
    elif k < 0.55:
        abbr = cc.rand_field_abbr(rng)
    elif k < 0.7:
        abbr = g.render(cc.rand_lines_stmt(rng, 'c12'))
    elif k < 0.8:
        abbr = rand_depth_abbr(rng)[0]
    else:
        abbr = g.render(fu.rand_abbr(rng, 'c12'))
    base = fu.rand_base(rng)
    if rng.random() < 0.5:
        base['options'].update(cc.rand_attr_maps(rng, base['syntax']))
    if rng.random() < 0.1:
        base['text'] = cc.rand_wrap_text(rng)
    names = sorted(set(re.findall(r'[a-z][a-z0-9:\-]*', abbr)))[:8]
    cfgs = [fu.with_options(base, fu.rand_cosmetic(rng, names)) for _ in range(rng.randint(2, 4))]
    return abbr, cfgs


SEQ_OPTION_SETS = [{'output.format': True}, {'output.format': False},
                   {'output.format': True, 'output.indent': '  ', 'output.baseIndent': '  ', 'output.newline': '\r\n'},
                   {'output.format': True, 'output.inlineBreak': 1, 'output.formatLeafNode': True},
                   {'output.format': True, 'output.formatSkip': [], 'output.formatForce': []}]


def tree_reuse_sequences(ctx):
    """Class 5 of c12_classes: the two-step route emmet.markup.parse -> emmet.markup.stringify with ONE tree rendered
    under several cosmetic option sets (implementation and oracle only: the model is a function of abbreviation and
    configuration, a tree that is rendered twice has no counterpart there)."""
    rng = ctx.rng
    quick = ctx.tier == 'quick'
    todo = []
    # deterministic part: shorthand / xsl / snippet / field / multi-line abbreviations x every syntax, the option sets
    # rotated so that every set is first, second, ... once
    fixed = list(cc.shorthand_sweep())[::3 if quick else 1] + [
        'xsl:variable[select]>a', 'vare>x', 'xsl:with-param[select=x]{t}', 'ul>li.item$*2>a{t$}', '!', 'a+img+input[disabled.]',
        'p{a ${1} b}>em', 'div>p{one\rtwo}', 'label>input', 'div#i.c>p.k', 'table>.row>.col', 'bq>{t}',
        'div>{}', 'ul>li+{', 'p+{}+span', 'div>p{}+{}*2', 'section>div>(', 'div>p[title=""]>{']
    for k, abbr in enumerate(fixed):
        syn = fu.HTML_SYNTAXES[k % len(fu.HTML_SYNTAXES)] if k % 2 else ['jsx', 'vue', 'xsl'][k % 3]
        base = {'syntax': syn, 'options': {}}
        if k % 5 == 0:
            base['options']['comment.enabled'] = True
        if k % 7 == 3 or syn in ('html', 'xml'):
            base['options']['markup.valuePrefix'] = dict(cc.USER_PREFIX_MAPS[k % len(cc.USER_PREFIX_MAPS)])
        r = k % len(SEQ_OPTION_SETS)
        seq = SEQ_OPTION_SETS[r:] + SEQ_OPTION_SETS[:r]
        todo.append((abbr, [fu.with_options(base, o) for o in seq[:3 if quick else 5]]))
    n_fixed = len(todo)
    for _ in range(140 if quick else 2500):
        todo.append(rand_sequence_case(rng))
    n_ok = 0
    for abbr, cfgs in todo:
        if mentions_lorem(abbr, cfgs[0]):
            continue
        try:
            r = render_sequence(abbr, cfgs)
        except Exception as e:  # noqa
            r = ('raised', '%s: %s' % (type(e).__name__, e))
        ctx.count_eval()
        ctx.cover('C12:tree-reuse-%s' % r[0])
        bad = None
        if r[0] == 'raised':
            # the abbreviation parsed; a rendering (or the one-shot expansion) of it raised
            bad = (0, 'parse succeeded, a later step raised %s' % r[1])
        elif r[0] == 'ok':
            n_ok += 1
            ctx.cover('C12:tree-reuse-renderings-%d' % len(cfgs))
            ctx.cover('C12:tree-reuse-syntax-' + cfgs[0].get('syntax', 'html'))
            if '..' in abbr:
                ctx.cover('C12:tree-reuse-multiple-shorthand')
            if 'markup.valuePrefix' in cfgs[0]['options'] or 'markup.attributes' in cfgs[0]['options']:
                ctx.cover('C12:tree-reuse-user-attribute-maps')
            if r[1][0].count('<') >= 3:
                ctx.nontrivial((abbr, canon_cfg(cfgs[0]), 'tree-reuse'))
            bad = oracle_sequence(cfgs, r[1], r[2])
        if bad:
            step, why = bad
            ctx.property_failure('C12:cosmetic-line-break-inside-attribute-value' if ATTR_LINE_BREAK_RE.search(abbr) else 'C12:tree-reuse|%s|%s' % (abbr, '|'.join(canon_cfg(c) for c in cfgs[:step + 1])),
                                 'C12 one tree, many renderings: parse(%r) under %s, stringify of that tree under %d option set(s) '
                                 'differing in cosmetic options only: %s' % (abbr, canon_cfg(cfgs[0]), step + 1, why),
                                 {'component': 'C12', 'kind': 'tree-reuse', 'abbr': abbr, 'sequence': cfgs[:step + 1], 'why': why})
    ctx.cov['tree_reuse_sequences'] = {'fixed': n_fixed, 'random': len(todo) - n_fixed, 'rendered': n_ok}


def run(ctx):
    ok = ctx.build(['props/C12.vo', 'run/MarkupRun.vo', 'run/DepthRun.vo'])
    if ok:
        ctx.obligations('props/C12.v')
    model = ctx.model('markup') if ok else None
    dom_model = ctx.model('depth') if ok else None
    ctx.cov['rule'] = (
        'abbreviations from the statement AST generator (elements, groups, repeaters, ids/classes, attributes with empty/'
        'boolean/quoted/expression values, single- and multi-line text, text starting with a tag, self-closing marks, '
        'snippet names) x non-cosmetic base options (syntax html/xml/xsl/jsx/vue/svelte, self-closing style, comment '
        'options/templates, cases, quotes, compactBoolean, reverseAttributes) x two random cosmetic option sets. Every '
        'configuration is run through the implementation with recording callbacks and through the extracted model '
        '(callback event sequences compared). Oracles on the implementation output only (independent tag scanner): '
        'cosmetic (same tags/attributes/comments/text after removing blanks), depth (format on, formatSkip empty: '
        'indent units = open elements, closing-tag lines one less), comments on/off, self-closing styles. '
        'The option values the oracles use (newline, indent, baseIndent, comment templates and trigger list, self-closing '
        'style) are NOT read back from the library: documented default < documented syntax preset < the explicit value of '
        'the case (harness/c12_opts.py), so an explicit value the library fails to honour shows. '
        'Explicit values include the empty ones: formatSkip / formatForce / comment.trigger given as [], comment '
        'templates as \'\', inlineBreak 0 -- swept over skeletons around the names the documented defaults mention '
        '(html, body, head) and the document snippets (!, doc, doc4, html:xt ...) in all six syntaxes, and drawn at '
        'random: about a third of the depth abbreviations contain html/body/head or hang below a document snippet; '
        'the depth configuration gives formatSkip explicitly as [] (75%) or as a list of names absent from the output; '
        'the comment-on configuration gives comment.trigger explicitly (empty list included) in 30% of the groups. '
        'Values with fields (harness/c12_classes.py, class 1): text values composed of plain strings, fields without and '
        'with placeholder in every order -- field first / last / between strings, two and three fields in a row -- '
        'optionally inside brackets, tags or comment marks, on elements and on bare text nodes, with children (the '
        'first field is then the child slot; children inline, block, repeated, nested) and without, plus fields in '
        'attribute values: a deterministic sweep of every value shape x host x children shape x option pair and random '
        'statements; judged by the cosmetic, comment and self-closing oracles (NOT by the depth oracle: the '
        'indentation of a value split around children is the subject of the listed push_snippet findings). '
        'Letter case of element names (class 2): every name may be written lower-case, UPPER-case, Capitalised or '
        'miXed (plain names, html/body/head, inline names, the document skeleton); formatSkip / formatForce of the '
        'cosmetic runs draw from the exact names and from their other case shapes; the depth configuration leaves '
        'formatSkip unset (documented default [\'html\']) or names near misses only (entries that equal a name of the '
        'abbreviation ignoring case but are not that name). The premise "no element exempted through formatSkip" is '
        'evaluated by the oracle itself: an element is exempted iff its exact name is an entry of the list in force '
        '(read from the words of the abbreviation and the element names of the output, never from the library). '
        'Line ends (class 3): multi-line values whose lines end in LF, CR LF or a bare CR -- alone, mixed in one value, '
        'doubled (empty line), leading, trailing -- as text of block / inline elements with and without children, as '
        'bare text nodes (first / last / only child, top level, repeated), as quoted attribute values (indentation '
        'check only: the cosmetic comparison of multi-line attribute values is switched off, see '
        'c12_classes.LINE_BREAKS_IN_ATTRIBUTE_VALUES_COSMETIC) and as the text handed over for wrapping (config `text`: '
        'one string with line ends, the list of its lines, a list whose items have line ends): a deterministic sweep '
        'of 11 spellings x 16 hosts + 8 wrap abbreviations x rotating option sets and syntaxes with the cosmetic and '
        'the depth oracle, and random statements whose multi-line values get every line end re-drawn (40% of them '
        'with a wrap text). '
        'Shorthand attributes (class 4): `.c`, `..c` (multiple), `.a..b`, `#i`, `##i`, implicit names, class names that '
        'are / are not property keys, under the documented jsx / vue presets and under user-given markup.attributes / '
        'markup.valuePrefix maps with plain and starred keys in every syntax (sweep + random, compared with the model). '
        'Empty values and abbreviations cut short (class 6): a closing delimiter directly after the opening one -- the '
        'empty text node `{}`, `p{}`, `p[]`, `[title=""]`, `[on={}]`, repeated, with children -- in every position '
        '(only / first / last / middle child, top level, in a group, next to a text node or another empty one, below '
        'inline and block elements): 12 units x 23 hosts; and every prefix of 16 typed abbreviations (as-you-type: cut '
        'directly after `{` `[` `(`, after an operator, inside a text or a name; in the quick tier every second prefix '
        'that does not end in an opening delimiter or operator). Each with the pair format off / format on under rotating '
        'indent / newline / baseIndent / inlineBreak / formatLeafNode / formatForce values (cosmetic oracle: both runs '
        'fail to parse alike or both expand with the same content) and the depth oracle on the formatted run (a line '
        'holding only the indentation of an empty text node counts like any other line); plus random statements with '
        'empty values put in, half of them cut short (70% of the cuts after an opening delimiter / operator), 70% of '
        'their cosmetic pairs with format on vs off; compared with the model like every other group. '
        'Option values at the edges of their type and range (class 7, harness/c12_values.py): output.selfClosingStyle '
        'outside its three documented words -- None ("not set"), the empty string, other letter case (XML, Xhtml), other '
        'spelling (a blank before / after, x-html), unknown words (none, sgml, html5), other types (False, True, 0, 1) -- '
        'compared with a documented word or with another such value by the self-closing oracle (whatever the two values '
        'are, the outputs differ in the ` /` or `/` before `>` only; which mark an undocumented word writes is not '
        'judged): a sweep of 18 values x 14 abbreviations with self-closing elements (void snippet names, `/` marks on '
        'leaves, on elements with text / children, xsl names) x 2 rotating syntaxes (all 6 in the thorough tier), a third '
        'of them with format off or comments on; the switches output.format / output.formatLeafNode / comment.enabled '
        'spelled 1 / 0 / None / \'\' and output.inlineBreak as 0 / None / False / True / 50 / 1000 / -1 against the '
        'documented spelling (cosmetic oracle, depth oracle when formatting is on by a true value, comment oracle for '
        'every on-spelling x off-spelling, comment.trigger / templates given as None); plus random statements in which '
        'a third of the leaves carry `/` and a third of the names are void snippet names, all runs under respelled '
        'switches / inline-break edges, 30% under an outside style as the shared base, the self-closing pair drawn '
        'with at least one outside value in 75% of the draws.  String values go to the model like every other case; '
        'values of another type (False, 0, 1, a negative inlineBreak) have no counterpart in the model\'s option '
        'record and are judged by the oracles only (counted as C12:not-modelled).  NOT explored: None for '
        'output.indent / output.newline / output.baseIndent (documented type string; switch '
        'c12_values.STRING_OPTIONS_NONE, off) and for output.formatSkip / output.formatForce. '
        'Call sequences (class 5): ONE tree from emmet.markup.parse rendered by emmet.markup.stringify under 2-5 '
        'configurations that differ in cosmetic options only (abbreviations of every class above x random non-cosmetic '
        'base incl. user attribute maps; fixed part: shorthand sweep, xsl, snippets, fields, every option set in every '
        'position): each rendering must have the content of the first rendering and of the one-shot expand under the '
        'same options.  Implementation and oracle only -- the model is a function of (abbreviation, configuration), a '
        'tree rendered twice has no counterpart there; likewise the shared-cache sequences. '
        'non-trivial = at least two elements in the output; distinct by (abbreviation, configuration).')
    rng = ctx.rng
    groups = []
    for rec in load_corpus():
        groups.append({'abbr': rec['abbr'], 'cfgs': {'a': rec['cfg_a'], 'b': rec.get('cfg_b') or rec['cfg_a']},
                       'checks': [(rec['kind'], 'a', 'b' if rec.get('cfg_b') is not None else None)], 'corpus': True,
                       'class': rec.get('class')})
        ctx.cover('C12:corpus')
    for abbr, ca, cb in FIXED:
        groups.append({'abbr': abbr, 'cfgs': {'a': ca, 'b': cb}, 'checks': [('cosmetic', 'a', 'b')]})
    for abbr, cfg, cls in FIXED_DEPTH:
        groups.append({'abbr': abbr, 'cfgs': {'a': cfg}, 'checks': [('depth', 'a', None)], 'class': cls})
    # exhaustive operator skeletons over a block / inline name mix, with and without text:
    # cosmetic (default options vs. no formatting / inlineBreak variants) and depth
    max_units = 2 if ctx.tier == 'quick' else 3
    ex_cfgs = [({}, {'options': {'output.format': False}}),
               ({'options': {'output.inlineBreak': 1, 'output.indent': '  '}}, {'options': {'output.inlineBreak': 0, 'output.formatLeafNode': True}}),
               ({'syntax': 'xml', 'options': {'output.formatSkip': ['div'], 'comment.enabled': True}},
                {'syntax': 'xml', 'options': {'output.formatForce': ['p', 'em'], 'output.baseIndent': '\t', 'comment.enabled': True}})]
    n_ex = 0
    for nu in range(1, max_units + 1):
        for k, st in enumerate(g.enum_stmts(nu, ['div', 'span', 'p', 'em'], ops=('>', '+', '^'), repeats=(None, 2))):
            if k % 3 == 1:
                for unit, _ in st:
                    if isinstance(unit, g.El):
                        unit.text = 'a\nb' if k % 2 else 't'
            elif k % 3 == 2:
                for unit, _ in st:
                    if isinstance(unit, g.El):
                        unit.id = 'i'
            abbr = g.render(st)
            ca, cb = ex_cfgs[k % len(ex_cfgs)]
            groups.append({'abbr': abbr, 'cfgs': {'a': ca, 'b': cb, 'd': DEPTH_CFG},
                           'checks': [('cosmetic', 'a', 'b'), ('depth', 'd', None)]})
            n_ex += 1
    ctx.cov['exhaustive_skeletons'] = {'max_units': max_units, 'statements': n_ex}
    # explicit empty values: every list / string option of the statement given as [] / '' / 0 / False, on skeletons
    # around the names the documented defaults mention (html, body) and the document snippets, in every syntax
    n_ee = 0
    for syn in fu.HTML_SYNTAXES:
        for k, abbr in enumerate(co.explicit_empty_abbrs()):
            for j, opts in enumerate(co.EXPLICIT_EMPTY):
                if (k + j) % 2 and ctx.tier == 'quick' and j:
                    continue
                d = {'syntax': syn, 'options': dict(opts)}
                a = {'syntax': syn, 'options': {}}      # same non-cosmetic options, every formatting option unset
                if co.in_force(d)['output.selfClosingStyle'] == 'html':
                    d['options']['output.selfClosingStyle'] = a['options']['output.selfClosingStyle'] = 'xhtml'
                groups.append({'abbr': abbr, 'cfgs': {'a': a, 'd': d},
                               'checks': [('cosmetic', 'a', 'd'), ('depth', 'd', None)], 'listed': True, 'explicit_empty': True})
                n_ee += 1
            for j, opts in enumerate(co.EXPLICIT_EMPTY_COMMENT):
                if (k + j) % 2 and ctx.tier == 'quick':
                    continue
                on = {'syntax': syn, 'options': dict(opts, **{'comment.enabled': True})}
                off = {'syntax': syn, 'options': dict(opts, **{'comment.enabled': False})}
                groups.append({'abbr': abbr, 'cfgs': {'con': on, 'coff': off}, 'checks': [('comments', 'con', 'coff')],
                               'listed': True, 'explicit_empty': True})
                n_ee += 1
    ctx.cov['explicit_empty_sweep'] = {'abbreviations': len(co.explicit_empty_abbrs()), 'syntaxes': len(fu.HTML_SYNTAXES),
                                       'groups': n_ee}
    n_fixed = len(groups)
    n = 700 if ctx.tier == 'quick' else 12000
    for _ in range(n):
        groups.append(make_group(rng))
    add_field_value_groups(ctx, rng, groups)
    add_name_case_groups(ctx, rng, groups)
    add_line_separator_groups(ctx, rng, groups)
    add_shorthand_groups(ctx, rng, groups)
    add_empty_value_groups(ctx, rng, groups)
    add_option_value_groups(ctx, rng, groups)
    cases = []
    index = {}
    for gi, gr in enumerate(groups):
        for name, cfg in gr['cfgs'].items():
            index[(gi, name)] = len(cases)
            cases.append((gr['abbr'], cfg, None))
    impl = run_cases(ctx, model, cases, 'C12', None, mode='events')
    for gi, gr in enumerate(groups):
        abbr = gr['abbr']
        for kind, na, nb in gr['checks']:
            ra = impl[index[(gi, na)]]
            rb = impl[index[(gi, nb)]] if nb else None
            cfg_a = gr['cfgs'][na]
            cfg_b = gr['cfgs'][nb] if nb else None
            bad, cls = evaluate(kind, abbr, cfg_a, cfg_b, ra, rb)
            ctx.cover('C12:check-' + kind)
            cover_option_classes(ctx, kind, gr, cfg_a)
            cover_new_classes(ctx, kind, gr, cfg_a, ra)
            cover_value_classes(ctx, kind, gr, cfg_a, cfg_b, ra)
            if ra[0] == 'ok':
                syn = cfg_a.get('syntax', 'html')
                ctx.cover('C12:syntax-' + syn)
                if ra[1].count('<') >= 3:
                    ctx.nontrivial((abbr, canon_cfg(cfg_a), kind))
            if bad and kind == 'depth' and cls is None and gr.get('class') and CLASS_GUARD[gr['class']](abbr):
                cls = gr['class']
            if bad and kind == 'cosmetic' and cls is None and ATTR_LINE_BREAK_RE.search(abbr):
                cls = 'C12:cosmetic-line-break-inside-attribute-value'
            if bad:
                key = cls or 'C12:%s|%s|%s|%s' % (kind, abbr, canon_cfg(cfg_a), canon_cfg(cfg_b) if cfg_b else '')
                ctx.property_failure(key, 'C12 %s: expand(%r) under %s%s: %s' % (
                    kind, abbr, canon_cfg(cfg_a), (' vs ' + canon_cfg(cfg_b)) if cfg_b else '', bad),
                    {'component': 'C12', 'kind': kind, 'abbr': abbr, 'cfg_a': cfg_a, 'cfg_b': cfg_b, 'why': bad})
    theorem_domain_check(ctx, dom_model, groups, impl, index)
    shared_cache_sequences(ctx)
    tree_reuse_sequences(ctx)
    for gr in groups[n_fixed + 3:n_fixed + 7]:
        r = impl[index[(groups.index(gr), 'a')]]
        ctx.sample({'abbr': gr['abbr'], 'config_a': gr['cfgs']['a'], 'config_b': gr['cfgs']['b'],
                    'output_a': r[1][:160] if r[0] == 'ok' else list(r)})


def theorem_domain_check(ctx, dom_model, groups, impl, index):
    """Ties the DOMAINS of C12_indent_is_depth / C12_close_aligned to the implementation: the extracted predicates
    (formatSkip empty, cfg_depth, depth_dom, align_dom) are evaluated on the model's tree of every depth case; inside
    the domain the oracle must hold on the implementation's output -- also for inputs of a listed finding class (a
    finding inside the domain would contradict the theorem)."""
    if dom_model is None:
        return
    todo = []
    for gi, gr in enumerate(groups):
        for kind, na, nb in gr['checks']:
            if kind != 'depth':
                continue
            cfg = gr['cfgs'][na]
            if mentions_lorem(gr['abbr'], cfg):
                continue
            try:
                todo.append((gi, na, [1] + enc_config(cfg) + enc_str(gr['abbr'])))
            except NotModelled:
                ctx.cover('C12:domain-not-modelled')
    outs = dom_model.run([w for _, _, w in todo])
    n_in = n_al = 0
    for (gi, na, _), w in zip(todo, outs):
        gr = groups[gi]
        abbr, cfg = gr['abbr'], gr['cfgs'][na]
        d = decode_res(w, lambda r: (r.int(), r.int(), r.int(), r.int()))
        ra = impl[index[(gi, na)]]
        if d[0] != 'ok' or ra[0] != 'ok':
            continue
        skip, cfgok, ddom, adom = d[1]
        in_depth = bool(skip and cfgok and ddom)
        in_align = in_depth and bool(adom)
        ctx.cover('C12:theorem-domain-depth-%s' % ('in' if in_depth else 'out'))
        ctx.cover('C12:theorem-domain-aligned-%s' % ('in' if in_align else 'out'))
        n_in += in_depth
        n_al += in_align
        bad = oracle_depth(ra[1], cfg)
        if not bad:
            continue
        is_align = 'stands first on its line' in bad
        if (in_align if is_align else in_depth):
            ctx.property_failure('C12:in-theorem-domain|%s|%s' % (abbr, canon_cfg(cfg)),
                                 'C12 depth: expand(%r) under %s lies in the domain of %s, yet on the implementation: %s' % (
                                     abbr, canon_cfg(cfg), 'C12_close_aligned' if is_align else 'C12_indent_is_depth', bad),
                                 {'component': 'C12', 'kind': 'depth', 'abbr': abbr, 'cfg_a': cfg, 'cfg_b': None, 'why': bad})
    ctx.cov['theorem_domains'] = {'depth_cases': len(todo), 'in_C12_indent_is_depth': n_in, 'in_C12_close_aligned': n_al}


def replay(ctx, obj):
    rp = obj.get('replay', {})
    if 'abbr' not in rp:
        print('replay names a broken obligation, no input: %s' % str(rp)[:300])
        return 1
    from markup_util import impl_expand
    if rp.get('kind') == 'shared-cache':
        from emmet import expand
        cache = {}
        bad = None
        for opts in rp['sequence']:
            got = expand(rp['abbr'], {'options': dict(opts), 'cache': cache})
            want = expand(rp['abbr'], {'options': dict(opts)})
            if got != want:
                bad = 'with shared cache %r, without %r' % (got, want)
        print('C12 shared-cache sequence on %r: %s' % (rp['abbr'], bad or 'property holds'))
        return 1 if bad else 0
    if rp.get('kind') == 'tree-reuse':
        try:
            r = render_sequence(rp['abbr'], rp['sequence'])
        except Exception as e:  # noqa
            r = ('raised', '%s: %s' % (type(e).__name__, e))
        bad = None
        if r[0] == 'raised':
            bad = (0, 'parse succeeded, a later step raised %s' % r[1])
        elif r[0] == 'ok':
            bad = oracle_sequence(rp['sequence'], r[1], r[2])
        print('C12 one tree, many renderings on %r\n  %s\n  %s' % (
            rp['abbr'], '\n  '.join('%d: %s -> %r' % (i, canon_cfg(c), (r[1][i] if r[0] == 'ok' else r))
                                    for i, c in enumerate(rp['sequence'])),
            ('property fails: ' + bad[1]) if bad else 'property holds'))
        return 1 if bad else 0
    ra = impl_expand(rp['abbr'], rp['cfg_a'])
    rb = impl_expand(rp['abbr'], rp['cfg_b']) if rp.get('cfg_b') is not None else None
    bad, cls = evaluate(rp['kind'], rp['abbr'], rp['cfg_a'], rp.get('cfg_b'), ra, rb)
    print('C12 %s on %r\n  a: %s -> %r\n  b: %s -> %r\n  %s' % (
        rp['kind'], rp['abbr'], canon_cfg(rp['cfg_a']), ra, canon_cfg(rp.get('cfg_b')), rb,
        ('property fails: ' + bad) if bad else 'property holds'))
    return 1 if bad else 0
