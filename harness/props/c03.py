"""C03 -- Attributes are carried over, merged and quoted as written."""
import copy
import itertools
import json
import os

import attr_util as au
import attr_vocab as av
import attrtext_gen as atg
from common import enc_str, VERIF
from markup_util import enc_config, decode_expand, impl_expand, NotModelled, canon_cfg

ELEMS = ['x', 'div', 'y1', 'ns:el', 'Q']      # not snippet keys (checked in gen)


def rand_options(rng, syntax):
    o = {}
    if rng.random() < 0.4:
        o['output.attributeQuotes'] = rng.choice(['single', 'double'])
    if rng.random() < 0.35:
        o['output.attributeCase'] = rng.choice(['upper', 'lower', ''])
    if rng.random() < 0.4:
        o['output.compactBoolean'] = rng.random() < 0.7
    if rng.random() < 0.45:
        o['output.reverseAttributes'] = rng.random() < 0.8
    if rng.random() < 0.4:
        o['output.selfClosingStyle'] = rng.choice(['html', 'xhtml', 'xml'])
    if rng.random() < 0.25:
        o['output.booleanAttributes'] = rng.choice([[], ['b', 'title'], ['disabled', 'data-k', 'x:y', 'class']])
    if rng.random() < 0.25:
        o['markup.attributes'] = rng.choice([{'a': 'alpha', 'class': 'cls', 'class*': 'multi'}, {'for': 'htmlFor', 'id': 'ID'},
                                             {'class*': 'many', 'Data-X': 'dx'}, {}])
    if rng.random() < 0.1:
        o['markup.valuePrefix'] = rng.choice([{'class*': 'st'}, {'class': 'one', 'class*': 'many'}, {'id': 'ids'}])
        o['output.attributeQuotes'] = 'double'      # the prefixed form prefix['v'] contains single quotes (observer limit)
    if KEY_SHAPE_TABLES:
        # tables put together entry by entry (every key shape per name) instead of the few fixed ones above
        if rng.random() < 0.22:
            o['markup.attributes'] = rand_key_table(rng, MAP_TARGETS)
        if rng.random() < 0.1:
            o['markup.valuePrefix'] = rand_key_table(rng, PREFIX_TARGETS)
            o['output.attributeQuotes'] = 'double'
    if rng.random() < 0.3:
        o['output.format'] = False
    return o


# ---------------------------------------------------------------- name / prefix tables by key shape, shorthand runs
# Emmet configuration docs (emmetio/emmet src/config.ts, `markup.attributes` / `markup.valuePrefix`): "Attribute name
# mapping ... If a key ends with `*`, this value will be used for multiple attributes: currently, it's a `class` and
# `id` since the `multiple` marker is added for shorthand attributes only.  Example: { "class*": "styleName" } ~>
# `..test` -> styleName={styles.test}".  So a shorthand written as a RUN of its operator (`..a`, `...a`, `##a`) is looked
# up under `name*` first and under the plain `name` when the table has no starred entry; everything else (single
# operator, [name=..] sets) is looked up under the plain name only and never sees a starred entry.  A table given by the
# user stands for the whole option (the syntax default table is replaced, not merged).  Which entry applies therefore
# depends on (shape of the table for that name) x (how the FIRST mention of the name is written): both are generated
# as a product here.  Stated in attr_util.multi_get / attr_out_spec on the written mentions.
KEY_SHAPE_TABLES = True        # tables built per name from the key shapes plain / starred / both (off = fixed tables only)
SHORTHAND_RUNS = True          # the stream and sweep of shorthand runs (`..a`, `...a`, `##a`) x table shapes
# (no target equals, in any letter case, a name another attribute of the same element may carry: with `class` renamed to `ID` and
# output.attributeCase upper an element would print two attributes called ID, and which one a reader means is not settled)
MAP_TARGETS = ['className', 'styleName', ':class', 'v-bind:id', 'htmlFor', 'klass', 'IDn', 'data-n', 'x-y', 'N1', 'ng:k', '@z']
PREFIX_TARGETS = ['styles', 'st', 'ids', 'css', 'this', 'S1', 's2', 'm_2']
KEY_SHAPES = ('plain', 'star', 'both')


def rand_key_table(rng, targets, names=None):
    """A user table for markup.attributes / markup.valuePrefix: 1-4 names (class and id most of the time, the others
    from the mention vocabulary), each with a plain entry, a starred entry or both, all values distinct."""
    if names is None:
        names = []
        for nm in ('class', 'id'):
            if rng.random() < 0.7:
                names.append(nm)
        for nm in rng.sample(au.NAMES, rng.choice([0, 0, 1, 2])):
            if nm not in names:
                names.append(nm)
        rng.shuffle(names)
    vals = rng.sample(targets, len(targets))
    table = {}
    for nm in names:
        shape = rng.choice(KEY_SHAPES)
        if shape in ('plain', 'both'):
            table[nm] = vals.pop()
        if shape in ('star', 'both'):
            table[nm + '*'] = vals.pop()
        if len(vals) < 2:
            break
    return table


def key_shape(table, name):
    if table is None:
        return 'no-table'
    return {(False, False): 'absent', (True, False): 'plain', (False, True): 'star', (True, True): 'both'}[
        (name in table, name + '*' in table)]


def shorthand(rng, name, run, jsx=False, word=None):
    """One id/class shorthand written with `run` operators in a row (run >= 2: flagged multiple)."""
    op = '.' if name == 'class' else '#'
    v = word if word is not None else au.rand_word(rng, au.WORD)
    if jsx and rng is not None and rng.random() < 0.25:
        return au.mention(name, v, 'expr', multiple=run > 1, text=op * run + '{%s}' % v, form=name)
    return au.mention(name, v, 'raw', multiple=run > 1, text=op * run + v, form=name)


def run_mentions(rng, jsx=False):
    """Mentions of one element in which id/class shorthands are written with 1-4 operators in a row, as the first and
    as a later mention of their name, mixed with [class=..] / [id=..] / other sets.  Returns (text, mentions)."""
    chunks, mentions = [], []
    n = rng.choice([1, 1, 2, 2, 3, 3, 4, 5])
    while len(mentions) < n:
        k = rng.random()
        if k < 0.6:
            m = shorthand(rng, 'class' if rng.random() < 0.65 else 'id', rng.choice([1, 2, 2, 2, 3, 3, 4]), jsx)
            mentions.append(m)
            chunks.append(m['text'])
        elif k < 0.8:
            nm = rng.choice(['class', 'id'])
            v = au.rand_word(rng, au.WORD)
            q = rng.choice(['', '"', "'"])
            m = au.mention(nm, v, {'': 'raw', '"': 'q2', "'": 'q1'}[q], text='%s=%s%s%s' % (nm, q, v, q))
            mentions.append(m)
            chunks.append('[' + m['text'] + ']')
        else:
            m = au.rand_set_mention(rng, jsx)
            mentions.append(m)
            chunks.append('[' + m['text'] + ']')
    return ''.join(chunks), mentions


def run_options(rng, syntax):
    """Options of the shorthand-run stream: a name table and/or a prefix table by key shape most of the time."""
    o = rand_options(rng, syntax)
    k = rng.random()
    if k < 0.55:
        o['markup.attributes'] = rand_key_table(rng, MAP_TARGETS)
    if 0.4 < k < 0.8:
        o['markup.valuePrefix'] = rand_key_table(rng, PREFIX_TARGETS)
        o['output.attributeQuotes'] = 'double'
    return o


def run_sweep():
    """(name in class, id) x (how its mentions are written: a run of 1-3 operators alone / before / after a single
    shorthand / before / after a [name=..] set) x (user tables: markup.attributes, markup.valuePrefix or both, with the
    entry for the name absent / plain / starred / both, or an empty table) x syntax."""
    forms = []
    for name, op in (('class', '.'), ('id', '#')):
        for r in (1, 2, 3):
            run = shorthand(None, name, r, word='a')
            one = shorthand(None, name, 1, word='b')
            st = au.mention(name, 'c', 'raw', text='%s=c' % name)
            forms.append((run['text'], [run]))
            forms.append((run['text'] + one['text'], [run, one]))
            forms.append((one['text'] + run['text'], [one, run]))
            forms.append(('[%s]%s' % (st['text'], run['text']), [st, run]))
            forms.append(('%s[%s]' % (run['text'], st['text']), [run, st]))
    out = []
    for text, ms in forms:
        name = ms[0]['name']
        other = 'id' if name == 'class' else 'class'
        maps = [{}, {other: 'oth', 'title': 'T'}, {name: 'plainN'}, {name + '*': 'starN'}, {name: 'plainN', name + '*': 'starN'}]
        pres = [{name: 'pp'}, {name + '*': 'ps'}, {name: 'pp', name + '*': 'ps'}]
        tables = [{'markup.attributes': m} for m in maps] + [{'markup.valuePrefix': p} for p in pres]
        tables += [{'markup.attributes': {name: 'plainN'}, 'markup.valuePrefix': {name + '*': 'ps'}},
                   {'markup.attributes': {name + '*': 'starN'}, 'markup.valuePrefix': {name: 'pp'}}]
        for t in tables:
            for syntax in ('html', 'xml', 'jsx', 'vue'):
                cfg = {'options': dict(t)} if syntax == 'html' else {'syntax': syntax, 'options': dict(t)}
                out.append(('x' + text, cfg, [('x', copy.deepcopy(ms))], 'tags'))
    return out


def resolved_options(cfg):
    from emmet.config import Config
    return Config(copy.deepcopy(cfg)).options


def build_case(rng, syntax, opts, single=False, gen=None):
    """An abbreviation of 1-3 elements, every element with its own mentions.
    Returns (abbr, cfg, expected) with expected = [(tagname, mentions)] in document order.
    gen(rng, jsx) -> (text, mentions) writes the mentions of one element (default: attr_util.rand_mentions)."""
    gen = gen or au.rand_mentions
    jsx = syntax == 'jsx'
    cfg = {'syntax': syntax, 'options': opts} if syntax != 'html' or rng.random() < 0.5 else {'options': opts}
    if not opts and rng.random() < 0.5:
        cfg = {k: v for k, v in cfg.items() if k != 'options'}
    shape = 0 if single else rng.choice([0, 0, 0, 1, 2, 3, 4, 5, 6])
    names = rng.sample(ELEMS, 3)
    parts = []
    for k, nm in enumerate(names):
        # a snippet definition is parsed without the jsx extensions
        text, ms = gen(rng, jsx and not (shape == 6 and k > 0))
        parts.append((nm, text, ms))
    (n1, t1, m1), (n2, t2, m2), (n3, t3, m3) = parts
    if shape == 0:
        return n1 + t1, cfg, [(n1, m1)]
    if shape == 1:
        return '%s%s>%s%s' % (n1, t1, n2, t2), cfg, [(n1, m1), (n2, m2)]
    if shape == 2:
        return '%s%s+%s%s' % (n1, t1, n2, t2), cfg, [(n1, m1), (n2, m2)]
    if shape == 3:
        return '%s%s*2' % (n1, t1), cfg, [(n1, m1), (n1, m1)]
    if shape == 4:
        return '%s%s/' % (n1, t1), cfg, [(n1, m1)]
    if shape == 6:
        # the element is a user snippet with two top-level elements: both receive the mentions written
        # on the alias after their own (before them under reverseAttributes)
        cfg = dict(cfg, snippets={'foo': '%s%s+%s%s' % (n2, t2, n3, t3)})
        if opts.get('output.reverseAttributes'):
            return 'foo' + t1, cfg, [(n2, m1 + m2), (n3, m1 + m3)]
        return 'foo' + t1, cfg, [(n2, m2 + m1), (n3, m3 + m1)]
    return '%s%s>%s%s+%s%s' % (n1, t1, n2, t2, n3, t3), cfg, [(n1, m1), (n2, m2), (n3, m3)]


def check_case(abbr, cfg, expected):
    """The property oracle on the implementation: returns (why or None, impl_result_plain)."""
    plain = impl_expand(abbr, cfg)
    if plain[0] != 'ok':
        return 'expand raised %r' % (plain,), plain
    c2 = copy.deepcopy(cfg)
    c2.setdefault('options', {})
    c2['options'] = dict(c2['options'])
    c2['options']['output.field'] = au.field_marker
    marked = impl_expand(abbr, c2)
    if marked[0] != 'ok':
        return 'expand with a field callback raised %r' % (marked,), plain
    opts = resolved_options(cfg)
    tags = au.parse_tags(marked[1])
    if tags is None:
        return 'output has a malformed tag head: %r' % marked[1][:200], plain
    if [t for t, _ in tags] != [t for t, _ in expected]:
        return 'tags %r, expected %r' % ([t for t, _ in tags], [t for t, _ in expected]), plain
    for (tag, got), (_, ms) in zip(tags, expected):
        bad = au.compare_attrs(au.element_spec(ms, opts), got)
        if bad:
            return '<%s>: %s' % (tag, bad), plain
    return None, plain


# ---------------------------------------------------------------- unquoted values that contain brackets
# Emmet syntax (docs.emmet.io, "Custom attributes"; upstream README "unquoted values may contain brackets, e.g.
# [ng-click=foo(bar)] / [name=items[]]"): an unquoted value runs up to the first white space, quote, `=` or CLOSING
# bracket that has no partner OF ITS OWN KIND opened inside the value; `{...}` inside a value runs to its matching `}`
# whatever is in between.  So round, square and curly brackets are counted apart: a `(` left open inside the value
# does not keep the `]` of the attribute set, `[..]` pairs nest, `([)]` and `[(]` are values.  Stated here on the
# written text only (nothing of the implementation's tokenizer/parser is consulted).
BRACKET_VALUES = True          # the stream of this class (off = not generated)
BR_PLAIN = 'abcxyzABZ0189-_.:/#+,;%&~^|?>*@!'
BR_BODY = BR_PLAIN + ' ()[]()[]=  '
BR_NAMES = ['data-e', 'e2', 'on:x']         # names of brace-holding values: never mentioned with an expression value


def brace_body(rng, depth=0):
    out = []
    for _ in range(rng.choice([0, 1, 2, 3, 5])):
        if depth < 2 and rng.random() < 0.15:
            out.append('{' + brace_body(rng, depth + 1) + '}')
        else:
            out.append(rng.choice(BR_BODY))
    return ''.join(out)


def rand_bracket_value(rng, braces=True):
    """An unquoted value with at least one bracket.  `)` / `]` are written only while a `(` / `[` of the value is open
    (counted per kind, interleaving allowed); its own `[` are closed before it ends (the set's `]` would otherwise be
    theirs), a `(` may stay open.  Returns (value, classes) with classes = which shapes occur (for coverage)."""
    while True:
        out, rd, sq = [], 0, 0
        cls = set()
        n = rng.choice([1, 1, 2, 3, 4, 6, 9])
        while len(out) < n:
            k = rng.random()
            if k < 0.2:
                out.append('(')
                rd += 1
                if sq:
                    cls.add('round-in-square')
            elif k < 0.32 and rd:
                out.append(')')
                rd -= 1
            elif k < 0.44:
                out.append('[')
                sq += 1
                if rd:
                    cls.add('square-in-round')
            elif k < 0.58 and sq:
                out.append(']')
                sq -= 1
                if rd:
                    cls.add('square-closed-while-round-open')
            elif k < 0.65 and braces and out:
                out.append('{' + brace_body(rng) + '}')
                cls.add('braces')
            else:
                out.append(rng.choice(BR_PLAIN))
        while sq:
            if rd and rng.random() < 0.3:
                out.append(')')
                rd -= 1
            else:
                out.append(']')
                sq -= 1
                if rd:
                    cls.add('square-closed-while-round-open')
        if rd and rng.random() < 0.45:
            out.append(')' * rd)
            rd = 0
        v = ''.join(out)
        if not any(c in v for c in '()[]{'):
            continue
        if rd:
            cls.add('round-left-open')
        else:
            cls.add('balanced')
        return v, cls


def rand_bracket_mention(rng):
    implied = rng.random() < 0.1
    braces = rng.random() < 0.3
    v, cls = rand_bracket_value(rng, braces)
    name = rng.choice(BR_NAMES) if '{' in v else rng.choice(au.NAMES[:6] if rng.random() < 0.6 else au.NAMES)
    m = au.mention(name, v, 'raw', False, implied, text='%s%s=%s' % ('!' if implied else '', name, v))
    m['brackets'] = sorted(cls)
    return m


def bracket_mentions(rng, jsx=False):
    """Mentions of one element, at least one of them an unquoted value with brackets, at every place: alone in its
    set, first / middle / last of a set (white space or the set's `]` right after it), before and after shorthands
    and further sets.  Returns (text, mentions)."""
    chunks, mentions = [], []
    nparts = rng.choice([1, 1, 2, 2, 3, 4])
    special = rng.randrange(nparts)
    for p in range(nparts):
        if p != special and rng.random() < 0.4:
            v = au.rand_word(rng, au.WORD)
            if rng.random() < 0.4:
                mentions.append(au.mention('id', v, 'raw', text='#' + v, form='id'))
                chunks.append('#' + v)
            else:
                mentions.append(au.mention('class', v, 'raw', text='.' + v, form='class'))
                chunks.append('.' + v)
            continue
        m = rng.choice([1, 1, 2, 3])
        ms = [rand_bracket_mention(rng) if rng.random() < 0.6 else au.rand_set_mention(rng, jsx) for _ in range(m)]
        if p == special and not any('brackets' in x for x in ms):
            ms[rng.randrange(m)] = rand_bracket_mention(rng)
        lead = rng.choice(['', '', '', ' ', '\t'])
        tail = rng.choice(['', '', '', ' ', ' \t'])
        sep = [rng.choice([' ', ' ', '  ', '\t']) for _ in ms[1:]] + [tail]
        chunks.append('[' + lead + ''.join(x['text'] + w for x, w in zip(ms, sep)) + ']')
        mentions += ms
    return ''.join(chunks), mentions


def bracket_seeds():
    """The shapes of the class written out once each (value, then what follows the set)."""
    out = []
    values = ['(', 'a(', '((', '(a)(', '[(]', '([)]', '[[(]]', '([]', 'f(a[0])', 'items[]', '[]', '()', 'a[(b]c',
              'a{b]c}d', '[a{ ( }]', '({)}']
    tails = ['', '[y=1]', '.c', '#i', '{t}', '>p', '+p', '*2', '/', '>p^q']
    for v in values:
        for t in tails:
            nm = 'e2' if '{' in v else 't'
            m = au.mention(nm, v, 'raw', text='%s=%s' % (nm, v))
            exp = [('x', [m])]
            if t == '[y=1]':
                exp = [('x', [m, au.mention('y', '1', 'raw', text='y=1')])]
            elif t == '.c':
                exp = [('x', [m, au.mention('class', 'c', 'raw', text='.c', form='class')])]
            elif t == '#i':
                exp = [('x', [m, au.mention('id', 'i', 'raw', text='#i', form='id')])]
            elif t == '>p':
                exp = [('x', [m]), ('p', [])]
            elif t == '+p':
                exp = [('x', [m]), ('p', [])]
            elif t == '*2':
                exp = [('x', [m]), ('x', [m])]
            elif t == '>p^q':
                exp = [('x', [m]), ('p', []), ('q', [])]
            out.append(('x[%s]%s' % (m['text'], t), {}, exp, 'tags'))
        # inside a set: first, middle, last; inside a group
        a, b = au.mention('a', '1', 'raw', text='a=1'), au.mention('b', 'w x', 'q2', text='b="w x"')
        nm = 'e2' if '{' in v else 't'
        m = au.mention(nm, v, 'raw', text='%s=%s' % (nm, v))
        out.append(('x[%s a=1 b="w x"]' % m['text'], {}, [('x', [m, a, b])], 'tags'))
        out.append(('x[a=1 %s b="w x"]' % m['text'], {}, [('x', [a, m, b])], 'tags'))
        out.append(('x[a=1 b="w x" %s ]' % m['text'], {}, [('x', [a, b, m])], 'tags'))
        out.append(('(x[%s]>y1[a=1])+div[%s]' % (m['text'], m['text']), {}, [('x', [m]), ('y1', [a]), ('div', [m])], 'tags'))
    return out


def verbatim_case(rng):
    """One element, one quoted/expression/unquoted value over a wide alphabet; compared as a whole string."""
    wide = ''.join(chr(c) for c in range(32, 127) if chr(c) not in '$\\') + '\té中'
    kind = rng.choice(['q1', 'q2', 'expr', 'raw', 'rawbr'])
    if kind == 'rawbr':
        v, _ = rand_bracket_value(rng)
        m = au.mention('t', v, 'raw', text='t=' + v)
        return 'x[t=%s]' % v, {'options': {'output.attributeQuotes': rng.choice(['single', 'double'])}}, [('x', [m])]
    if kind == 'q1':
        v = au.rand_word(rng, wide.replace("'", ''), 0, 8)
        text = "t='%s'" % v
    elif kind == 'q2':
        v = au.rand_word(rng, wide.replace('"', ''), 0, 8)
        text = 't="%s"' % v
    elif kind == 'expr':
        v = au.rand_word(rng, wide.replace('{', '').replace('}', ''), 0, 8)
        text = 't={%s}' % v
    else:
        v = au.rand_word(rng, ''.join(c for c in wide if c not in ' \t"\'=()[]{}*@'), 1, 8)
        text = 't=%s' % v
    m = au.mention('t', v, kind if kind != 'raw' else 'raw', text=text)
    opts = {'output.attributeQuotes': rng.choice(['single', 'double'])}
    return 'x[%s]' % text, {'options': opts}, [('x', [m])]


def field_class_cases():
    """Class (and other) mentions whose written value ends in or consists of a tabstop field, followed by further
    mentions of the same name: the field prints its placeholder (default output.field), the merge rules are unchanged."""
    out = []
    firsts = [('${1:foo}', 'foo'), ('a${1:foo}', 'afoo'), ('a${2}', 'a'), ('${1:f}${2:g}', 'fg'), ('${1:foo}b', 'foob')]
    for written, shown in firsts:
        for q in ('', '"'):
            for rest in (['bar'], ['bar', 'baz']):
                text = 'class=%s%s%s' % (q, written, q)
                ms = [au.mention('class', shown, 'q2' if q else 'raw', text=text)]
                ms += [au.mention('class', w, 'raw', text='.' + w, form='class') for w in rest]
                abbr = 'x[%s]%s' % (text, ''.join('.' + w for w in rest))
                for cfg in ({}, {'options': {'output.reverseAttributes': True}}):
                    out.append((abbr, cfg, [('x', ms)], 'verbatim'))
                # the shorthand first, the field-valued mention last
                ms2 = [au.mention('class', w, 'raw', text='.' + w, form='class') for w in rest] + [ms[0]]
                out.append(('x%s[%s]' % (''.join('.' + w for w in rest), text), {}, [('x', ms2)], 'verbatim'))
        # a non-class name: last value wins, fields included
        ms = [au.mention('t', shown, 'raw', text='t=' + written), au.mention('t', 'z', 'raw', text='t=z')]
        out.append(('x[t=%s t=z]' % written, {}, [('x', ms)], 'verbatim'))
        out.append(('x[t=z t=%s]' % written, {}, [('x', list(reversed(ms)))], 'verbatim'))
    return out


def check_verbatim(abbr, cfg, expected):
    plain = impl_expand(abbr, cfg)
    if plain[0] != 'ok':
        return 'expand raised %r' % (plain,), plain
    opts = resolved_options(cfg)
    spec = au.element_spec(expected[0][1], opts)
    want = '<x%s></x>' % ''.join(au.render_attr(r) for r in spec)
    if plain[1] != want:
        return 'output %r, expected %r' % (plain[1], want), plain
    return None, plain


def check_vocab(abbr, cfg, expected):
    return av.check_vocab(abbr, cfg, expected, impl_expand, resolved_options)


CHECKERS = {'verbatim': check_verbatim, 'vocab': check_vocab}


def corpus_cases():
    d = os.path.join(VERIF, 'corpus', 'C03')
    out = []
    if os.path.isdir(d):
        for fn in sorted(os.listdir(d)):
            if fn.endswith('.json'):
                with open(os.path.join(d, fn)) as f:
                    o = json.load(f)
                if o.get('mode') == 'text-tree':
                    continue            # seeds of the character-level stream (attrtext_gen)
                out.append((o['abbr'], o['config'], [tuple(e) for e in o['expected']], o.get('mode', 'tags')))
    return out


def exhaustive_pairs():
    """Every ordered pair and triple of mentions of ONE name over all value kinds (merge rules are order dependent)."""
    kinds = [
        au.mention('b', None, 'raw', text='b'),
        au.mention('b', 'v', 'raw', text='b=v'),
        au.mention('b', 'w x', 'q2', text='b="w x"'),
        au.mention('b', '', 'q1', text="b=''"),
        au.mention('b', 'e', 'expr', text='b={e}'),
        au.mention('b', None, 'raw', boolean=True, text='b.'),
        au.mention('b', None, 'raw', implied=True, text='!b'),
        au.mention('b', 'i', 'raw', implied=True, text='!b=i'),
    ]
    cls = [
        au.mention('class', 'k', 'raw', text='.k', form='class'),
        au.mention('class', 'm', 'raw', multiple=True, text='..m', form='class'),
        au.mention('class', 'p q', 'q2', text='[class="p q"]'),
        au.mention('class', None, 'raw', text='[class]'),
        au.mention('class', 'e', 'expr', text='[class={e}]'),
        au.mention('class', None, 'raw', implied=True, text='[!class]'),
    ]
    other = au.mention('c', 'z', 'raw', text='c=z')
    cases = []
    for n in (2, 3):
        for combo in itertools.product(kinds, repeat=n):
            ms = [copy.deepcopy(m) for m in combo]
            ms.insert(1, copy.deepcopy(other))
            cases.append(('x[%s]' % ' '.join(m['text'] for m in ms), ms))
        for combo in itertools.product(cls, repeat=n):
            ms = [copy.deepcopy(m) for m in combo]
            cases.append(('x' + ''.join(m['text'] for m in ms), ms))
    return cases


def fails_in_fresh_process(rp):
    """Does the property fail on this replay object in a NEW interpreter (nothing left behind by earlier calls)?"""
    import subprocess
    import sys
    import tempfile
    with tempfile.NamedTemporaryFile('w', suffix='.json', delete=False) as f:
        json.dump({'property': 'C03', 'replay': rp}, f, default=str)
    try:
        r = subprocess.run([sys.executable, os.path.join(VERIF, 'check'), 'C03', '--replay', f.name],
                           stdout=subprocess.DEVNULL, stderr=subprocess.DEVNULL, timeout=120)
        return r.returncode == 1
    except Exception:  # noqa
        return False
    finally:
        os.unlink(f.name)


def report_failures(ctx, fails, cases, want=10, budget=40):
    """Every reported replay file must fail when re-run alone.  A failure seen in the long run of this process may
    depend on what EARLIER calls left behind in the library (module-level caches, mutated shared tables): each failure
    (smallest first) is re-run in a fresh interpreter; when it holds there, the earlier calls of this run are searched
    for a prelude (one earlier call with a different configuration, else the whole run up to the failing call) after
    which it fails, and the replay file records that call sequence.  Runs only when the oracle found a failure."""
    if not fails:
        return
    fails = sorted(fails, key=lambda f: len(json.dumps(f[2], default=str)))
    verified, rest = [], []
    good_preludes = []
    for key, what, rp, k in fails:
        if ctx.match_known(key) is not None:
            ctx.property_failure(key, what, rp)         # a listed finding: reported as KNOWN-FINDING
            continue
        if len(verified) >= want or budget <= 0:
            rest.append((key, what, rp))
            continue
        budget -= 1
        if fails_in_fresh_process(rp):
            verified.append((key, what, rp))
            continue
        # order dependent: candidate preludes = earlier calls with a configuration of their own, the same syntax first
        syntax = cases[k][1].get('syntax', 'html')
        seen, cands = {canon_cfg(cases[k][1])}, []
        for a2, c2, _, _ in cases[:k]:
            cc = canon_cfg(c2)
            if cc not in seen:
                seen.add(cc)
                cands.append([a2, c2])
        cands.sort(key=lambda c: c[1].get('syntax', 'html') != syntax)
        tries = [p for p in good_preludes] + [[c] for c in cands[:12]]
        prefix, seen2 = [], set()
        for a2, c2, _, _ in cases[:k]:
            if (a2, canon_cfg(c2)) not in seen2:
                seen2.add((a2, canon_cfg(c2)))
                prefix.append([a2, c2])
        tries.append(prefix)
        found = None
        for pre in tries:
            if budget <= 0:
                break
            budget -= 1
            if fails_in_fresh_process(dict(rp, prelude=pre)):
                found = pre
                break
        if found is not None:
            if found not in good_preludes and len(found) < 50:
                good_preludes.append(found)
            verified.append((key, what + ' [after %d earlier call(s) in the same process]' % len(found),
                             dict(rp, prelude=found)))
            ctx.cover('C03:order-dependent-failure')
        else:
            rest.append((key, what + ' [seen in the long run only; not reproduced in a fresh process]', rp))
    # at most `want` lines are printed: the verified ones when there are any
    for key, what, rp in verified or rest:
        ctx.property_failure(key, what, rp)


def run(ctx):
    ok = ctx.build(['props/C03.vo', 'run/MarkupRun.vo', 'run/AttrRun.vo', 'run/TextRun.vo'])
    if ok:
        ctx.obligations('props/C03.v')
    model = ctx.model('markup') if ok else None
    rng = ctx.rng
    from emmet.snippets import markup_snippets
    for e in ELEMS:
        assert e not in markup_snippets
    ctx.cov['rule'] = ('elements with 0-8 attribute mentions (id/class shorthands, [..] sets with unquoted, quoted, empty, '
                       'valueless, boolean `n.`, implied `!n`, expression values; jsx `.{e}`) in random order with duplicate names, '
                       'syntaxes html/xml/jsx/vue x attribute options; exhaustive ordered pairs/triples of one name over every value '
                       'kind; a verbatim stream (wide alphabet, whole-string comparison). Unquoted values holding brackets '
                       '(round / square / curly counted per kind: balanced, nested, interleaved `([)]` `[(]`, a `(` left open before '
                       'the `]` of the set, `{..}` runs with any text inside) as the only / first / middle / last attribute of a set, '
                       'before and after shorthands and further sets, followed by `]`, white space, another set, .class, #id, {text}, '
                       '`>` `+` `^` `*n` `/`, inside groups and user snippets: every shape once (bracket_seeds) + random elements x '
                       'options + the verbatim stream; the value claimed is the written text up to the first white space / closing '
                       'bracket without a partner of its own kind in the value (Emmet syntax docs), and what follows the set must be '
                       'read as written. Oracle: tag heads of the output parsed to '
                       '(name, delimiter, value) lists = independent statement of the merge + output rules applied to the mentions. '
                       'HTML-vocabulary stream (attr_vocab): mentions written on default-snippet names (a, label, input, textarea, '
                       'select, img, form, ...; snippet attributes hard-coded from the Emmet docs) alone, as child / grandchild / '
                       'sibling / group member, label with and without an input/textarea inside, values made of text and tabstop '
                       'tokens (${n}, ${n:ph}; field first / middle / last, 1-4 tokens, unquoted / quoted / expression): exhaustive '
                       'sweep of all shapes of <= 2 tokens per (element, name, position) + random trees x options; judged on the output '
                       'with a marking output.field and with the default one; only an EMPTY for/id inside label>control is unclaimed. '
                       'Name and prefix tables by key shape (Emmet config docs: a key ending in `*` applies to shorthands '
                       'written as a run of their operator, the plain key otherwise and as the fall back): user '
                       'markup.attributes / markup.valuePrefix built per name (class, id, other mention names) with a plain '
                       'entry, a starred entry or both, in every random stream; shorthand runs of 1-4 operators (`.a` `..a` '
                       '`...a` `#a` `##a`, jsx `..{e}`) as the first and as a later mention of their name, mixed with [class=..] '
                       '/ [id=..] sets: exhaustive sweep (name x run length 1-3 x alone / before / after a single shorthand / '
                       'before / after a set x table entry absent / plain / starred / both / empty table, for either table and '
                       'both x html/xml/jsx/vue) + random elements x options; buckets C03:name-table / C03:prefix-table = '
                       '(name, key shape of the user table, how the first mention is written). '
                       'Every reported failure is re-run in a fresh interpreter; an order-dependent one gets the earlier call(s) of the '
                       'run as a prelude in its replay file. '
                       'non-trivial = an element with a repeated name; distinct by abbreviation + config.')
    cases = []      # (abbr, cfg, expected, mode)
    cases += corpus_cases()
    n_corpus = len(cases)
    cases += field_class_cases()
    ex = exhaustive_pairs()
    ex_cfgs = [{}, {'options': {'output.reverseAttributes': True}},
               {'syntax': 'xml', 'options': {'output.compactBoolean': True}},
               {'syntax': 'jsx', 'options': {'output.reverseAttributes': True, 'output.attributeQuotes': 'single'}},
               {'syntax': 'vue', 'options': {'output.compactBoolean': True, 'output.booleanAttributes': ['b', 'class']}}]
    for k, (abbr, ms) in enumerate(ex):
        for j, cfg in enumerate(ex_cfgs):
            if ctx.tier == 'quick' and len(ms) >= 3 and (k + j + ctx.seed) % 5:
                continue
            cases.append((abbr, cfg, [('x', ms)], 'tags'))
    n_rand = 2500 if ctx.tier == 'quick' else 60000
    for _ in range(n_rand):
        syntax = rng.choice(['html', 'html', 'xml', 'jsx', 'vue'])
        abbr, cfg, exp = build_case(rng, syntax, rand_options(rng, syntax))
        cases.append((abbr, cfg, exp, 'tags'))
    for _ in range(n_rand // 5):
        abbr, cfg, exp = verbatim_case(rng)
        cases.append((abbr, cfg, exp, 'verbatim'))
    # unquoted values holding brackets (balanced, nested, interleaved, a `(` left open) at every place of an element
    if BRACKET_VALUES:
        cases += bracket_seeds()
        for _ in range(700 if ctx.tier == 'quick' else 15000):
            syntax = rng.choice(['html', 'html', 'xml', 'jsx', 'vue'])
            abbr, cfg, exp = build_case(rng, syntax, rand_options(rng, syntax), gen=bracket_mentions)
            cases.append((abbr, cfg, exp, 'tags'))
    # shorthand runs (`..a`, `...a`, `##a`) as first / later mention x name and prefix tables by key shape
    if SHORTHAND_RUNS:
        cases += run_sweep()
        for _ in range(800 if ctx.tier == 'quick' else 15000):
            syntax = rng.choice(['html', 'html', 'xml', 'jsx', 'vue'])
            abbr, cfg, exp = build_case(rng, syntax, run_options(rng, syntax), gen=run_mentions)
            cases.append((abbr, cfg, exp, 'tags'))
    # the HTML vocabulary (default snippets, label with a control inside) x values made of text and tabstop tokens
    sweep = av.sweep_cases()
    for k, (abbr, cfg, exp) in enumerate(sweep):
        if ctx.tier == 'quick' and (k + ctx.seed) % 2:
            continue
        cases.append((abbr, cfg, exp, 'vocab'))
    for _ in range(1200 if ctx.tier == 'quick' else 30000):
        abbr, cfg, exp = av.rand_case(rng, rand_options)
        cases.append((abbr, cfg, exp, 'vocab'))
    wires, idx, impl, fails = [], [], [], []
    for k, (abbr, cfg, exp, mode) in enumerate(cases):
        why, plain = CHECKERS.get(mode, check_case)(abbr, cfg, exp)
        impl.append(plain)
        ctx.count_eval()
        ctx.cover('C03:%s:%s' % (mode, cfg.get('syntax', 'html')))
        nm = max([len(e[1]) for e in exp] + [0])
        ctx.cover('C03:mentions:%d' % nm)
        if mode == 'vocab':
            av.cover(ctx, exp)
        for e in exp:
            for m in e[1]:
                for b in m.get('brackets') or ():
                    ctx.cover('C03:unquoted-brackets:' + b)
        uo = cfg.get('options') or {}
        if 'markup.attributes' in uo or 'markup.valuePrefix' in uo:
            for e in exp:
                first = {}
                for m in e[1]:
                    if m['name'] in ('class', 'id') and m['name'] not in first:
                        first[m['name']] = m
                for nm, m in first.items():
                    how = 'run-first' if m.get('multiple') else 'single-first' if m.get('form') in ('class', 'id') else 'set-first'
                    for opt, lab in (('markup.attributes', 'name-table'), ('markup.valuePrefix', 'prefix-table')):
                        if opt in uo:
                            ctx.cover('C03:%s:%s:%s:%s' % (lab, nm, key_shape(uo[opt], nm), how))
        for e in exp:
            ms = e[1]
            names = [m['name'] for m in ms if m['name']]
            if len(names) != len(set(names)):
                ctx.nontrivial((abbr, canon_cfg(cfg)))
                ctx.cover('C03:repeated-name')
                break
        if why:
            fails.append(('C03:%s|%s' % (abbr, canon_cfg(cfg)),
                          'C03 expand(%r, %s): %s' % (abbr, canon_cfg(cfg), why),
                          {'component': 'C03', 'abbr': abbr, 'config': cfg, 'expected': exp, 'mode': mode,
                           'impl': repr(plain)[:500], 'why': why}, k))
        if model is not None:
            try:
                wires.append([2] + enc_config(cfg) + enc_str(abbr))
                idx.append(k)
            except NotModelled:
                ctx.cover('C03:not-modelled')
    report_failures(ctx, fails, cases)
    dis = 0
    if wires:
        outs = model.run(wires)
        for k, w in zip(idx, outs):
            mo = decode_expand(w)
            if mo != impl[k]:
                dis += 1
                abbr, cfg = cases[k][0], cases[k][1]
                if dis <= 5:
                    ctx.say('DISAGREE C03 %r cfg=%s\n  impl  %r\n  model %r' % (abbr, canon_cfg(cfg), str(impl[k])[:300], str(mo)[:300]))
                    ctx.broken.append({'kind': 'correspondence', 'file': 'markup-C03', 'input': abbr, 'config': canon_cfg(cfg),
                                       'impl': repr(impl[k])[:300], 'model': repr(mo)[:300]})
    ctx.cov['correspondence']['markup_C03'] = {'cases': len(wires), 'disagreements': dis}
    if ok:
        au.compare_trees(ctx, 'C03', [(c[0], c[1]) for c in cases])
    # character level (C03_element_attributes_text, C03_statement_attributes_text): elements and flat statements of the
    # theorems' written grammar over its whole alphabets; oracle = the written mentions (SPEC) against
    # emmet.abbreviation.parse (attributes before merging); the same texts through the extracted parse_abbr
    if ok:
        atg.run_stream(ctx, 'C03', 1500 if ctx.tier == 'quick' else 40000, 500 if ctx.tier == 'quick' else 15000, 0,
                       kinds={'corpus', 'seed', 'element', 'statement'})
        # the whole pipeline on the same grammar (C03_expand_element_text): oracle = merged mentions through the output table
        atg.run_expand_stream(ctx, 'C03', 900 if ctx.tier == 'quick' else 20000)
        # whole statements through markup.parse (C03_statement_markup_parse): every place carries its own element's mentions
        atg.run_stmt_parse_stream(ctx, 'C03', 600 if ctx.tier == 'quick' else 15000)
        # ... and through expand with formatting off (C03_statement_expand): nested tags, every element once, in order
        atg.run_stmt_expand_stream(ctx, 'C03', 500 if ctx.tier == 'quick' else 12000)
    ctx.cov['corpus_cases'] = n_corpus
    for (abbr, cfg, exp, mode), r in list(zip(cases, impl))[n_corpus + 3000:n_corpus + 3004]:
        ctx.sample({'abbr': abbr, 'config': cfg, 'output': r[1][:160] if r[0] == 'ok' else r})


def replay(ctx, obj):
    rp = obj.get('replay', {})
    if 'abbr' not in rp:
        print('replay names a broken obligation, no input: %s' % str(rp)[:300])
        return 1
    if rp.get('component') == 'text-tree':
        return atg.replay(rp)
    if rp.get('component') in ('C03expand', 'C03stmtexpand'):
        return atg.replay_expand(rp)
    if rp.get('component') == 'stmt-parse':
        return atg.replay_stmt_parse(rp)
    exp = [tuple(e) for e in rp['expected']]
    for a2, c2 in rp.get('prelude') or []:
        impl_expand(a2, c2)             # earlier calls of the run that found it (state they leave behind)
    if rp.get('prelude'):
        print('after %d earlier call(s), the last one expand(%r, %r):' % (len(rp['prelude']), rp['prelude'][-1][0], rp['prelude'][-1][1]))
    why, plain = CHECKERS.get(rp.get('mode'), check_case)(rp['abbr'], rp['config'], exp)
    print('expand(%r, %r) -> %r\nproperty oracle: %s' % (rp['abbr'], rp['config'], plain, why or 'holds'))
    return 1 if why else 0
