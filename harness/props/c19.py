"""C19 -- Math expressions evaluate to their arithmetic value.

Layers run here (see DESIGN.md section 1.2 and "C19"):
  * obligations: coq/props/C19.v (Print Assumptions per theorem);
  * tie: parse() RPN, evaluate() outcome and extract() ranges of the implementation are compared with the
    extracted Coq model (coq/run/MathRun.v) on the same generated inputs;
  * search: the property oracle of harness/math_util.py (an independent reference parser of the documented
    grammar with exact Fraction arithmetic, and the direct statement of the extract clause) runs on every case.
"""
import glob
import itertools
import json
import multiprocessing
import os
from fractions import Fraction

import common
from common import enc_str, Reader
import math_util as mu

# uniquely decodable token alphabets (every symbol starts with a different character)
ALPHA_FULL = ['2', '3', '0', '.5', '+', '-', '*', '/', '\\', '(', ')', ' ']
ALPHA_SMALL = ['2', '+', '-', '*', '(', ')']
ALPHA_DIV = ['6', '2', '0', '/', '\\', '*', '-']

BUILTIN_EVAL = [
    '', ' ', '1', ' 1', '1 ', '1+2', '1 + 2', '2 * 3 + 1', '-2 * 3 + 1', '2 * -3 + 1', '5 / 2', '5 \\ 2',
    '2 * (3 + 1)', '(3 * (1+2)) * 2', '3 * -(1 + 2)', '(1 + 2) * 3', 'a+b', '1/b', '(1 + 3',
    # repaired defects (kept here as well as in corpus/C19)
    '6/-2', '--6', '1+-+-2', '2--3', '1)', '(1))', '1)+(2', '1)(', '2 ) ( ) ( 2', '(1)(2)+', '(1)()(2)', '(2)(2)()',
    # number forms
    '.5', '1.', '1.5', '1..5', '.', '1.5.5', '1 .5', '0.25*4', '٣+1', '٣.٥*2', '1٣', '²',
    # nullary / parity
    '()', '(())', '2*()', '()+1', '+', '-', '+1', '++1', '-+1', '+()', '1+()', '()()', '(-)', '1+', '*1', '1**2',
    # precedence and chains
    '2*3/4', '8/4/2', '8/2*3', '7\\2\\2', '-2\\3', '1-2-3', '2-(-3)', '-(2)', '-(-2)', '2+3*4', '2*3+4', '2+3*4-5/2',
    '8/2/2*3/4', '2*3\\2', '7\\2*3', '7/2\\2', '-7\\2', '7\\-2', '1/0', '1\\0', '0/0', '1/(2-2)', '1/-0',
    '1\t+\t2', '1\xa0+\xa02', '1\n+2', '1e5', '0.1+0.2', '1/3', '((((1))))', '(((1)))+((2))',
]

# inputs whose failure is a recorded finding (float range, see known_findings.d/math.json)
PROBES = [
    ('evaluate:float-range:floor-of-inf', '9' * 309 + '\\1'),
    ('evaluate:float-range:floor-of-nan', '(' + '9' * 309 + '-' + '9' * 309 + ')\\1'),
    ('evaluate:float-range:int-too-large', '(' + '9' * 200 + '\\1)*(' + '9' * 200 + '\\1)+1'),
]

TEXT_ALPHA = list('0123456789') + list('..++--**//\\\\(((()))))') + list('    ') + ['\t', '\n', '\r', '\xa0', 'a', 'x', '=', ':',
                                                                                 '٣', '²', '$', ',']
EX_ALPHA = ['1', '.', '+', '(', ')', ' ', 'a']
EX_ALPHA_Q = ['1', '.', '+', '(', ')', ' ', 'a']


# ------------------------------------------------------------------ decoding of model results
def rd_big(r):
    sg = r.int()
    n = r.int()
    v = 0
    for i in range(n):
        v += r.int() << (30 * i)
    return -v if sg < 0 else v


def decode_parse(w):
    """('rpn', [(type, value, prio)]) | ('math',) | ('zerodiv',) | ('modelerr', w)."""
    r = Reader(w)
    tag = r.int()
    if tag == 1:
        k = r.int()
        return ('math',) if k == 3 else ('zerodiv',) if k == 4 else ('modelerr', w)
    if tag != 0:
        return ('modelerr', w)
    out = []
    for _ in range(r.int()):
        t = r.int()
        if t == 0:
            m = rd_big(r)
            k = r.int()
            out.append(('num', Fraction(m, 10 ** k), 0))
        elif t == 1:
            out.append(('op1', chr(r.int()), r.int()))
        elif t == 2:
            out.append(('op2', chr(r.int()), r.int()))
        else:
            out.append(('null', 0, 0))
    return ('rpn', out)


def decode_eval(w):
    """('val', Fraction) | ('none',) | ('math',) | ('zerodiv',) | ('modelerr', w)."""
    r = Reader(w)
    tag = r.int()
    if tag == 1:
        k = r.int()
        return ('math',) if k == 3 else ('zerodiv',) if k == 4 else ('modelerr', w)
    if tag != 0:
        return ('modelerr', w)
    if not r.int():
        return ('none',)
    n = rd_big(r)
    d = rd_big(r)
    return ('val', Fraction(n, d))


def to_float(q):
    try:
        return float(q)
    except OverflowError:
        return float('inf')


def canon_impl_rpn(rp):
    """Implementation parse() result -> list of (type, value, prio) with floats as they are."""
    if rp[0] != 'rpn':
        return rp
    out = []
    for t in rp[1]:
        if t.type == 'num':
            out.append(('num', t.value, t.priority))
        elif t.type in ('op1', 'op2'):
            out.append((t.type, t.value, t.priority))
        elif t.type == 'null':
            out.append(('null', t.value, t.priority))
        else:
            out.append(('?', repr(t.type), 0))
    return ('rpn', out)


def rpn_agree(impl, model):
    """Token lists agree: same types, operators and priorities; number values agree when the
    model's exact decimal, rounded to a float, is the implementation's float."""
    if impl[0] != model[0]:
        return False
    if impl[0] != 'rpn':
        return True
    a, b = impl[1], model[1]
    if len(a) != len(b):
        return False
    for x, y in zip(a, b):
        if x[0] != y[0] or x[2] != y[2]:
            return False
        if x[0] == 'num':
            if not isinstance(x[1], float) or to_float(y[1]) != x[1]:
                return False
        elif x[1] != y[1]:
            return False
    return True


def eval_agree(impl, model, rp, mp):
    """evaluate() outcomes agree.  Values are compared only when no float rounding can have
    happened (model literals exactly representable and the implementation's RPN exact)."""
    if model[0] in ('modelerr', 'none'):
        return False
    if impl[0] == 'internal':
        return False
    if (impl[0] == 'math') != (model[0] == 'math'):
        return False
    if impl[0] == 'math':
        return True
    exact = rp[0] == 'rpn' and mp[0] == 'rpn' and \
        all(t[0] != 'num' or Fraction(to_float(t[1])) == t[1] for t in mp[1]) and mu.rpn_exact(rp[1])
    if not exact:
        return True
    if impl[0] == 'zerodiv' or model[0] == 'zerodiv':
        return impl[0] == model[0]
    v = impl[1]
    if isinstance(v, bool) or not isinstance(v, (int, float)):
        return False
    return Fraction(v) == model[1]


# ------------------------------------------------------------------ workers (run in a process pool)
def _strings_of(spec):
    kind = spec[0]
    if kind == 'list':
        return spec[1]
    if kind == 'product':
        # all sequences over alpha of length k starting with the given prefix, except those already
        # enumerated for an earlier alphabet (`earlier` = [(set of symbols, max length)])
        _, alpha, k, prefix, earlier = spec
        rest = k - len(prefix)
        pre = ''.join(prefix)
        skip_sets = [a for (a, nmax) in earlier if k <= nmax]
        pset = set(prefix)
        out = []
        for t in itertools.product(alpha, repeat=rest):
            if skip_sets:
                ts = pset.union(t)
                if any(ts <= a for a in skip_sets):
                    continue
            out.append(pre + ''.join(t))
        return out
    raise ValueError(kind)


def decode_tokens(s, alpha):
    """Number of symbols when s is a concatenation of symbols of the prefix code alpha, else None."""
    n = 0
    i = 0
    while i < len(s):
        for a in alpha:
            if s.startswith(a, i):
                i += len(a)
                n += 1
                break
        else:
            return None
    return n


def eval_worker(arg):
    spec, exe, count_distinct = arg
    strings = _strings_of(spec)
    model = common.Model(exe)
    wp = model.run([[1] + enc_str(s) for s in strings], procs=1)
    we = model.run([[2] + enc_str(s) for s in strings], procs=1)
    st = {'n': 0, 'cover': {}, 'fail': [], 'dis': [], 'nontrivial': 0, 'nt_keys': [], 'samples': [],
          'values_compared': 0}
    cov = st['cover']

    def cover(k):
        cov[k] = cov.get(k, 0) + 1
    for s, a, b in zip(strings, wp, we):
        st['n'] += 1
        rp = mu.impl_parse(s)
        re_ = mu.impl_evaluate(s)
        rpn = rp[1] if rp[0] == 'rpn' else None
        bad = mu.evaluate_oracle(s, re_, rpn)
        if bad and len(st['fail']) < 20:
            st['fail'].append((s, bad, repr(re_)))
        elif bad:
            cover('oracle-failures-not-listed')
        e = mu.ref_parse(s)
        if e is None:
            cover('eval:malformed')
            nt = len(s) >= 2
        else:
            sz = mu.tree_size(e)
            cover('eval:wellformed:size%s' % (sz if sz < 8 else '8+'))
            if not mu.covered(e):
                cover('eval:wellformed:mixed-chain(not judged)')
            nt = sz >= 3
        cover('eval:impl:' + re_[0])
        if nt:
            if count_distinct:
                st['nontrivial'] += 1
            else:
                st['nt_keys'].append(hash(s))
        mp = decode_parse(a)
        me = decode_eval(b)
        ok1 = rpn_agree(canon_impl_rpn(rp), mp)
        ok2 = eval_agree(re_, me, rp, mp)
        if re_[0] == 'val' and me[0] == 'val' and rpn is not None and mu.rpn_exact(rpn):
            st['values_compared'] += 1
        if not (ok1 and ok2):
            cover('eval:disagreement')
            if len(st['dis']) < 20:
                st['dis'].append((s, repr(canon_impl_rpn(rp))[:300], repr(mp)[:300], repr(re_), repr(me), bool(bad)))
        if len(st['samples']) < 3 and nt and e is not None:
            st['samples'].append({'evaluate': s, 'impl': repr(re_), 'model': str(me[1]) if me[0] == 'val' else me[0]})
    return st


def norm_opts(opts):
    o = {'lookAhead': True, 'whitespace': True}
    if opts:
        o.update(opts)
    return bool(o['lookAhead']), bool(o['whitespace'])


def extract_worker(arg):
    spec, exe = arg
    kind = spec[0]
    if kind == 'list':
        cases = spec[1]
    else:   # ('exhaustive', alpha, k, prefix): all texts, all positions -2..len+2 and None, all 4 option sets
        _, alpha, k, prefix = spec
        cases = []
        for s in _strings_of(('product', alpha, k, prefix, [])):
            for pos in list(range(-2, len(s) + 3)) + [None]:
                for la in (True, False):
                    for ws in (True, False):
                        cases.append((s, pos, {'lookAhead': la, 'whitespace': ws}))
    model = common.Model(exe)
    wires = []
    for (t, p, o) in cases:
        la, ws = norm_opts(o)
        wires.append([3] + enc_str(t) + ([0] if p is None else [1, p]) + [1 if la else 0, 1 if ws else 0])
    outs = model.run(wires, procs=1)
    st = {'n': 0, 'cover': {}, 'fail': [], 'dis': [], 'nontrivial': 0, 'nt_keys': [], 'samples': []}
    cov = st['cover']
    for (t, p, o), w in zip(cases, outs):
        st['n'] += 1
        r = mu.impl_extract(t, p, o)
        bad = mu.extract_oracle(t, p, o, r)
        if bad and len(st['fail']) < 20:
            st['fail'].append((t, p, o, bad, repr(r)))
        m = ('none',) if w == [0] else ('range', (w[1], w[2])) if len(w) == 3 and w[0] == 1 else ('modelerr', w)
        k = 'extract:' + r[0]
        if r[0] == 'range':
            a, b = r[1]
            k += ':empty' if a == b else ':nonempty'
            if b > a:
                st['nt_keys'].append(hash((t, p, norm_opts(o))))
            if p is not None and isinstance(b, int) and b != p:
                cov['extract:look-ahead-moved-end'] = cov.get('extract:look-ahead-moved-end', 0) + 1
        cov[k] = cov.get(k, 0) + 1
        if p is not None and (p < 0 or p > len(t)):
            cov['extract:pos-out-of-range'] = cov.get('extract:pos-out-of-range', 0) + 1
        if m != r:
            cov['extract:disagreement'] = cov.get('extract:disagreement', 0) + 1
            if len(st['dis']) < 20:
                st['dis'].append((t, p, o, repr(r), repr(m), bool(bad)))
        if len(st['samples']) < 2 and r[0] == 'range' and r[1][1] > r[1][0] + 2:
            st['samples'].append({'extract': [t, p, o], 'impl': list(r[1])})
    return st


# ------------------------------------------------------------------ generators
def rand_number(rng):
    r = rng.random()
    if r < 0.55:
        return str(rng.randint(0, 12))
    if r < 0.7:
        return rng.choice(['0.5', '.5', '1.5', '.25', '2.75', '0.125', '10', '100', '64', '1024'])
    if r < 0.8:
        return rng.choice(['0', '0.0', '.0', '00'])
    if r < 0.9:
        return '%d.%d' % (rng.randint(0, 99), rng.randint(0, 999))
    if r < 0.95:
        return ''.join(rng.choice('٠١٢٣٤۵１') for _ in range(rng.randint(1, 2)))
    return str(rng.randint(0, 999999))


def rand_expr(rng, depth):
    """A well-formed expression of the documented grammar (mostly)."""
    def sp():
        return rng.choice(['', '', '', ' ', ' ', '  ', '\t', '\xa0'])

    def prim(d):
        r = rng.random()
        if d <= 0 or r < 0.55:
            return rand_number(rng)
        return '(' + sp() + e0(d - 1) + sp() + ')'

    def e2(d):
        signs = ''
        while rng.random() < 0.25:
            signs += rng.choice('--+') + sp()
        return signs + prim(d)

    def e1(d):
        s = e2(d)
        mode = rng.random()
        while rng.random() < 0.4:
            if mode < 0.45:
                o = rng.choice('*/')
            elif mode < 0.7:
                o = '\\'
            else:
                o = rng.choice('*/\\')
            s += sp() + o + sp() + e2(d)
        return s

    def e0(d):
        s = e1(d)
        while rng.random() < 0.45:
            s += sp() + rng.choice('+-') + sp() + e1(d)
        return s
    return sp() + e0(depth)


def mutate(rng, s):
    """Damage a string: delete / insert / replace / swap / duplicate a character."""
    if not s:
        return rng.choice(TEXT_ALPHA)
    i = rng.randrange(len(s))
    r = rng.random()
    pool = '()+-*/\\. 0123456789'
    if r < 0.3:
        return s[:i] + s[i + 1:]
    if r < 0.6:
        return s[:i] + rng.choice(pool) + s[i:]
    if r < 0.8:
        return s[:i] + rng.choice(pool + 'a$²\n') + s[i + 1:]
    if r < 0.9 and i + 1 < len(s):
        return s[:i] + s[i + 1] + s[i] + s[i + 2:]
    return s[:i] + s[i] + s[i:]


def gen_eval_random(ctx, n):
    rng = ctx.rng
    out = []
    for _ in range(n):
        r = rng.random()
        if r < 0.55:
            s = rand_expr(rng, rng.randint(0, 4))
        elif r < 0.8:
            s = rand_expr(rng, rng.randint(0, 3))
            for _ in range(rng.randint(1, 3)):
                s = mutate(rng, s)
        elif r < 0.92:
            toks = ['1', '2', '10', '.5', '3.25', '0', '+', '-', '*', '/', '\\', '(', ')', ' ', '-', '(', ')']
            s = ''.join(rng.choice(toks) for _ in range(rng.randint(1, 14)))
        else:
            s = ''.join(rng.choice(TEXT_ALPHA) for _ in range(rng.randint(0, 24)))
        if len(s) <= 200:
            out.append(s)
    return out


def gen_extract_random(ctx, n):
    rng = ctx.rng
    out = []
    for _ in range(n):
        r = rng.random()
        if r < 0.4:
            t = ''.join(rng.choice(TEXT_ALPHA) for _ in range(rng.randint(0, 40)))
        else:
            pre = ''.join(rng.choice(['foo', ' ', 'a', ':', '=', '(', 'x1', '.', '\n', ')', '1.2.']) for _ in range(rng.randint(0, 3)))
            mid = rand_expr(rng, rng.randint(0, 3))
            if rng.random() < 0.3:
                mid = mutate(rng, mid)
            post = ''.join(rng.choice([')', ')', ' ', '\n', ' )', 'x', ';', '+', '1', '\t)']) for _ in range(rng.randint(0, 4)))
            t = pre + mid + post
        q = rng.random()
        if q < 0.15:
            p = None
        elif q < 0.25:
            p = rng.choice([-3, -2, -1, len(t) + 1, len(t) + 2, len(t) + 7])
        elif q < 0.45:
            p = len(t)
        else:
            p = rng.randint(0, len(t))
        u = rng.random()
        if u < 0.25:
            o = None
        elif u < 0.85:
            o = {}
            if rng.random() < 0.7:
                o['lookAhead'] = rng.random() < 0.6
            if rng.random() < 0.7:
                o['whitespace'] = rng.random() < 0.6
        else:
            o = {'lookAhead': rng.choice([None, 0, 1, 'x', '']), 'whitespace': rng.choice([None, 0, 1, 'x', ''])}
        out.append((t, p, o))
    return out


def load_corpus():
    ev, ex = [], []
    d = os.path.join(common.VERIF, 'corpus', 'C19')
    for path in sorted(glob.glob(os.path.join(d, '*.json'))):
        with open(path, encoding='utf-8') as f:
            obj = json.load(f)
        if obj.get('component') == 'extract':
            ex.append((obj['text'], obj.get('pos'), obj.get('options')))
        else:
            ev.append(obj['input'])
    return ev, ex


def shrink_string(s, fails):
    """Greedy delta debugging: drop characters while the failure persists."""
    changed = True
    while changed and len(s) > 1:
        changed = False
        for i in range(len(s)):
            t = s[:i] + s[i + 1:]
            if fails(t):
                s = t
                changed = True
                break
    return s


def eval_fails(s):
    rp = mu.impl_parse(s)
    return mu.evaluate_oracle(s, mu.impl_evaluate(s), rp[1] if rp[0] == 'rpn' else None)


# ------------------------------------------------------------------ run
def chunks(l, n):
    return [l[i:i + n] for i in range(0, len(l), n)]


def merge(ctx, st, prefix_cov=True):
    for k, v in st['cover'].items():
        ctx.cover(k, v)
    ctx.count_eval(st['n'])
    ctx.cov['distinct_nontrivial'] += st['nontrivial']
    for h in st['nt_keys']:
        ctx.nontrivial(h)
    for smp in st['samples']:
        ctx.sample(smp, limit=10)


def run(ctx):
    thorough = ctx.tier == 'thorough'
    ok = ctx.build(['props/C19.vo', 'run/MathRun.vo'])
    if ok:
        ctx.obligations('props/C19.v')
    model = ctx.model('math') if ok else None
    exe = model.exe if model is not None else None

    n_full = 6 if thorough else 5
    n_small = 9 if thorough else 7
    n_div = 7 if thorough else 5
    n_ex = 6 if thorough else 4
    ctx.cov['rule'] = (
        'evaluate/parse: corpus + built-in edge cases; EXHAUSTIVE token sequences: length <= %d over %r, length <= %d over %r, '
        'length <= %d over %r; random grammar-based expressions (depth <= 4, unicode digits, white space), mutated ones, '
        'token soups and arbitrary character strings. extract: EXHAUSTIVE texts of length <= %d over %r x every position '
        '-2..len+2 and None x 4 option sets; random texts/positions/options (incl. out-of-range positions, non-bool '
        'option values). A case is non-trivial when (evaluate) the reference grammar accepts it with a tree of >= 3 '
        'nodes or it is malformed with >= 2 characters, (extract) a non-empty range is returned; distinct by input.'
        % (n_full, ALPHA_FULL, n_small, ALPHA_SMALL, n_div, ALPHA_DIV, n_ex, EX_ALPHA))
    if exe is None:
        # the model cannot be built: still run the property oracle on the implementation
        _oracle_only(ctx)
        return

    c_ev, c_ex = load_corpus()
    ev_specs = [(('list', c_ev + BUILTIN_EVAL), exe, False)]
    seen_alpha = []
    for alpha, nmax in ((ALPHA_FULL, n_full), (ALPHA_SMALL, n_small), (ALPHA_DIV, n_div)):
        for k in range(0, nmax + 1):
            # split long enumerations by prefix so that the pool has work units of <= ~150k strings
            plen = 0
            while len(alpha) ** (k - plen) > 150000 and plen < k:
                plen += 1
            for prefix in itertools.product(alpha, repeat=plen):
                ev_specs.append((('product', alpha, k, prefix, list(seen_alpha)), exe, True))
        seen_alpha.append((set(alpha), nmax))
    n_rand = 250000 if thorough else 20000
    rnd = gen_eval_random(ctx, n_rand)
    # distinct, order kept; drop what the exhaustive enumerations already contain
    def enumerated(x):
        for alpha, nmax in ((ALPHA_FULL, n_full), (ALPHA_SMALL, n_small), (ALPHA_DIV, n_div)):
            n = decode_tokens(x, alpha)
            if n is not None and n <= nmax:
                return True
        return False
    rnd = [x for x in dict.fromkeys(rnd) if not enumerated(x)]
    for ch in chunks(rnd, 5000):
        ev_specs.append((('list', ch), exe, False))

    ex_specs = [(('list', c_ex + [(s, None, None) for s in ['1', '10', '0.1', '.1', 'foo123', '.1.2.3', '1.2.3',
                                                            'foo2 * (3 + 1)', 'bar.(2 * (3 + 1))', 'test: 1+2']] +
                  [('foo2 * (3 + 1)', 13, None), ('bar.(2 * (3 + 1))', 15, None), ('bar.(2 * (3 + 1) )', 15, None),
                   ('a  1', 2, None), ('1+2', 4, None), (' 1)', -1, None), ('', -1, None)]), exe)]
    for k in range(0, n_ex + 1):
        plen = 0
        while len(EX_ALPHA) ** (k - plen) * (k + 6) * 4 > 200000 and plen < k:
            plen += 1
        for prefix in itertools.product(EX_ALPHA, repeat=plen):
            ex_specs.append((('exhaustive', EX_ALPHA, k, prefix), exe))
    n_rand_ex = 200000 if thorough else 20000
    for ch in chunks(gen_extract_random(ctx, n_rand_ex), 5000):
        ex_specs.append((('list', ch), exe))

    with multiprocessing.Pool(common.NPROC) as pool:
        ev_res = pool.map(eval_worker, ev_specs, chunksize=1)
        ex_res = pool.map(extract_worker, ex_specs, chunksize=1)

    # ---- evaluate / parse
    n_cases = n_dis = 0
    values_compared = 0
    for st in ev_res:
        merge(ctx, st)
        n_cases += st['n']
        values_compared += st['values_compared']
        for (s, bad, r) in st['fail']:
            s2 = shrink_string(s, eval_fails) if len(s) > 6 else s
            bad2 = eval_fails(s2) or bad
            ctx.property_failure('evaluate:' + s2, 'evaluate(%r): %s' % (s2, bad2),
                                 {'component': 'evaluate', 'input': s2, 'found_as': s, 'why': bad2})
        for (s, ir, mr, ie, me, has_bad) in st['dis']:
            n_dis += 1
            if n_dis <= 5:
                ctx.say('DISAGREE math %r\n  impl  parse %s evaluate %s\n  model parse %s evaluate %s' % (s, ir, ie, mr, me))
            if not has_bad:
                ctx.broken.append({'kind': 'correspondence', 'file': 'math-evaluate', 'input': s,
                                   'impl': (ir + ' / ' + ie)[:400], 'model': (mr + ' / ' + me)[:400]})
    n_dis_total = sum(st['cover'].get('eval:disagreement', 0) for st in ev_res)
    ctx.cov['correspondence']['math_parse_evaluate'] = {'cases': n_cases, 'disagreements': n_dis_total,
                                                       'values_compared_exactly': values_compared}
    # ---- extract
    n_cases = 0
    n_dis = 0
    for st in ex_res:
        merge(ctx, st)
        n_cases += st['n']
        for (t, p, o, bad, r) in st['fail']:
            ctx.property_failure('extract:%r' % ((t, p, norm_opts(o)),), 'extract(%r, %r, %r) -> %s: %s' % (t, p, o, r, bad),
                                 {'component': 'extract', 'text': t, 'pos': p, 'options': o, 'why': bad})
        for (t, p, o, ir, mr, has_bad) in st['dis']:
            n_dis += 1
            if n_dis <= 5:
                ctx.say('DISAGREE math extract(%r, %r, %r)\n  impl  %s\n  model %s' % (t, p, o, ir, mr))
            if not has_bad:
                ctx.broken.append({'kind': 'correspondence', 'file': 'math-extract', 'input': repr((t, p, o)),
                                   'impl': ir, 'model': mr})
    n_dis_total = sum(st['cover'].get('extract:disagreement', 0) for st in ex_res)
    ctx.cov['correspondence']['math_extract'] = {'cases': n_cases, 'disagreements': n_dis_total}
    ctx.cov['exhaustive_bounds'] = {'evaluate_token_sequences': [[a, n] for a, n in ((ALPHA_FULL, n_full), (ALPHA_SMALL, n_small), (ALPHA_DIV, n_div))],
                                    'extract_texts': [EX_ALPHA, n_ex]}
    _probes(ctx)
    ctx.assumptions += [
        'numbers are exact rationals in the model and the theorems; float rounding, overflow and underflow of the '
        'implementation are outside them (values are compared only when the implementation RPN evaluates without rounding)',
        'trailing white space is rejected by the implementation (as by upstream Emmet) and is treated as malformed',
    ]


def _probes(ctx):
    stale = []
    for key, s in PROBES:
        ctx.count_eval()
        r = mu.impl_evaluate(s)
        if r[0] == 'internal':
            ctx.property_failure(key, 'evaluate of a %d-character expression beyond the float range raises %s' % (len(s), r[1]),
                                 {'component': 'evaluate', 'input': s, 'why': 'raises ' + r[1]})
        else:
            stale.append(key)
    if stale:
        ctx.cov['stale_known_findings'] = stale


def _oracle_only(ctx):
    c_ev, c_ex = load_corpus()
    cases = c_ev + BUILTIN_EVAL + [''.join(t) for k in range(0, 5) for t in itertools.product(ALPHA_FULL, repeat=k)] + \
        gen_eval_random(ctx, 20000)
    for s in cases:
        ctx.count_eval()
        bad = eval_fails(s)
        if bad:
            ctx.property_failure('evaluate:' + s, 'evaluate(%r): %s' % (s, bad), {'component': 'evaluate', 'input': s, 'why': bad})
    for (t, p, o) in c_ex + gen_extract_random(ctx, 20000):
        ctx.count_eval()
        r = mu.impl_extract(t, p, o)
        bad = mu.extract_oracle(t, p, o, r)
        if bad:
            ctx.property_failure('extract:%r' % ((t, p, norm_opts(o)),), 'extract(%r, %r, %r) -> %s: %s' % (t, p, o, r, bad),
                                 {'component': 'extract', 'text': t, 'pos': p, 'options': o, 'why': bad})
    _probes(ctx)


def replay(ctx, obj):
    rp = obj.get('replay', obj)
    comp = rp.get('component')
    if comp == 'evaluate' and 'input' in rp:
        s = rp['input']
        r = mu.impl_evaluate(s)
        p = mu.impl_parse(s)
        bad = mu.evaluate_oracle(s, r, p[1] if p[0] == 'rpn' else None)
        print('evaluate(%r) -> %r : %s' % (s if len(s) < 80 else s[:77] + '...', r, bad or 'property holds'))
        return 1 if bad else 0
    if comp == 'extract' and 'text' in rp:
        t, p, o = rp['text'], rp.get('pos'), rp.get('options')
        r = mu.impl_extract(t, p, o)
        bad = mu.extract_oracle(t, p, o, r)
        print('extract(%r, %r, %r) -> %r : %s' % (t, p, o, r, bad or 'property holds'))
        return 1 if bad else 0
    print('replay names a broken obligation, no input: %s' % json.dumps(rp)[:500])
    return 1
