"""C13 -- Tabstops are numbered in document order and reported positions are exact."""
import copy
import glob
import json
import os
import re

import abbr_gen as g
import format_util as fu
import css_stream_util as cu
import style_util as su
from markup_util import run_cases, canon_cfg, classify_exc

HERE = os.path.dirname(os.path.abspath(__file__))
CORPUS = os.path.join(os.path.dirname(os.path.dirname(HERE)), 'corpus', 'C13')

NEWLINES = ['\n', '\n', '\r\n', '\r', '', '~~']
FIELD_RE = re.compile(r'\$\{(\d+)')
BOOLEAN_NAMES = {'disabled', 'checked', 'hidden'}


# ---------------------------------------------------------------- expected tabstop structure (from the AST)
def value_fields(v):
    return [int(n) for n in FIELD_RE.findall(v)]


def expected_groups(tree, out):
    """Document-order list of field groups, one per value that produces tabstops: the explicit
    indices of the value, or [0] for an empty attribute value / empty leaf.  None when the tree
    uses something this independent reading does not cover."""
    for name, el, cs, kids in tree:
        seen = set()
        for n, v, q in el.attrs:
            base = n.rstrip('.')
            if base in seen or base in ('class', 'id'):
                return None
            seen.add(base)
            if n.endswith('.') or (base in BOOLEAN_NAMES and v is None):
                if v is None:
                    continue
            if v is None or v == '':
                out.append([0])
            else:
                f = value_fields(v)
                if f:
                    out.append(f)
        if el.text is not None:
            f = value_fields(el.text)
            if f and kids:
                # html formatter: the children are written in place of the FIRST field of the text (documented for
                # snippets such as cc:ie); the fields after it belong to the same value (relative numbering kept)
                # and, like every value, must not share numbers with the tabstops of the children
                if expected_groups(kids, out) is None:
                    return None
                if len(f) > 1:
                    out.append(f[1:])
                continue
            if f:
                out.append(f)
        elif not kids and not el.self_close:
            out.append([0])
        if kids:
            if expected_groups(kids, out) is None:
                return None
    return out


_FIELD_SNIPPETS = {}


def uses_field_snippet(abbr, cfg):
    """Does the abbreviation name a snippet whose definition carries explicit fields (e.g.
    `input` = input[type=${1:text}])?  Then it is not an abbreviation without explicit fields."""
    from emmet.config import Config
    syn = cfg.get('syntax', 'html')
    if syn not in _FIELD_SNIPPETS:
        sn = Config({'syntax': syn}).snippets
        _FIELD_SNIPPETS[syn] = {k for k, v in sn.items() if isinstance(v, str) and re.search(r'\$\{\d', v)}
    words = set(re.findall(r'[A-Za-z!][\w:!\-]*', abbr))
    return bool(words & _FIELD_SNIPPETS[syn])


def fields_of(events):
    return [e[1] for e in events if e[0] == 'field']


def check_groups(emitted, groups):
    flat = sum(len(x) for x in groups)
    if len(emitted) != flat:
        return 'expected %d tabstops (%r), %d emitted (%r)' % (flat, groups[:8], len(emitted), emitted[:12])
    k = 0
    prev_max = 0
    for gi, grp in enumerate(groups):
        em = emitted[k:k + len(grp)]
        k += len(grp)
        for j in range(1, len(grp)):
            if em[j] - em[0] != grp[j] - grp[0]:
                return 'value %d: fields %r were emitted as %r: relative numbering changed' % (gi, grp, em)
        if min(em) <= prev_max:
            return 'value %d: emitted indices %r collide with / do not follow the earlier ones (max so far %d)' % (gi, em, prev_max)
        prev_max = max(em)
    return None


def oracle(abbr, cfg, meta, r):
    """positions exact for every callback; tabstops 1..k in document order; explicit fields
    keep relative numbering inside a value and never collide across values."""
    if r[0] == 'hang':
        return 'expand did not return within %s s' % r[1]
    if r[0] != 'ok':
        return None                  # parse errors etc. are C07's business
    final, events = r[1], r[2]
    o = fu.resolved_options(cfg)
    bad = fu.positions_check(final, events, o['output.newline'])
    if bad:
        return bad
    if meta is None:
        return None
    emitted = fields_of(events)
    if not meta.get('explicit') and not uses_field_snippet(abbr, cfg):
        if emitted != list(range(1, len(emitted) + 1)):
            return 'tabstops are not 1..k in document order: %r' % (emitted[:20],)
        if meta.get('countable'):
            style_html = o['output.selfClosingStyle'] == 'html'
            if not (o.get('output.compactBoolean') and not style_html) and not (style_html and '/' in abbr):
                nl = o['output.newline']
                k = fu.count_tabstop_sites(final.replace(nl, '\n') if nl.strip() else final)
                if k != len(emitted):
                    return '%d empty attribute values / empty leaves in the output, %d tabstops emitted (%r)' % (
                        k, len(emitted), emitted[:12])
    if '{' not in abbr and not uses_field_snippet(abbr, cfg) and not (o.get('output.compactBoolean') and o['output.selfClosingStyle'] != 'html'):
        # (compact boolean attributes are written name="" outside the html style: not an empty VALUE)
        # every empty attribute value of the result holds a tabstop: a field callback writes (its empty placeholder)
        # exactly between the two delimiters -- in every syntax, also for a value written as `[title=""]`
        field_offsets = set(e[3] for e in events if e[0] == 'field')
        for m in fu.EMPTY_ATTR_RE.finditer(final):
            if m.start() + 2 not in field_offsets:
                return 'the empty attribute value at offset %d (%r) has no tabstop' % (m.start(), final[max(0, m.start() - 12):m.end()])
    if meta.get('distinct') and len(set(emitted)) != len(emitted):
        return 'tabstops of different values collide: field indices in document order are %r' % (emitted[:20],)
    groups = meta.get('groups')
    if groups is not None:
        return check_groups(emitted, groups)
    return None


# ---------------------------------------------------------------- stylesheet side (implementation only)
CSS_PARTS = ['p10', 'm10-20', 'm', 'p', 'bd1-s#f', 'c#f00', 'pos:a', 'd:n', 'fz12', 'lh1.5', 'bgc', 'w100p', 'bdrs10',
             'trf:r', 'ov:h', 'fl:l', 'm-a', 'bg', 'bgi', 'c', 'op', 'zi10', 'ff:a', 'tt:u', 'fw:b', 'mt${1:x}', 'p!',
             'foo:bar', 'bxsh', 'trs', '@m', 'anim', 'gtc', 'cont"a\nb"', "ff'x\r\ny z'", 'cont"one\n\ntwo"']


def impl_style_events(abbr, cfg):
    from emmet import expand
    uc = copy.deepcopy(cfg)
    events = []

    def field(index, placeholder, offset=None, line=None, column=None, **kw):
        events.append(('field', index, placeholder, offset, line, column))
        return placeholder

    def text(t, offset=None, line=None, column=None, **kw):
        events.append(('text', t, offset, line, column))
        return t
    uc.setdefault('options', {})
    uc['options']['output.field'] = field
    uc['options']['output.text'] = text
    from common import Hang
    from markup_util import _limited_call, CALL_LIMIT_S

    def call():
        del events[:]
        return expand(abbr, copy.deepcopy(uc))
    try:
        # wall-clock limit; when it fires on a loaded machine the call is repeated once under a CPU-time limit
        return ('ok', _limited_call(call), events)
    except Hang:
        return ('hang', CALL_LIMIT_S)
    except Exception as e:  # noqa
        return classify_exc(e)


def impl_events_rewriting(abbr, cfg):
    """Callbacks that do NOT return what they are given: fields become editor tabstops
    `${index:placeholder}`, text is HTML-escaped.  The recorded string is the returned one."""
    from emmet import expand
    from common import Hang
    from markup_util import _limited_call, CALL_LIMIT_S
    uc = copy.deepcopy(cfg)
    events = []

    def field(index, placeholder, offset=None, line=None, column=None, **kw):
        ret = '${%d:%s}' % (index, placeholder) if placeholder else '${%d}' % index
        events.append(('field', index, ret, offset, line, column))
        return ret

    def text(t, offset=None, line=None, column=None, **kw):
        ret = t.replace('&', '&amp;').replace('<', '&lt;')
        events.append(('text', ret, offset, line, column))
        return ret
    uc.setdefault('options', {})
    uc['options'] = dict(uc['options'])
    uc['options']['output.field'] = field
    uc['options']['output.text'] = text
    def call():
        del events[:]
        return expand(abbr, copy.deepcopy(uc))
    try:
        return ('ok', _limited_call(call), events)
    except Hang:
        return ('hang', CALL_LIMIT_S)
    except Exception as e:  # noqa
        return classify_exc(e)


def style_cases(rng, n):
    out = []
    for _ in range(n):
        abbr = '+'.join(rng.choice(CSS_PARTS) for _ in range(rng.randint(1, 5)))
        o = {}
        if rng.random() < 0.7:
            o['output.newline'] = rng.choice(NEWLINES)
        if rng.random() < 0.4:
            o['output.baseIndent'] = rng.choice(['', '  ', '\t'])
        if rng.random() < 0.4:
            o['output.indent'] = rng.choice(['\t', '  ', ''])
        if rng.random() < 0.3:
            o['stylesheet.between'] = rng.choice([':', ': ', ' : '])
        if rng.random() < 0.2:
            o['stylesheet.after'] = rng.choice(['', ';', ' ;'])
        if rng.random() < 0.15:
            o['stylesheet.json'] = True
        out.append((abbr, {'type': 'stylesheet', 'syntax': rng.choice(fu.STYLE_SYNTAXES), 'options': o}))
    return out


# ---------------------------------------------------------------- cases
FIXED = [
    ('a[title=${1:x\ny}]', {}),
    ('a[title=${1:x\ny}]>b', {'options': {'output.newline': '\r\n', 'output.baseIndent': '  '}}),
    ('div>p{${2:two\nlines} and ${1}}+img', {'options': {'output.baseIndent': '\t'}}),
    ('ul>li*3', {}),
    ('a+img+input[title]', {}),
    ('p{${1} a ${2} b ${3}}>x', {}),
    ('div[a=${3}${1} b=${1:q}]{${2:w}}', {}),
    ('div>{a\nb}+p{x ${2:u} ${1}}', {'options': {'output.newline': '\r\n'}}),
    ('ul>li.item$*2>a{t$ ${1:ph}}', {'syntax': 'pug'}),
    ('div.c[title]{a\nb}>p', {'syntax': 'haml', 'options': {'output.baseIndent': '  '}}),
    ('table>tr>td[title= colspan]', {'syntax': 'slim'}),
    # comments on: the id/class text repeated inside the comment takes part in the one document-order numbering
    ('div[class="foo ${1:bar}"]>p', {'options': {'comment.enabled': True}}),
    ('section#s${1:x}.c>p+a[href]', {'options': {'comment.enabled': True, 'comment.before': '<!-- [#ID] -->'}}),
    ('ul.l${2:m}${1:n}>li.i*2', {'options': {'comment.enabled': True, 'comment.after': '<!-- /[.CLASS] [#ID] -->'}}),
    ('p[title=""]', {'syntax': 'pug'}), ("a[href='' title]+b[t={}]", {'syntax': 'haml'}), ('p[title=""]>a[href=""]', {'syntax': 'slim'}),
    ('p[title=""]+a[href=\'\']', {}), ('input[value="" disabled.]', {'syntax': 'pug'}),
    # indent syntaxes: the fields of a value that spans several lines are numbered from one base (repaired 411dee1)
    ('div{a${2}\nb${1}}+p', {'syntax': 'pug'}), ('div{a${2}\nb${1}}+p{${1}}', {'syntax': 'haml'}),
    ('p{x${3}\n${1}\ny${2}}+a[href]', {'syntax': 'slim'}),
]


INDENT_TEXTS = ['a${2}\nb${1}', 'x ${1:p} y\n${3}\nz ${2:q}', '${2}${1}', 'one\ntwo ${1}', '${1:a\nb} c\n${2}', 'l1\nl2\nl3',
                '${3} ${1}\n\n${2}', 't ${1}', 'plain', '\n${2}\n${1}', '${1}\r\n${2}\r${3}']


def indent_text_cases(rng, n):
    """pug/haml/slim: elements whose text spans several lines with explicit fields on different lines, followed
    by further elements with fields; expected group structure built alongside (one group per value / empty leaf)."""
    out = []
    for _ in range(n):
        groups = []

        def elem(depth):
            name = rng.choice(['div', 'p', 'span', 'section', 'em'])
            r = rng.random()
            if r < 0.6:
                t = rng.choice(INDENT_TEXTS)
                f = value_fields(t)
                if f:
                    groups.append(f)
                return '%s{%s}' % (name, t)
            if r < 0.8 and depth < 2:
                return '%s>%s' % (name, seq(depth + 1))
            groups.append([0])
            return name

        def seq(depth):
            parts = [elem(depth) for _ in range(rng.randint(1, 3))]
            s = '+'.join(parts[:-1] + [parts[-1]]) if depth else None
            if depth:
                return '(%s)' % s if len(parts) > 1 else s
            return '+'.join('(%s)' % q if '>' in q else q for q in parts)
        abbr = seq(0)
        cfg = fu.rand_base(rng, fu.INDENT_SYNTAXES)
        cfg = fu.with_options(cfg, {'output.newline': rng.choice(NEWLINES), 'output.indent': rng.choice(['\t', '  ', '']),
                                    'output.baseIndent': rng.choice(['', '', ' ', '\t\t'])})
        cfg = bem_layer(rng, cfg, 0.1, abbr)
        out.append((abbr, cfg, {'explicit': True, 'groups': groups, 'distinct': True}))
    return out


# ---------------------------------------------------------------- values with several fields x children with several tabstops
# A text value that has child elements: text-only nodes `{...}>kids` (what conditional-comment style snippets are made of)
# and elements with text `p{...}>kids`, the text holding 0..4 explicit fields with pairwise different indices anywhere in
# it, the children a `+` sequence producing 0..many tabstops of their own (empty leaves, empty / explicit-field attribute
# values, texts with fields, self-closed leaves, groups, repeats, nested values of the same kind), the whole thing below a
# parent, between siblings and repeated.  Expected group structure is built alongside from what the property says:
#   html family   - the children stand in place of the FIRST field of the text (documented behaviour of the html
#                   formatter: "output children as a content of first field"); the remaining fields of the value keep their
#                   relative numbering and do not share numbers with any tabstop of the children or of earlier values;
#   pug/haml/slim - the value is written whole before the children.
SPLIT_VALUES_ON = True
SPLIT_NAMES = ['div', 'p', 'span', 'section', 'em', 'b', 'q', 'u', 'custom', 'main', 'nav', 'x-y']
SPLIT_LITERALS = ['', '', 'x', 'a ', ' b ', ' - ', 'w\n', '\n  t', 'one two', '<!-- ', ' -->', '\r\nz']
SPLIT_PLACEHOLDERS = ['', '', '', 'ph', 'note', 'two\nl']


def split_text(rng, nfields):
    idx = rng.sample(range(0, 7), nfields)
    parts = [rng.choice(SPLIT_LITERALS)]
    for i in idx:
        ph = rng.choice(SPLIT_PLACEHOLDERS)
        parts.append('${%d:%s}' % (i, ph) if ph else '${%d}' % i)
        parts.append(rng.choice(SPLIT_LITERALS))
    t = ''.join(parts)
    return (t or 'x'), idx


def split_node(rng, depth, html, force_kids=False):
    """(abbreviation, groups, has_child_operator) of one value-with-children node."""
    kind = rng.choice(['text', 'text', 'el', 'el', 'elattr'])
    text, fields = split_text(rng, rng.choice([0, 1, 2, 2, 2, 3, 3, 4]))
    groups = []
    head = ''
    if kind != 'text':
        head = rng.choice(SPLIT_NAMES)
    if kind == 'elattr':
        a, ag = rng.choice([('[title]', [[0]]), ('[data-f=${3}${1:v}]', [[3, 1]]), ('[title="" data-v=v]', [[0]]),
                            ('[data-v="v"]', [])])
        head += a
        groups += ag
    rep = rng.choice([2, 3]) if head and rng.random() < 0.12 else None
    has_kids = force_kids or rng.random() < 0.85
    kids, kg = split_kids(rng, depth + 1, html) if has_kids else ('', [])
    if html and has_kids and fields:
        groups += kg
        if len(fields) > 1:
            groups.append(fields[1:])
    else:
        if fields:
            groups.append(fields)
        groups += kg
    abbr = '%s{%s}' % (head, text)
    if rep:
        abbr += '*%d' % rep
        groups = groups * rep
    if has_kids:
        abbr += '>' + kids
    return abbr, groups, has_kids


def split_unit(rng, depth, html):
    """(abbreviation, groups, has_child_operator) of one unit of a `+` sequence."""
    r = rng.random()
    name = rng.choice(SPLIT_NAMES)
    if r < 0.30:
        n = rng.choice([None, None, 2, 3])
        return (name + ('*%d' % n if n else ''), [[0]] * (n or 1), False)
    if r < 0.42:
        a, ag = rng.choice([('[href title]', [[0], [0]]), ('[title=""]', [[0]]), ("[alt='' data-v=v]", [[0]])])
        return (name + a, ag + [[0]], False)
    if r < 0.50:
        return (name + '[data-f=u${2:w}${1}]', [[2, 1], [0]], False)
    if r < 0.58:
        return (name + '{t}', [], False)
    if r < 0.66:
        t, f = split_text(rng, rng.choice([1, 2, 3]))
        return ('%s{%s}' % (name, t), [f], False)
    if r < 0.72:
        return (name + '/', [], False)
    if r < 0.84 and depth < 3:
        inner, ig = split_kids(rng, depth + 1, html)
        n = rng.choice([None, None, 2])
        return ('(%s)%s' % (inner, '*%d' % n if n else ''), ig * (n or 1), False)
    if r < 0.92 and depth < 3:
        inner, ig = split_kids(rng, depth + 1, html)
        return ('%s>%s' % (name, inner), ig, True)
    if depth < 3:
        return split_node(rng, depth, html)
    return (name, [[0]], False)


def split_kids(rng, depth, html):
    """(abbreviation, groups) of a `+` sequence of 1..4 units; a unit that uses `>` and is not the last is grouped."""
    units = [split_unit(rng, depth, html) for _ in range(rng.choice([1, 2, 2, 3, 3, 4]))]
    parts = []
    groups = []
    for k, (a, gr, nests) in enumerate(units):
        parts.append('(%s)' % a if nests and k < len(units) - 1 else a)
        groups += gr
    return '+'.join(parts), groups


def split_value_cases(rng, n):
    out = []
    for _ in range(n):
        html = rng.random() < 0.75
        node, groups, nests = split_node(rng, 0, html, force_kids=rng.random() < 0.9)
        r = rng.random()
        if r < 0.35:
            abbr = node
        elif r < 0.5:                                   # below a parent
            abbr = '%s>%s' % (rng.choice(SPLIT_NAMES), node)
        elif r < 0.7:                                   # after siblings that take tabstops
            pre, pg = split_kids(rng, 2, html)
            abbr = '%s+%s' % (pre if '>' not in pre else '(%s)' % pre, node)
            groups = pg + groups
        elif r < 0.85:                                  # before siblings
            post, pg = split_kids(rng, 2, html)
            abbr = '(%s)+%s' % (node, post)
            groups = groups + pg
        else:                                           # repeated as a group
            k = rng.choice([2, 3])
            abbr = '(%s)*%d' % (node, k)
            groups = groups * k
        syn = rng.choice(fu.HTML_SYNTAXES if html else fu.INDENT_SYNTAXES)
        cfg = fu.rand_base(rng, [syn])
        cfg['options'].pop('output.reverseAttributes', None)
        cos = fu.rand_cosmetic(rng, SPLIT_NAMES[:6])
        cos['output.newline'] = rng.choice(NEWLINES)
        cfg = bem_layer(rng, fu.with_options(cfg, cos), 0.1, abbr)
        out.append((abbr, cfg, {'explicit': True, 'groups': groups, 'distinct': True, 'split': True}))
    return out


def split_value_grid():
    """Small complete grid of the same class: 2 or 3 fields with indices from {0,1,2} in every order x children taking
    1..4 tabstops x text-only node / element x html (formatted), xml (unformatted), CRLF + baseIndent, pug."""
    import itertools
    out = []
    cfgs = [({}, True), ({'syntax': 'xml', 'options': {'output.format': False}}, True),
            ({'options': {'output.newline': '\r\n', 'output.baseIndent': '  '}}, True), ({'syntax': 'pug'}, False)]
    kids = [('p', [[0]]), ('p+p', [[0], [0]]), ('b*3', [[0], [0], [0]]), ('q[title]', [[0], [0]]),
            ('i[data-f=${1}]>em+em', [[1], [0], [0]]), ('u{t}', [])]
    k = 0
    for nf in (2, 3):
        for idx in itertools.permutations(range(3), nf):
            text = 'x'.join('${%d}' % i for i in idx)
            for kid, kg in kids:
                for head in ('', 'div'):
                    cfg, html = cfgs[k % len(cfgs)]
                    k += 1
                    fields = list(idx)
                    groups = (kg + [fields[1:]]) if html else ([fields] + kg)
                    out.append(('%s{%s}>%s' % (head, text, kid), cfg,
                                {'explicit': True, 'groups': groups, 'distinct': True, 'split': True}))
    return out


# ---------------------------------------------------------------- tabstops inside the values of id / class
# The values of `id` and `class` are values like any other (the statement speaks of explicit fields "inside one value" and
# of "tabstops of other values" without excepting any attribute), but the formatters write them on paths of their own:
# pug/haml/slim write them FIRST, as `#id.cl1.cl2` directly after the name (blanks between class names become dots;
# documented shape of these languages: https://pugjs.org/language/attributes.html#class-literal, haml/slim alike) and only
# then the other attributes; the html family writes them in place like every attribute (and once more in comments).
# The shorthand forms `#x` / `.x` cannot hold a field (`$` is the numbering mark there), so the field-carrying forms are the
# bracket ones: [class="c ${1:k}"], [id=x${2}], alone or merged with shorthand classes (.a[class="b ${1}"] is ONE class
# value `a b ${1}`, standing where the class attribute first occurred), anywhere among the other attributes.
# Stream: elements with 1..4 bracket attributes drawn from {class with 1..3 blank-separated names and 1..3 fields, id with
# fields, class / id without fields, empty value implied / quoted, other attribute with fields, plain attribute} in any
# order, optionally shorthand id / classes, nameless, text (plain / with fields, also multi-line), children, `*N`, between
# tabstop-taking siblings, in every markup syntax.  Expected structure from what the property says, built alongside:
#   pug/haml/slim: id and class values (in their written order) -> other attributes (written order) -> text / empty leaf
#                  -> children;  html family: attributes in written order -> text / empty leaf -> children.
PRIMARY_FIELDS_ON = True
# [class=""] / [id=""] (value written explicitly empty): OFF -- on the unchanged library pug/haml/slim write `p.` / `p#` with
# no tabstop for that empty value (html writes class="${1}"); reported, see the final report of branch v2-syc13.  Switch on
# once that is settled: the stream then expects one tabstop for such a value in every syntax.
PRIMARY_EMPTY_VALUES_ON = True     # listed finding C13:indent-syntax-empty-id-or-class-value
KEY_EMPTY_PRIMARY = 'C13:indent-syntax-empty-id-or-class-value'
EMPTY_PRIMARY_RE = re.compile(r'''(?:class|id)=(?:""|''|\{\})''')
PRIM_NAMES = ['div', 'p', 'span', 'section', 'em', 'b', 'q', 'u', 'custom', 'main', 'nav', 'x-y', 'li', 'td', 'ul']
PRIM_LITERALS = ['c', 'k', 'item', 'a-b', 'x1', 'Foo', 'is_on', 'w']
PRIM_BLANKS = [' ', ' ', ' ', '  ', '\t', ' \t ']
PRIM_PLACEHOLDERS = ['', '', 'k', 'ph', 'name', 'two w']


def prim_value(rng, kind, nfields):
    """(text, field indices in written order) of a class value (1..3 blank-separated names) or an id value (one name);
    no index occurs twice; a field stands alone as a name, at the start, in the middle or at the end of one."""
    ntok = rng.choice([1, 2, 2, 3]) if kind == 'class' else 1
    idx = rng.sample(range(0, 6), nfields)
    where = sorted(rng.randrange(ntok) for _ in idx)
    toks = []
    for t in range(ntok):
        mine = [i for i, w in zip(idx, where) if w == t]
        s = rng.choice(PRIM_LITERALS) if (not mine or rng.random() < 0.5) else ''
        for i in mine:
            ph = rng.choice(PRIM_PLACEHOLDERS)
            s += '${%d:%s}' % (i, ph) if ph else '${%d}' % i
            if rng.random() < 0.3:
                s += rng.choice(PRIM_LITERALS)
        toks.append(s)
    text = toks[0]
    for s in toks[1:]:
        text += rng.choice(PRIM_BLANKS) + s
    if kind == 'class' and rng.random() < 0.1:
        text = rng.choice([' ', '\t']) + text
    return text, idx


PRIM_KINDS = ['class-f'] * 6 + ['id-f'] * 3 + ['class-plain', 'id-plain', 'empty', 'empty', 'empty-q', 'field', 'field', 'plain']


def prim_element(rng, depth, html, force=None):
    """(abbreviation, groups, has_child_operator) of one element whose id / class values may carry fields."""
    entries = []                     # (attribute name, group or None) in the order the values are first written

    def put(name, grp, empty=False):
        for e in entries:
            if e[0] == name:         # class given twice (shorthand + brackets): one merged value (not empty: no caret)
                if grp and not empty:
                    e[1] = (e[1] or []) + grp
                return
        entries.append([name, grp])
    head = '' if rng.random() < 0.1 else rng.choice(PRIM_NAMES)
    has_short_id = rng.random() < 0.12 and force != 'id-f'
    if has_short_id:
        head += '#' + rng.choice(['i', 'main', 'x1'])
        put('id', None)
    if rng.random() < 0.3:
        for c in rng.sample(['a', 'b-c', 'it'], rng.randint(1, 2)):
            head += '.' + c
        put('class', None)
    kinds = [force] if force else []
    kinds += [rng.choice(PRIM_KINDS) for _ in range(rng.randint(1, 4) - len(kinds))]
    if PRIMARY_EMPTY_VALUES_ON and rng.random() < 0.2:
        kinds.append(rng.choice(['class-empty', 'id-empty']))
    rng.shuffle(kinds)
    parts = []
    used = set(['id'] if has_short_id else [])
    for k in kinds:
        if k in ('class-f', 'class-plain', 'class-empty'):
            n = 'class'
        elif k in ('id-f', 'id-plain', 'id-empty'):
            n = 'id'
        elif k in ('empty', 'empty-q'):
            n = rng.choice(['title', 'alt', 'data-e'])
        elif k == 'field':
            n = rng.choice(['data-f', 'href', 'for'])
        else:
            n = rng.choice(['data-v', 'lang'])
        if n in used:
            continue
        used.add(n)
        if k in ('class-f', 'id-f'):
            v, f = prim_value(rng, n, rng.choice([1, 1, 2, 2, 3]))
            q = '"' if (re.search(r'\s', v) or rng.random() < 0.6) else ''
            parts.append('%s=%s%s%s' % (n, q, v, q))
            put(n, f)
        elif k in ('class-plain', 'id-plain'):
            parts.append('%s=%s' % (n, rng.choice(['v', '"v"', '"u v"'] if n == 'class' else ['v', "'v'"])))
            put(n, None)
        elif k in ('class-empty', 'id-empty'):
            parts.append('%s=%s' % (n, rng.choice(['""', "''"])))
            put(n, [0], empty=True)
        elif k == 'empty':
            parts.append(n)
            put(n, [0])
        elif k == 'empty-q':
            parts.append('%s=%s' % (n, rng.choice(['""', "''", '{}'])))
            put(n, [0])
        elif k == 'field':
            v, f = prim_value(rng, 'id', rng.choice([1, 2]))
            q = '"' if (re.search(r'\s', v) or rng.random() < 0.3) else ''
            parts.append('%s=%s%s%s' % (n, q, v, q))
            put(n, f)
        else:
            parts.append('%s=%s' % (n, rng.choice(['v', '"u v"', '{e}'])))
            put(n, None)
    if not head and not parts:
        head = 'p'
    abbr = head + ('[%s]' % ' '.join(parts) if parts else '')
    if html:
        groups = [e[1] for e in entries if e[1]]
    else:
        groups = [e[1] for e in entries if e[1] and e[0] in ('id', 'class')] + \
                 [e[1] for e in entries if e[1] and e[0] not in ('id', 'class')]
    has_kids = depth < 2 and rng.random() < 0.3
    r = rng.random()
    if r < 0.2:
        abbr += '{%s}' % rng.choice(['t', 'hello world', 'x\ny'])
    elif r < 0.45 and not (html and has_kids):
        t, f = split_text(rng, rng.choice([1, 2, 3]))
        abbr += '{%s}' % t
        groups.append(f)
    elif not has_kids:
        groups.append([0])
    kids, kg = prim_seq(rng, depth + 1, html) if has_kids else ('', [])
    groups = groups + kg
    rep = rng.choice([2, 3]) if rng.random() < 0.1 else None
    if rep:
        abbr += '*%d' % rep
        groups = groups * rep
    if has_kids:
        abbr += '>' + kids
    return abbr, groups, has_kids


def prim_seq(rng, depth, html, force=None):
    """`+` sequence of 1..3 units: elements of prim_element and, as neighbours, the tabstop-taking units of split_unit."""
    n = rng.choice([1, 2, 2, 3])
    forced_at = rng.randrange(n)
    units = []
    for k in range(n):
        if k == forced_at or rng.random() < 0.6:
            units.append(prim_element(rng, depth, html, force if k == forced_at else None))
        else:
            units.append(split_unit(rng, 3, html))
    parts = []
    groups = []
    for k, (a, gr, nests) in enumerate(units):
        parts.append('(%s)' % a if nests and k < len(units) - 1 else a)
        groups += gr
    return '+'.join(parts), groups


def primary_field_cases(rng, n):
    out = []
    for _ in range(n):
        html = rng.random() < 0.4
        abbr, groups = prim_seq(rng, 0, html, force=rng.choice(['class-f', 'class-f', 'id-f']))
        if rng.random() < 0.2:
            abbr = '%s>%s' % (rng.choice(PRIM_NAMES), abbr)
        syn = rng.choice(fu.HTML_SYNTAXES if html else fu.INDENT_SYNTAXES)
        cfg = fu.rand_base(rng, [syn])
        cfg['options'].pop('output.reverseAttributes', None)
        cos = fu.rand_cosmetic(rng, PRIM_NAMES[:6])
        cos['output.newline'] = rng.choice(NEWLINES)
        cfg = bem_layer(rng, fu.with_options(cfg, cos), 0.15, abbr)
        meta = {'explicit': True, 'distinct': True, 'primary': True}
        if not (html and cfg['options'].get('comment.enabled')):
            # (with comments on, the html family repeats id / class -- fields included -- inside the comment: those runs are
            # held to "all indices differ" only)
            meta['groups'] = groups
        out.append((abbr, cfg, meta))
    return out


def primary_field_grid():
    """Small complete grid: class / id value with 1 or 2 fields, indices from {0,1,2} in every order x what follows in the
    document (nothing but the leaf itself, an empty attribute written after / before it, text with a field, a child, a
    sibling) x bracket class / bracket id / shorthand class merged with bracket class / id and class both with fields x
    pug, haml, slim, html."""
    import itertools
    out = []
    syns = ['pug', 'haml', 'slim', 'html']
    k = 0
    for nf in (1, 2):
        for idx in itertools.permutations(range(3), nf):
            val = ' '.join(('c${%d:k}' if j % 2 else '${%d}') % i for j, i in enumerate(idx))
            f = list(idx)
            for form in ('class', 'id', 'merged', 'both'):
                v = val.replace(' ', '') if form == 'id' else val
                for follow in ('leaf', 'attr-after', 'attr-before', 'text', 'child', 'sibling'):
                    syn = syns[k % len(syns)]
                    k += 1
                    html = syn == 'html'
                    if form == 'class':
                        own, og = 'class="%s"' % v, [f]
                    elif form == 'id':
                        own, og = 'id=%s' % v, [f]
                    elif form == 'merged':
                        own, og = 'class="%s"' % v, [f]
                    else:
                        own, og = 'class="%s" id=x${1:i}' % v, [f, [1]]
                    head = 'p.a' if form == 'merged' else 'p'
                    if follow == 'leaf':
                        abbr, groups = '%s[%s]' % (head, own), og + [[0]]
                    elif follow == 'attr-after':
                        abbr, groups = '%s[%s title]' % (head, own), og + [[0], [0]]
                    elif follow == 'attr-before':
                        abbr = '%s[title %s]' % (head, own)
                        groups = ([[0]] + og if html else og + [[0]]) + [[0]]
                    elif follow == 'text':
                        abbr, groups = '%s[%s]{t ${1}}' % (head, own), og + [[1]]
                    elif follow == 'child':
                        abbr, groups = '%s[%s]>b' % (head, own), og + [[0]]
                    else:
                        abbr, groups = '%s[%s]+q' % (head, own), og + [[0], [0]]
                    out.append((abbr, {'syntax': syn}, {'explicit': True, 'distinct': True, 'primary': True, 'groups': groups}))
    return out


def stmt_elements(stmt):
    for unit, _ in stmt:
        if isinstance(unit, g.Group):
            for e in stmt_elements(unit.items):
                yield e
        else:
            yield unit


PRIMARY_FIELD_ATTR_RE = re.compile(r'[\[ ](?:class|id)="[^"]*\$\{')
PRIMARY_AST_VALUES = [('class', 'c ${1:k}'), ('class', '${2} k${1:m}'), ('class', '${0}'), ('class', 'item\t${3:t}  w'),
                      ('id', 'x${1:i}'), ('id', '${2:a}${1}'), ('class', '${1}')]


def add_primary_fields(rng, st):
    """AST stream: give some elements an id / class value with fields in bracket form (next to whatever the decorator put)."""
    for el in stmt_elements(st):
        if rng.random() < 0.4:
            n, v = rng.choice(PRIMARY_AST_VALUES)
            if n == 'id' and el.id is not None:
                continue
            if any(a[0].rstrip('.') == n for a in el.attrs):
                continue
            el.attrs = list(el.attrs)
            el.attrs.insert(rng.randint(0, len(el.attrs)), (n, v, '"'))


# ---------------------------------------------------------------- option layer: BEM class-name rewriting
# The statement quantifies over configurations.  `bem.enabled` (documented option of emmet.config, default off) makes the
# BEM addon rewrite the value of every class attribute (`-e` / `_m` short notation -> block__e / block_m, separators from
# bem.element / bem.modifier).  It changes the NAMES inside a class value, never which values exist: every expected
# structure of the streams of this file holds unchanged, so the layer is put on a share of the cases of every stream.
BEM_LAYER_ON = True
BEM_SEPARATORS = [{}, {}, {}, {'bem.element': '-e-'}, {'bem.modifier': '--'}, {'bem.element': '__', 'bem.modifier': '_'}]


# bem.enabled x a class value that carries explicit fields: OFF.  On the UNCHANGED library the BEM addon rebuilds the class
# value from the NAMES of its tokens (bem.py stringify_value / update_class), so the fields of that value never reach
# output.field: expand('span[class="c ${1:k}"]', bem.enabled) gives class="c k" (reported in the final message of branch
# v2-szc13).  Switch on once that is settled; every stream then keeps its expected structure under the layer.
BEM_WITH_CLASS_FIELDS_ON = False
CLASS_FIELD_RE = re.compile(r'''class=(?:"[^"]*|'[^']*|[^\s\]"']*)\$\{''')


def bem_layer(rng, cfg, p, abbr):
    if not BEM_LAYER_ON or rng.random() >= p:
        return cfg
    if not BEM_WITH_CLASS_FIELDS_ON and CLASS_FIELD_RE.search(abbr):
        return cfg
    extra = {'bem.enabled': True}
    extra.update(rng.choice(BEM_SEPARATORS))
    return fu.with_options(cfg, extra)


# ---------------------------------------------------------------- as-you-type input: the abbreviation is not finished yet
# Editors expand (preview) the abbreviation while it is being typed, so every PREFIX of an abbreviation is an input.  The
# abbreviation parser is lenient about the end of input (documented by the accepted forms below, all of which the library
# turns into output without an error; forms it rejects -- an open quote, an open `${` -- come back as errors and are C07's
# business): the end of input closes an open attribute list, an open `{` expression value, an open `{` text and an open `(`.
# What the half-typed last element consists of is known to the generator, so the expected tabstop structure is built
# alongside from what the property says (one tabstop per empty attribute value -- a class / id whose name is not typed
# yet is an attribute with an empty value -- and per empty leaf; explicit fields of one value keep their relative numbering):
#   name.   name#   name#.   name.a.   .   (class / id mark typed, name not yet)
#   name[   name[title   name[title=   name[a=b    name[a=b c   (attribute list open; last attribute with / without `=`)
#   name[on={   name[on={expr   name[on={${2:h}(${1:a}     (expression value open, 0..3 explicit fields in it)
#   name[data-f=u${2:w}${1}                                (unquoted value with fields, list open)
#   name{   name{te   name{${2:a} x ${1}                   (text open, 0..3 explicit fields in it)
#   name>   name+   name^   name>(   name+(                 (operator typed, nothing after it)    (whole thing) in an open `(`
# each after 0..n complete siblings / below a parent (units of the split / id-class streams with their own tabstops).
# `name*` (implicit repeater typed, count not yet) is kept OFF: see HALF_TYPED_BARE_REPEAT_ON.
HALF_TYPED_ON = True
# `div*`: on the UNCHANGED library the leaf comes out as <div></div> with no tabstop at all (reported in the final message of
# branch v2-szc13); switch on once that is settled -- the stream then expects the leaf's tabstop.
HALF_TYPED_BARE_REPEAT_ON = False
HALF_NAMES = ['div', 'p', 'span', 'section', 'em', 'li', 'td', 'ul', 'custom', 'x-y', 'nav']
HALF_DONE_ATTRS = [('title', [[0]]), ('alt=""', [[0]]), ('data-v=v', []), ('data-f=${3}${1:v}', [[3, 1]]), ('lang="u v"', []),
                   ('bind={e}', []), ('model={${2:m}.${1}}', [[2, 1]]), ("data-e=''", [[0]])]
HALF_OPEN_NAMES = ['href', 'for', 'onClick', 'data-x', 'on']
HALF_EXPR_LITERALS = ['', '', 'x', 'fn(', 'a.b', ' + ', 'this.', '(', ', ', 'e => ']
HALF_EXPR_PLACEHOLDERS = ['', '', 'h', 'handler', 'arg', 'a b']
HALF_TEXT_LITERALS = ['', '', 'x', 'a ', ' b ', ' - ', 'w\n', 'one two']


def half_fields(rng, nfields, literals, placeholders, lead=None):
    """(text, indices in written order): literals and nfields explicit fields with pairwise different indices; when the
    text holds fields it may END in a field (nothing typed after it yet)."""
    idx = rng.sample(range(0, 7), nfields)
    s = rng.choice(literals) if lead is None else lead
    for k, i in enumerate(idx):
        ph = rng.choice(placeholders)
        s += '${%d:%s}' % (i, ph) if ph else '${%d}' % i
        if k < len(idx) - 1 or rng.random() < 0.5:
            s += rng.choice(literals)
    return s, idx


def half_element(rng, html):
    """(abbreviation, groups or None, certain): the half-typed last element.  groups None = the expected structure is
    not stated here (pug/haml/slim with a class / id mark whose name is missing: these languages have no attribute to
    hold the empty value; that form is the listed finding about empty id / class values)."""
    name = rng.choice(HALF_NAMES)
    kind = rng.choice(['mark', 'mark', 'mark', 'attr-open', 'attr-open', 'attr-name', 'attr-name', 'attr-eq', 'expr', 'expr', 'expr',
                       'expr', 'unquoted', 'text', 'text', 'text', 'op', 'op', 'quote', 'bare-repeat'])
    if kind == 'bare-repeat' and not HALF_TYPED_BARE_REPEAT_ON:
        kind = 'expr'
    groups = []
    known = True
    if kind == 'mark':
        form = rng.choice(['.', '.', '.', '#', '#.', '.a.', '#i.', '.a#', '.a.b-c.', 'nameless.', 'nameless#'])
        if form.startswith('nameless'):
            name, form = '', form[len('nameless'):]
        abbr = name + form
        if form in ('.', '#'):
            groups = [[0]]
        elif form == '#.':
            groups = [[0], [0]]
        elif form == '#i.':
            groups = [[0]]
        elif form == '.a#':
            groups = [[0]]
        else:
            groups = []                       # `.a.`: the class value is `a`, the second name is not typed yet
        if not html and form != '.a.' and form != '.a.b-c.':
            known = False
        return abbr, groups + [[0]], known
    if kind == 'op':
        abbr = name
        if rng.random() < 0.4:
            abbr += '[title]'
            groups.append([0])
        return abbr + rng.choice(['>', '+', '^', '>(', '+(', '>', '+']), groups + [[0]], True
    if kind == 'bare-repeat':
        return name + '*', [[0]], True
    short = rng.choice(['', '', '', '.a', '#i', '.a.b-c'])
    if kind == 'text':
        abbr = name + short
        if rng.random() < 0.35:
            abbr += '[title]'
            groups.append([0])
        text, f = half_fields(rng, rng.choice([0, 0, 1, 2, 2, 3]), HALF_TEXT_LITERALS, HALF_EXPR_PLACEHOLDERS)
        if f:
            groups.append(f)
        elif text == '':
            groups.append([0])                # `name{` : nothing written yet, the leaf is empty
        return abbr + '{' + text, groups, True
    # attribute list open
    done = rng.sample(HALF_DONE_ATTRS, rng.choice([0, 0, 1, 1, 2]))
    parts = [a for a, _ in done]
    for _, ag in done:
        groups += ag
    open_name = rng.choice(HALF_OPEN_NAMES)
    if kind == 'attr-open':
        last = '' if (not parts or rng.random() < 0.5) else None       # `[` / `[a=b ` (blank typed) / `[a=b`
        if last is not None:
            parts.append(last)
    elif kind == 'attr-name':
        parts.append(open_name)
        groups.append([0])
    elif kind == 'attr-eq':
        parts.append(open_name + '=')
        groups.append([0])
    elif kind == 'quote':                     # rejected by the parser (open quote): error, nothing to judge; model tie only
        parts.append(open_name + rng.choice(['="', "='", '="va', '="${1:v} ']))
        groups.append([0])
    elif kind == 'unquoted':
        v, f = half_fields(rng, rng.choice([1, 2, 2, 3]), ['', '', 'u', 'v-w', 'x1'], ['', '', 'k', 'ph'])
        parts.append(open_name + '=' + v)
        groups.append(f)
    else:                                     # expression value open
        v, f = half_fields(rng, rng.choice([0, 1, 1, 2, 2, 2, 3]), HALF_EXPR_LITERALS, HALF_EXPR_PLACEHOLDERS)
        parts.append(open_name + '={' + v)
        if f:
            groups.append(f)
        elif v == '':
            groups.append([0])                # `on={` : an empty expression value
    return name + short + '[' + ' '.join(parts), groups + [[0]], True


def half_typed_cases(rng, n):
    out = []
    for _ in range(n):
        html = rng.random() < 0.7
        last, groups, known = half_element(rng, html)
        from_prim = False
        r = rng.random()
        if r < 0.3:
            abbr = last
        elif r < 0.5:                                     # below a parent
            abbr = '%s>%s' % (rng.choice(HALF_NAMES), last)
        elif r < 0.65:                                    # below a parent with class names (BEM block)
            abbr = '%s.%s>%s' % (rng.choice(HALF_NAMES), rng.choice(['nav', 'block_mod', 'b.c', 'a-b']), last)
        elif r < 0.85:                                    # after complete siblings that take tabstops
            pre, pg = split_kids(rng, 2, html)
            abbr = '%s+%s' % (pre if '>' not in pre else '(%s)' % pre, last)
            groups = pg + groups
        else:                                             # after / below elements with fields in id / class values
            pre, pg = prim_seq(rng, 1, html)
            abbr = '%s+%s' % (pre if '>' not in pre else '(%s)' % pre, last)
            groups = pg + groups
            from_prim = True
        if rng.random() < 0.12:
            abbr = '(' + abbr                             # the whole thing inside a group that is not closed yet
        syn = rng.choice(fu.HTML_SYNTAXES if html else fu.INDENT_SYNTAXES)
        cfg = fu.rand_base(rng, [syn])
        cfg['options'].pop('output.reverseAttributes', None)
        cos = fu.rand_cosmetic(rng, HALF_NAMES[:6])
        cos['output.newline'] = rng.choice(NEWLINES)
        cfg = bem_layer(rng, fu.with_options(cfg, cos), 0.5, abbr)
        meta = {'explicit': fu.has_explicit_field(abbr), 'distinct': True, 'half': True}
        if known and not (html and from_prim and cfg['options'].get('comment.enabled')):
            # (as in primary_field_cases: with comments on, the html family repeats id / class -- fields included -- inside
            # the comment; those runs are held to "all indices differ" only)
            meta['groups'] = groups
        out.append((abbr, cfg, meta))
    return out


def half_typed_grid():
    """Small complete grid: every half-typed form of the list above once per family x BEM off / on, alone and as the
    child of `ul.nav`."""
    out = []
    forms = [('[on={${2:h}(${1:a}', [[2, 1], [0]], True), ('[on={${2:h}', [[2], [0]], True), ('[on={${1}${3}x', [[1, 3], [0]], True),
             ('[title on={f(${1:a}, ${0}', [[0], [1, 0], [0]], True), ('[d=u${2:w}${1}', [[2, 1], [0]], True),
             ('{${2:a} x ${1}', [[2, 1]], True), ('[title]{${1}', [[0], [1]], True),
             ('.', [[0], [0]], False), ('#', [[0], [0]], False), ('#.', [[0], [0], [0]], False), ('.a.', [[0]], True),
             ('[', [[0]], True), ('[title', [[0], [0]], True), ('[title=', [[0], [0]], True), ('[a=b ', [[0]], True),
             ('[a=b c', [[0], [0]], True), ('[on={', [[0], [0]], True), ('[on={ex', [[0]], True),
             ('{', [[0]], True), ('{te', [], True), ('>', [[0]], True), ('+', [[0]], True), ('^', [[0]], True), ('>(', [[0]], True)]
    for fi, (tail, groups, indent_known) in enumerate(forms):
        for si, syn in enumerate(('html', 'pug', 'jsx', 'slim', 'xml', 'haml')):
            html = syn in fu.HTML_SYNTAXES
            for bem in (False, True):
                for parent in (('', 'ul.nav>')[(fi + si // 2) % 2],):
                    cfg = {'syntax': syn, 'options': {'bem.enabled': True}} if bem else {'syntax': syn}
                    abbr = parent + 'li' + tail
                    meta = {'explicit': fu.has_explicit_field(abbr), 'distinct': True, 'half': True}
                    if html or indent_known:
                        meta['groups'] = groups
                    out.append((abbr, cfg, meta))
    return out


HALF_CUT_AFTER = '.#[={>+(^ }'


def truncated_cases(rng, pool, n):
    """Prefixes of the abbreviations of the other streams (every stream of this file contributes): cut after a class / id
    mark, an opening bracket, `=`, an operator, a blank, a closed field -- or anywhere.  What the prefix means is not
    reconstructed here: those runs are held to the part of the statement that needs no expected structure (positions of
    every callback; without explicit fields tabstops 1..k in document order; every empty attribute value of the result
    holds a tabstop; all indices differ) and go through the extracted model like every case."""
    out = []
    for _ in range(n):
        abbr, cfg, meta = rng.choice(pool)
        if len(abbr) < 2:
            continue
        cuts = [i for i in range(1, len(abbr)) if abbr[i - 1] in HALF_CUT_AFTER]
        if cuts and rng.random() < 0.7:
            cut = rng.choice(cuts)
        else:
            cut = rng.randint(1, len(abbr) - 1)
        prefix = abbr[:cut]
        c = bem_layer(rng, cfg, 0.4, abbr)
        out.append((prefix, c, {'explicit': fu.has_explicit_field(prefix), 'distinct': bool(meta and meta.get('distinct')),
                                'half': True, 'cut': True}))
    return out


def load_corpus():
    out = []
    for p in sorted(glob.glob(os.path.join(CORPUS, '*.json'))):
        with open(p) as f:
            out.append(json.load(f))
    return out


def make_case(rng):
    r = rng.random()
    plain_names = r < 0.5
    if plain_names:
        level = 'c13' if rng.random() < 0.6 else 'depth'
        names = g.safe_names()
        st = g.rand_stmt(rng, names, rng.randint(1, 20) if rng.random() < 0.15 else rng.randint(1, 7),
                         max_depth=3, rep_max=3, decorate=fu.decorator(rng, level))
    else:
        st = fu.rand_abbr(rng, 'c13')
    if PRIMARY_FIELDS_ON and rng.random() < 0.12:
        add_primary_fields(rng, st)
    abbr = g.render(st)
    syn = rng.choice(fu.HTML_SYNTAXES + fu.HTML_SYNTAXES + fu.INDENT_SYNTAXES)
    cfg = fu.rand_base(rng, [syn])
    cos = fu.rand_cosmetic(rng, sorted(set(re.findall(r'[a-z][a-z0-9:\-]*', abbr)))[:6])
    cos['output.newline'] = rng.choice(NEWLINES)
    cfg = bem_layer(rng, fu.with_options(cfg, cos), 0.12, abbr)
    o = cfg['options']
    # no value of the generator's pools (format_util FIELD_TEXTS / FIELD_ATTR_VALUES, the ten snippet names of
    # SNIPPET_NAMES: at most one field per value in snippets/html.json) mentions one index twice, so the property's
    # "never collide with tabstops of other values" means: all indices given to output.field differ pairwise
    meta = {'explicit': fu.has_explicit_field(abbr), 'distinct': True}
    html_fmt = syn in fu.HTML_SYNTAXES
    tags_in_text = any(t in abbr for t in ('<div', '<b>', '<section'))
    if plain_names and html_fmt and not o.get('output.reverseAttributes') and not o.get('comment.enabled'):
        tree = g.unroll(g.denote_stmt(st))
        if g.total_copies(tree) <= 300:
            meta['groups'] = expected_groups(tree, [])
    if plain_names and html_fmt and not tags_in_text and not meta['explicit']:
        meta['countable'] = True
    return abbr, cfg, meta


def run(ctx):
    ok = ctx.build(['props/C13.vo', 'props/C13Css.vo', 'run/MarkupRun.vo', 'run/CssstreamRun.vo', 'run/StyleEvents.vo'])
    if ok:
        ctx.obligations('props/C13.v')
        su.obligations(ctx, 'props/C13Css.v')
    model = ctx.model('markup') if ok else None
    ctx.cov['rule'] = (
        'markup: abbreviations from the statement AST generator (attributes with empty / boolean / quoted / expression / '
        'multi-line values, explicit ${n} and ${n:placeholder} fields incl. placeholders with line feeds, multi-line text, '
        'snippet names) x syntaxes html/xml/xsl/jsx/vue/svelte/haml/pug/slim x newline in {LF, CRLF, CR, empty, "~~"} x '
        'indent x baseIndent x the other output/comment options; recording output.text/output.field callbacks. Oracle per '
        'callback: returned string sits at the reported offset of the final result, offsets are contiguous, line/column = '
        'line/column of that offset in the final result (a line ends at each newline string and each line feed); tabstops '
        '1..k in document order with k = empty attribute values + empty leaves counted in the final output; explicit fields: '
        'relative numbering inside a value, index ranges of successive values disjoint and increasing (expected structure '
        'from the generator AST; for pug/haml/slim a dedicated stream of elements whose text spans several lines with fields on different lines); '
        'all indices given to output.field in one run differ pairwise (no value of the generator pools mentions an index twice). '
        'Values with fields AND children (dedicated stream, also reached by the AST generator and the skeletons): text-only nodes '
        '{...}>kids and elements p{...}>kids, p[attrs]{...}*N>kids whose text holds 0..4 fields with pairwise different indices at '
        'any place, children = `+` sequences producing 0..many tabstops (empty leaves, repeated leaves, empty / explicit-field '
        'attribute values, texts with fields, self-closed leaves, groups, repeated groups, nested values of the same kind), '
        'alone / below a parent / after and before tabstop-taking siblings / as a repeated group, html family and pug/haml/slim, '
        'plus a complete small grid (2 or 3 fields with indices from {0,1,2} in every order x children taking 0..4 tabstops x '
        'text-only node / element x four configurations); '
        'expected structure: html family = children in place of the first field, the remaining fields of the value one group '
        'after them (relative numbering kept, above every tabstop of the children); indent family = value first, then children. '
        'Values of id / class with fields (dedicated stream + complete small grid + 12% of the AST-generator cases get such '
        'values added): bracket forms [class="c ${1:k}"], [id=x${2}] with 1..3 blank-separated names (blank, blanks, tab), 1..3 '
        'fields with pairwise different indices in any order (alone as a name / at the start / middle / end of one, with and '
        'without placeholder), alone or merged with shorthand classes, anywhere among 1..4 bracket attributes (empty implied / '
        'quoted / {} values, other attributes with fields, plain ones), shorthand id, nameless elements, text (plain, multi-line, '
        'with fields), children, *N, tabstop-taking neighbours, below a parent; all nine syntaxes x the base / cosmetic options. '
        'Expected structure: pug/haml/slim = id and class values (written order) first, then the other attributes, text / '
        'empty leaf, children; html family = attributes in written order (with comment.enabled, where id / class are repeated in '
        'the comment: all indices differ). grid: 1 or 2 fields with indices from {0,1,2} in every order x {leaf, empty attribute '
        'after / before, text with field, child, sibling} x {class, id, shorthand+bracket class, class and id} over pug/haml/slim/html. '
        'id / class values WRITTEN empty ([class=""]) are explored (PRIMARY_EMPTY_VALUES_ON; pug/haml/slim: listed finding). '
        'Option layer bem.enabled (default separators and bem.element / bem.modifier variants) on 10-15% of the cases of every '
        'markup stream, 50% of the half-typed stream, 40% of the prefix stream: the BEM addon rewrites names inside class values, '
        'the expected structures are unchanged (NOT combined with class values that carry explicit fields: guarded off, see '
        'BEM_WITH_CLASS_FIELDS_ON). '
        'As-you-type input (abbreviation not finished; the parser closes what is open at the end of input): structured stream + '
        'complete small grid (24 forms x html/pug/jsx/slim/xml/haml x BEM off/on, alternately alone / child of ul.nav) of a half-typed LAST '
        'element -- class / id mark without name (name. name# name#. name.a. . #), attribute list open ([, [title, [title=, '
        '[a=b , [a=b c after 0..2 complete attributes incl. empty / field-carrying ones), expression value open ([on={, [on={expr, '
        '[on={${2:h}(${1:a} with 0..3 explicit fields of pairwise different indices, the value possibly ENDING in a field), unquoted '
        'value with fields, open quote (rejected by the parser: model tie only), text open ({, {te, {${2:a} x ${1}), operator '
        'typed with nothing after it (> + ^ >( +(), all optionally inside a `(` that is not closed -- alone, below a parent, below '
        'a parent with BEM-style class names, after tabstop-taking siblings of the split / id-class streams; expected structure '
        'built alongside (an id / class mark without name = an attribute with an empty value; pug/haml/slim: structure not '
        'stated for that form, cf. the listed finding). `name*` (bare implicit repeater) guarded off: HALF_TYPED_BARE_REPEAT_ON. '
        'Prefix stream: prefixes of abbreviations of ALL other markup streams, cut after . # [ = { > + ( ^ blank } or anywhere; '
        'held to positions, 1..k without explicit fields, every empty attribute value of the result holds a tabstop, indices differ. '
        'The same cases go through the extracted model (event sequences compared). stylesheet: '
        'snippet sums x css/scss/sass/less/sss/stylus x newline/indent/baseIndent/between/after: positions oracle on the '
        'implementation. non-trivial = at least one field callback and three text callbacks; distinct by (abbreviation, config). '
        'stylesheet FORMATTER stream (css_stream): corpus, fixed cases, every built-in snippet key alone, random sums of '
        'snippet keys / unknown words with numbers, units, colours, keywords, explicit ${n} / ${n:ph} / ${name} fields (also '
        'with line feeds in the placeholder), strings (also multi-line), function calls, `!`, under css/scss/sass/less/sss/stylus '
        'x newline in {LF, CRLF, CR, empty, "~~"} x indent x baseIndent x stylesheet.between (also with a line feed) / after x '
        'format / skipUnmatched / shortHex / json x user snippet tables (property snippets with alternatives, multi-line raw '
        'snippets) x context scopes x two output.field callbacks (identity, editor tabstop); plus synthetic resolved property '
        'lists (nested function calls, multi-line literals and names, fields without index, stray tokens) fed to '
        'emmet.stylesheet.stringify. Oracle per run: positions of every callback as above; per property the indices given to '
        'output.field differ pairwise like those of its field tokens. Tie 1: the extracted model/CssFormatStream.css_stream on '
        'the very property list stringify received -- full event sequence (text/field, index, returned string, offset, line, '
        'column). Tie 2: the whole pipeline from the abbreviation evaluated inside Coq (run/StyleEvents.v) -- same observable.')
    if os.environ.get('VERIF_C13_PART') == 'css':      # development aid: stylesheet formatter stream only
        css_stream(ctx, ok)
        return
    rng = ctx.rng
    cases = []
    for rec in load_corpus():
        if rec.get('component') == 'C13-css':
            continue                                   # stylesheet stream corpus: css_stream()
        cases.append((rec['abbr'], rec['config'], rec.get('meta')))
        ctx.cover('C13:corpus')
    for abbr, cfg in FIXED:
        # in the fixed cases no value mentions the same field index twice: all emitted indices must differ
        cases.append((abbr, cfg, {'explicit': fu.has_explicit_field(abbr), 'distinct': True}))
    # exhaustive operator skeletons with four decorations (bare, empty attribute, text with fields,
    # self-closed) under five option sets: positions, 1..k numbering, tabstop count, field groups
    max_units = 2 if ctx.tier == 'quick' else 3
    sk_cfgs = [{}, {'options': {'output.newline': '\r\n', 'output.baseIndent': '  ', 'output.formatLeafNode': True}},
               {'syntax': 'xml', 'options': {'output.format': False}}, {'syntax': 'pug'},
               {'syntax': 'jsx', 'options': {'output.newline': '~~', 'output.indent': '  ', 'output.inlineBreak': 1}}]
    n_sk = 0
    for nu in range(1, max_units + 1):
        for k, st in enumerate(g.enum_stmts(nu, ['div', 'span', 'p', 'em'], ops=('>', '+', '^'), repeats=(None, 2))):
            for unit, _ in st:
                if isinstance(unit, g.El):
                    if k % 4 == 1:
                        unit.attrs = [('title', None, ''), ('data-v', 'v', '"')]
                    elif k % 4 == 2:
                        unit.text = 'x ${2:two\nl} y ${1}'
                    elif k % 4 == 3:
                        unit.self_close = True
            abbr = g.render(st)
            cfg = sk_cfgs[k % len(sk_cfgs)]
            meta = {'explicit': fu.has_explicit_field(abbr), 'distinct': True}
            if cfg.get('syntax', 'html') in fu.HTML_SYNTAXES:
                tree = g.unroll(g.denote_stmt(st))
                meta['groups'] = expected_groups(tree, [])
                if not meta['explicit']:
                    meta['countable'] = True
            cases.append((abbr, cfg, meta))
            n_sk += 1
    ctx.cov['exhaustive_skeletons'] = {'max_units': max_units, 'statements': n_sk}
    if SPLIT_VALUES_ON:
        grid = split_value_grid()
        cases.extend(grid)
        ctx.cov['value_with_fields_and_children_grid'] = len(grid)
    n = 2500 if ctx.tier == 'quick' else 60000
    for _ in range(n):
        cases.append(make_case(rng))
    ind = indent_text_cases(rng, 400 if ctx.tier == 'quick' else 6000)
    cases.extend(ind)
    ctx.cov['indent_multiline_field_cases'] = len(ind)
    if SPLIT_VALUES_ON:
        spl = split_value_cases(rng, 900 if ctx.tier == 'quick' else 12000)
        cases.extend(spl)
        ctx.cov['value_with_fields_and_children_cases'] = len(spl)
    if PRIMARY_FIELDS_ON:
        pgrid = primary_field_grid()
        cases.extend(pgrid)
        ctx.cov['id_class_values_with_fields_grid'] = len(pgrid)
        prim = primary_field_cases(rng, 700 if ctx.tier == 'quick' else 10000)
        cases.extend(prim)
        ctx.cov['id_class_values_with_fields_cases'] = len(prim)
        ctx.cov['id_class_values_written_empty'] = 'on' if PRIMARY_EMPTY_VALUES_ON else 'off (PRIMARY_EMPTY_VALUES_ON)'
    if HALF_TYPED_ON:
        pool = [c for c in cases if c[2] is not None]
        hgrid = half_typed_grid()
        cases.extend(hgrid)
        half = half_typed_cases(rng, 800 if ctx.tier == 'quick' else 12000)
        cases.extend(half)
        cut = truncated_cases(rng, pool + half, 600 if ctx.tier == 'quick' else 10000)
        cases.extend(cut)
        ctx.cov['half_typed'] = {'grid': len(hgrid), 'structured_cases': len(half), 'prefixes_of_other_streams': len(cut),
                                 'bare_repeat_form': 'on' if HALF_TYPED_BARE_REPEAT_ON else 'off (HALF_TYPED_BARE_REPEAT_ON)'}
    ctx.cov['bem_layer'] = {'layer': 'on' if BEM_LAYER_ON else 'off (BEM_LAYER_ON)',
                            'with_fields_in_class_values': 'on' if BEM_WITH_CLASS_FIELDS_ON else 'off (BEM_WITH_CLASS_FIELDS_ON)'}
    impl = run_cases(ctx, model, cases, 'C13', None, mode='events')
    for (abbr, cfg, meta), r in zip(cases, impl):
        bad = oracle(abbr, cfg, meta, r)
        if bad:
            listed = (cfg.get('syntax') in fu.INDENT_SYNTAXES and EMPTY_PRIMARY_RE.search(abbr))
            ctx.property_failure(KEY_EMPTY_PRIMARY if listed else 'C13:%s|%s' % (abbr, canon_cfg(cfg)),
                                 'C13 expand(%r, %s): %s' % (abbr, canon_cfg(cfg), bad),
                                 {'component': 'C13', 'abbr': abbr, 'config': cfg, 'meta': meta, 'why': bad})
        if r[0] == 'ok':
            ctx.cover('C13:syntax-' + cfg.get('syntax', 'html'))
            ctx.cover('C13:newline-' + repr(fu.resolved_options(cfg)['output.newline']))
            nf = sum(1 for e in r[2] if e[0] == 'field')
            if meta and meta.get('explicit'):
                ctx.cover('C13:explicit-fields')
            if meta and meta.get('groups') is not None:
                ctx.cover('C13:group-structure-checked')
            if meta and meta.get('split'):
                ctx.cover('C13:split-value-%s' % ('html-family' if cfg.get('syntax', 'html') in fu.HTML_SYNTAXES else 'indent-family'))
                ctx.cover('C13:split-value-tabstops-%s' % ('0' if nf == 0 else '1-2' if nf <= 2 else '3-5' if nf <= 5 else '6+'))
            if meta and meta.get('primary'):
                fam = 'html-family' if cfg.get('syntax', 'html') in fu.HTML_SYNTAXES else 'indent-family'
                ctx.cover('C13:id-class-fields-%s' % fam)
                if meta.get('groups') is not None:
                    ctx.cover('C13:id-class-fields-%s-structure-checked' % fam)
            elif meta and PRIMARY_FIELD_ATTR_RE.search(abbr):
                ctx.cover('C13:id-class-fields-in-ast-stream-%s' % (
                    'html-family' if cfg.get('syntax', 'html') in fu.HTML_SYNTAXES else 'indent-family'))
            if meta and meta.get('countable'):
                ctx.cover('C13:tabstop-count-checked')
            if cfg.get('options', {}).get('bem.enabled'):
                ctx.cover('C13:bem-enabled')
            if meta and meta.get('half'):
                kind = 'prefix-of-other-stream' if meta.get('cut') else 'structured'
                ctx.cover('C13:half-typed-%s' % kind)
                if meta.get('groups') is not None:
                    ctx.cover('C13:half-typed-structure-checked')
                if cfg.get('options', {}).get('bem.enabled'):
                    ctx.cover('C13:half-typed-bem-enabled')
                m = re.search(r'(\.|#|\[|=|\{|>|\+|\^|\(|\})$', abbr)
                ctx.cover('C13:half-typed-ends-in-%s' % (m.group(1) if m else 'other'))
            if any(e[0] == 'field' and '\n' in e[2] for e in r[2]):
                ctx.cover('C13:placeholder-with-line-feed')
            if nf >= 1 and len(r[2]) - nf >= 3:
                ctx.nontrivial((abbr, canon_cfg(cfg)))
    for (abbr, cfg, meta), r in list(zip(cases, impl))[len(FIXED) + 5:len(FIXED) + 9]:
        ctx.sample({'abbr': abbr, 'config': cfg, 'callbacks': [list(e) for e in r[2][:6]] if r[0] == 'ok' else list(r)})
    # callbacks that rewrite what they are given (implementation only: the model fixes the identity callbacks)
    nr = 500 if ctx.tier == 'quick' else 8000
    for abbr, cfg, meta in cases[:nr]:
        r = impl_events_rewriting(abbr, cfg)
        ctx.count_eval()
        ctx.cover('C13:rewriting-callbacks-%s' % r[0])
        bad = None
        if r[0] == 'hang':
            bad = 'expand did not return within %s s' % r[1]
        elif r[0] == 'ok':
            bad = fu.positions_check(r[1], r[2], fu.resolved_options(cfg)['output.newline'])
        if bad:
            ctx.property_failure('C13:rewriting|%s|%s' % (abbr, canon_cfg(cfg)),
                                 'C13 expand(%r, %s) with rewriting callbacks: %s' % (abbr, canon_cfg(cfg), bad),
                                 {'component': 'C13-rewriting', 'abbr': abbr, 'config': cfg, 'why': bad})
    # stylesheet syntaxes
    ns = 800 if ctx.tier == 'quick' else 15000
    for abbr, cfg in style_cases(rng, ns):
        r = impl_style_events(abbr, cfg)
        ctx.count_eval()
        ctx.cover('C13:style-%s' % r[0])
        if r[0] == 'hang':
            ctx.property_failure('C13:style-hang|%s|%s' % (abbr, canon_cfg(cfg)),
                                 'C13 stylesheet expand(%r, %s) did not return within %s s' % (abbr, canon_cfg(cfg), r[1]),
                                 {'component': 'C13-style', 'abbr': abbr, 'config': cfg, 'why': 'hang'})
        if r[0] != 'ok':
            continue
        ctx.cover('C13:style-syntax-' + cfg['syntax'])
        bad = fu.positions_check(r[1], r[2], fu.resolved_options(cfg)['output.newline'])
        if any(e[0] == 'field' for e in r[2]):
            ctx.nontrivial((abbr, canon_cfg(cfg)))
        if bad:
            ctx.property_failure('C13:style|%s|%s' % (abbr, canon_cfg(cfg)),
                                 'C13 stylesheet expand(%r, %s): %s' % (abbr, canon_cfg(cfg), bad),
                                 {'component': 'C13-style', 'abbr': abbr, 'config': cfg, 'why': bad})
    css_stream(ctx, ok)


# ---------------------------------------------------------------- stylesheet formatter: callback event stream
CSS_FIXED = [
    ('p10+m${1}', su.Cfg()), ('bd+bg', su.Cfg(tabstop=True)), ('p+m', su.Cfg()), ('@kf', su.Cfg(options={'output.newline': '\r\n'})),
    ('p${1}-${2}+m${1}', su.Cfg('scss', {'output.baseIndent': '  '})), ('bdr${2:a}${1:b}', su.Cfg('stylus')),
    ('c+bgc', su.Cfg('sass', tabstop=True)), ('trf:r(10)+trs', su.Cfg('less')), ('lg(top, #f00.5)', su.Cfg()),
    ('m${1:a\nb}+p', su.Cfg(options={'output.newline': '\r\n', 'output.baseIndent': '\t'})),
    ('foo+bar+baz+mq', su.Cfg('css', {}, cu.USER_TABLES[0])), ('foo+p', su.Cfg('scss', {'output.newline': '\r\n'}, cu.USER_TABLES[0], None, True)),
    ('gg+ml+two', su.Cfg('css', {'output.baseIndent': '  '}, cu.USER_TABLES[1])), ('k+bd+p', su.Cfg('less', {}, cu.USER_TABLES[2], None, True)),
    ('@ff+p10!', su.Cfg('css', {'output.newline': '\r\n', 'output.baseIndent': '    '})),
    ('p10+m5', su.Cfg('css', {'stylesheet.between': ':\n', 'stylesheet.after': ' ;'})),
    ('a', su.Cfg('css', {}, None, 'margin')), ('p${foo}', su.Cfg(tabstop=True)), ("cnt'a\nb'", su.Cfg()),
]


def css_stream_failure(ctx, kind, abbr, cfg, props, why, tabstop):
    key = 'C13:css-%s|%s|%s' % (kind, abbr if abbr is not None else repr(props)[:200], cfg.key())
    ctx.property_failure(key, 'C13 stylesheet %s %r under %s: %s' % (kind, abbr if abbr is not None else 'synthetic properties',
                                                                      cfg.to_json(), why),
                         {'component': 'C13-css', 'kind': kind, 'abbr': abbr, 'cfg': cfg.to_json(), 'props': props,
                          'tabstop': tabstop, 'why': why})


def css_stream(ctx, ok):
    """Stylesheet side of C13: every callback invocation of stylesheet runs.
    oracle (implementation only) + stage tie (extracted CssFormatStream on the implementation's resolved properties
    and on synthetic properties) + whole-pipeline tie (events computed inside Coq from the abbreviation)."""
    rng = ctx.rng
    quick = ctx.tier == 'quick'
    model = ctx.model('cssstream') if ok else None
    corr = ctx.cov['correspondence'].setdefault('css_stream', {'stage_cases': 0, 'stage_disagreements': 0,
                                                             'pipeline_cases': 0, 'pipeline_disagreements': 0,
                                                             'out_of_domain': 0})
    keys = cu.style_keys()
    caches = {}

    def cache_for(cfg):
        return caches.setdefault((cfg.syntax, repr(sorted(cfg.snippets.items()))), {})

    # ---- cases from abbreviations: (abbr, Cfg)
    cases = []
    for rec in load_corpus():
        if rec.get('component') == 'C13-css' and rec.get('abbr') is not None:
            cases.append((rec['abbr'], su.Cfg.from_json(rec['cfg'])))
            ctx.cover('C13:css-corpus')
    cases += CSS_FIXED
    base_cfgs = [su.Cfg(), su.Cfg('scss', {'output.newline': '\r\n', 'output.baseIndent': '  '}, None, None, True),
                 su.Cfg('stylus', {'output.baseIndent': '\t'}), su.Cfg('sass', {'output.newline': '\r\n'}, None, None, True)]
    for i, k in enumerate(keys):                       # every built-in snippet, alone
        cases.append((k, base_cfgs[i % len(base_cfgs)]))
    n_cfg = 32 if quick else 120
    per_cfg = 50 if quick else 250
    cfgs = [cu.rand_cfg(rng) for _ in range(n_cfg)]
    for cfg in cfgs:
        for _ in range(per_cfg):
            cases.append((cu.rand_abbr(rng, keys), cfg))
    impl = []
    for abbr, cfg in cases:
        r = cu.impl_run(abbr, cu.cfg_user_config(cfg), cfg.tabstop, cache_for(cfg))
        ctx.count_eval()
        impl.append(r)
        ctx.cover('C13:css-run-' + r[0])
        if r[0] == 'hang':
            css_stream_failure(ctx, 'expand', abbr, cfg, None, 'did not return within %s s' % r[1], cfg.tabstop)
        if r[0] == 'domain':
            corr['out_of_domain'] += 1
        if r[0] != 'ok':
            continue
        bad = cu.css_oracle(r[1], r[2], r[3], r[4])
        if bad:
            css_stream_failure(ctx, 'expand', abbr, cfg, None, bad, cfg.tabstop)
        # hypothesis css_raw_ok of C13_css_callback_positions_exact / ..._partial on the RESOLVED properties
        if cu.raw_ok(r[3], r[4]):
            ctx.cover('C13:css-raw-ok-holds')
        elif '\n' not in r[4]['stylesheet.after']:
            ctx.cover('C13:css-raw-ok-fails')
            ctx.broken.append({'kind': 'theorem-hypothesis', 'file': 'props/C13Css.v css_raw_ok', 'input': abbr,
                               'config': cfg.to_json(), 'detail': 'a FunctionCall name of the resolved properties contains a line feed'})
        ctx.cover('C13:css-syntax-' + cfg.syntax)
        ctx.cover('C13:css-newline-' + repr(r[4]['output.newline']))
        ctx.cover('C13:css-callback-' + ('tabstop' if cfg.tabstop else 'identity'))
        nf = sum(1 for e in r[2] if e[0] == 'field')
        if nf:
            ctx.cover('C13:css-with-fields')
        if any(e[0] == 'field' and '\n' in e[3] for e in r[2]):
            ctx.cover('C13:css-field-text-with-line-feed')
        if len({e[1] for e in r[2] if e[0] == 'field'}) < nf:
            ctx.cover('C13:css-same-index-in-several-values')
        if r[1].count('\n') and nf:
            ctx.nontrivial(('css', abbr, cfg.key()))
    # cache self-check: a sample again with completely fresh configurations
    n_sc = bad_sc = 0
    for (abbr, cfg), r in zip(cases, impl):
        if r[0] == 'ok' and rng.random() < (0.03 if quick else 0.01):
            fresh = cu.impl_run(abbr, cu.cfg_user_config(cfg), cfg.tabstop, None)
            n_sc += 1
            if fresh[:4] != r[:4]:
                bad_sc += 1
                ctx.broken.append({'kind': 'impl-cache-selfcheck', 'file': 'css_stream_util.impl_run', 'input': abbr,
                                   'config': cfg.to_json(), 'cached': repr(r[:3])[:300], 'fresh': repr(fresh[:3])[:300]})
    corr['impl_cache_selfcheck'] = {'cases': n_sc, 'differences': bad_sc}

    # ---- callbacks that rewrite the text they are given (implementation only: positions oracle)
    for abbr, cfg in cases[:600 if quick else 6000]:
        r = cu.impl_run(abbr, cu.cfg_user_config(cfg), True, cache_for(cfg), rewrite=True)
        ctx.count_eval()
        ctx.cover('C13:css-rewriting-callbacks-' + r[0])
        if r[0] == 'ok':
            bad = fu.positions_check(r[1], cu.oracle_events(r[2]), r[4]['output.newline'])
            if bad:
                css_stream_failure(ctx, 'expand-rewriting', abbr, cfg, None, bad, True)

    # ---- synthetic resolved properties straight into stringify
    syn = []
    for rec in load_corpus():
        if rec.get('component') == 'C13-css' and rec.get('abbr') is None:
            syn.append((cu.build_props(cu.snapshot_from_json(rec['props'])), su.Cfg.from_json(rec['cfg'])))
    for _ in range(2500 if quick else 30000):
        syn.append((cu.rand_props(rng), rng.choice(cfgs)))
    syn_impl = []
    for props, cfg in syn:
        r = cu.impl_stringify(props, cu.cfg_user_config(cfg), cfg.tabstop)
        ctx.count_eval()
        syn_impl.append(r)
        ctx.cover('C13:css-synthetic-' + r[0])
        if r[0] == 'ok':
            bad = cu.css_oracle(r[1], r[2], r[3], r[4])
            if bad:
                css_stream_failure(ctx, 'stringify', None, cfg, r[3], bad, cfg.tabstop)
            if any(e[0] == 'field' for e in r[2]) and r[1].count('\n'):
                ctx.nontrivial(('css-syn', repr(r[3]), cfg.key()))
        elif r[0] == 'err':
            css_stream_failure(ctx, 'stringify', None, cfg, cu.snapshot_props(props) if r[0] != 'domain' else None,
                               'stringify raised %s' % (r[2],), cfg.tabstop)

    # ---- stage tie: extracted model/CssFormatStream.css_stream on the very properties stringify received
    if model is not None:
        todo = [(('expand', abbr, cfg), r) for (abbr, cfg), r in zip(cases, impl) if r[0] == 'ok'] + \
               [(('stringify', None, cfg), r) for (props, cfg), r in zip(syn, syn_impl) if r[0] == 'ok']
        outs = model.run([cu.enc_case(r[4], r[3], meta[2].tabstop) for meta, r in todo])
        for (meta, r), w in zip(todo, outs):
            corr['stage_cases'] += 1
            mo = cu.decode_events(w)
            if mo != ('ok', cu.canon_events(r[2])):
                corr['stage_disagreements'] += 1
                if corr['stage_disagreements'] <= 5:
                    ctx.say('C13 css stage: model and implementation disagree on %r under %s\n  impl  %r\n  model %r' % (
                        meta[1] if meta[1] is not None else r[3], meta[2].to_json(), cu.canon_events(r[2])[:12], mo[1][:12] if mo[0] == 'ok' else mo))
                    ctx.broken.append({'kind': 'correspondence', 'file': 'model/CssFormatStream.v vs emmet/stylesheet/format.py',
                                       'input': meta[1], 'props': r[3] if meta[1] is None else None, 'config': meta[2].to_json(),
                                       'impl': repr(cu.canon_events(r[2]))[:400], 'model': repr(mo)[:400]})

    # ---- whole-pipeline tie: events from the abbreviation, computed inside Coq (scorer uses PrimFloat)
    if ok:
        pick = [i for i, ((abbr, cfg), r) in enumerate(zip(cases, impl)) if r[0] in ('ok', 'err')]
        budget = 1000 if quick else 6000
        head = [i for i in pick if i < len(cases) - n_cfg * per_cfg]          # corpus, fixed, every key
        tail = [i for i in pick if i >= len(cases) - n_cfg * per_cfg]
        rng.shuffle(tail)
        chosen = sorted(head + tail[:max(0, budget - len(head))])
        res = cu.coq_events(ctx, [(cases[i][1], cases[i][0]) for i in chosen])
        if res is not None:
            for i, mo in zip(chosen, res):
                (abbr, cfg), r = cases[i], impl[i]
                corr['pipeline_cases'] += 1
                if r[0] == 'ok':
                    same = mo == ('ok', cu.canon_events(r[2]))
                else:
                    same = mo[0] != 'ok'            # which error is C07's business
                if not same:
                    corr['pipeline_disagreements'] += 1
                    if corr['pipeline_disagreements'] <= 5:
                        ctx.say('C13 css pipeline: model and implementation disagree on %r under %s\n  impl  %r\n  model %r' % (
                            abbr, cfg.to_json(), cu.canon_events(r[2])[:12] if r[0] == 'ok' else r, mo[1][:12] if mo[0] == 'ok' else mo))
                        ctx.broken.append({'kind': 'correspondence', 'file': 'model/CssExpandStream.v vs emmet.expand (stylesheet)',
                                           'input': abbr, 'config': cfg.to_json(),
                                           'impl': repr(cu.canon_events(r[2]) if r[0] == 'ok' else r)[:400], 'model': repr(mo)[:400]})
    for (abbr, cfg), r in list(zip(cases, impl))[3:5]:
        if r[0] == 'ok':
            ctx.sample({'stylesheet': abbr, 'config': cfg.to_json(), 'callbacks': [list(e) for e in r[2][:8]]})


def replay_css(ctx, rp):
    cfg = su.Cfg.from_json(rp['cfg'])
    if rp.get('kind') == 'expand-rewriting':
        r = cu.impl_run(rp['abbr'], cu.cfg_user_config(cfg), True, None, rewrite=True)
        bad = fu.positions_check(r[1], cu.oracle_events(r[2]), r[4]['output.newline']) if r[0] == 'ok' else None
        print('C13 stylesheet (rewriting callbacks) %r under %s\n  -> %r\n  %s' % (
            rp['abbr'], cfg.to_json(), r[:3], ('property fails: ' + bad) if bad else 'property holds'))
        return 1 if bad else 0
    if rp.get('abbr') is not None:
        r = cu.impl_run(rp['abbr'], cu.cfg_user_config(cfg), rp.get('tabstop', cfg.tabstop))
    else:
        r = cu.impl_stringify(cu.build_props(cu.snapshot_from_json(rp['props'])), cu.cfg_user_config(cfg),
                              rp.get('tabstop', cfg.tabstop))
    if r[0] == 'ok':
        bad = cu.css_oracle(r[1], r[2], r[3], r[4])
    elif r[0] == 'hang':
        bad = 'did not return within %s s' % r[1]
    elif r[0] == 'err' and rp.get('abbr') is None:
        bad = 'stringify raised %s' % (r[2],)
    else:
        bad = None
    print('C13 stylesheet %r under %s\n  -> %r\n  %s' % (rp.get('abbr') if rp.get('abbr') is not None else rp.get('props'),
                                                          cfg.to_json(), r[:3], ('property fails: ' + bad) if bad else 'property holds'))
    return 1 if bad else 0


def replay(ctx, obj):
    rp = obj.get('replay', {})
    if rp.get('component') == 'C13-css':
        return replay_css(ctx, rp)
    if 'abbr' not in rp:
        print('replay names a broken obligation, no input: %s' % str(rp)[:300])
        return 1
    if rp.get('component') == 'C13-rewriting':
        r = impl_events_rewriting(rp['abbr'], rp['config'])
        bad = fu.positions_check(r[1], r[2], fu.resolved_options(rp['config'])['output.newline']) if r[0] == 'ok' else \
            ('hang' if r[0] == 'hang' else None)
    elif rp.get('component') == 'C13-style':
        r = impl_style_events(rp['abbr'], rp['config'])
        bad = fu.positions_check(r[1], r[2], fu.resolved_options(rp['config'])['output.newline']) if r[0] == 'ok' else None
    else:
        from markup_util import impl_events
        r = impl_events(rp['abbr'], rp['config'])
        meta = rp.get('meta')
        if meta is None:
            meta = {'explicit': fu.has_explicit_field(rp['abbr'])}
        bad = oracle(rp['abbr'], rp['config'], meta, r)
    print('C13 on %r under %s\n  -> %r\n  %s' % (rp['abbr'], canon_cfg(rp['config']), r,
                                                 ('property fails: ' + bad) if bad else 'property holds'))
    return 1 if bad else 0
