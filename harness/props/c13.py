"""C13 -- Tabstops are numbered in document order and reported positions are exact."""
import copy
import glob
import json
import os
import re

import abbr_gen as g
import format_util as fu
from markup_util import run_cases, canon_cfg, classify_exc

HERE = os.path.dirname(os.path.abspath(__file__))
CORPUS = os.path.join(os.path.dirname(os.path.dirname(HERE)), 'corpus', 'C13')

NEWLINES = ['\n', '\n', '\r\n', '\r', '', '~~']
FIELD_RE = re.compile(r'\$\{(\d+)')
BOOLEAN_NAMES = {'disabled', 'checked', 'hidden'}


# ---------------------------------------------------------------- expected tabstop structure (from the AST)
def value_fields(v):
    return [int(n) for n in FIELD_RE.findall(v)]


def expected_groups(tree, out):
    """Document-order list of field groups, one per value that produces tabstops: the explicit
    indices of the value, or [0] for an empty attribute value / empty leaf.  None when the tree
    uses something this independent reading does not cover."""
    for name, el, cs, kids in tree:
        seen = set()
        for n, v, q in el.attrs:
            base = n.rstrip('.')
            if base in seen or base in ('class', 'id'):
                return None
            seen.add(base)
            if n.endswith('.') or (base in BOOLEAN_NAMES and v is None):
                if v is None:
                    continue
            if v is None or v == '':
                out.append([0])
            else:
                f = value_fields(v)
                if f:
                    out.append(f)
        if el.text is not None:
            f = value_fields(el.text)
            if f and kids:
                return None          # children are inserted at the first field: value is split
            if f:
                out.append(f)
        elif not kids and not el.self_close:
            out.append([0])
        if kids:
            if expected_groups(kids, out) is None:
                return None
    return out


_FIELD_SNIPPETS = {}


def uses_field_snippet(abbr, cfg):
    """Does the abbreviation name a snippet whose definition carries explicit fields (e.g.
    `input` = input[type=${1:text}])?  Then it is not an abbreviation without explicit fields."""
    from emmet.config import Config
    syn = cfg.get('syntax', 'html')
    if syn not in _FIELD_SNIPPETS:
        sn = Config({'syntax': syn}).snippets
        _FIELD_SNIPPETS[syn] = {k for k, v in sn.items() if isinstance(v, str) and re.search(r'\$\{\d', v)}
    words = set(re.findall(r'[A-Za-z!][\w:!\-]*', abbr))
    return bool(words & _FIELD_SNIPPETS[syn])


def fields_of(events):
    return [e[1] for e in events if e[0] == 'field']


def check_groups(emitted, groups):
    flat = sum(len(x) for x in groups)
    if len(emitted) != flat:
        return 'expected %d tabstops (%r), %d emitted (%r)' % (flat, groups[:8], len(emitted), emitted[:12])
    k = 0
    prev_max = 0
    for gi, grp in enumerate(groups):
        em = emitted[k:k + len(grp)]
        k += len(grp)
        for j in range(1, len(grp)):
            if em[j] - em[0] != grp[j] - grp[0]:
                return 'value %d: fields %r were emitted as %r: relative numbering changed' % (gi, grp, em)
        if min(em) <= prev_max:
            return 'value %d: emitted indices %r collide with / do not follow the earlier ones (max so far %d)' % (gi, em, prev_max)
        prev_max = max(em)
    return None


def oracle(abbr, cfg, meta, r):
    """positions exact for every callback; tabstops 1..k in document order; explicit fields
    keep relative numbering inside a value and never collide across values."""
    if r[0] == 'hang':
        return 'expand did not return within %s s' % r[1]
    if r[0] != 'ok':
        return None                  # parse errors etc. are C07's business
    final, events = r[1], r[2]
    o = fu.resolved_options(cfg)
    bad = fu.positions_check(final, events, o['output.newline'])
    if bad:
        return bad
    if meta is None:
        return None
    emitted = fields_of(events)
    if not meta.get('explicit') and not uses_field_snippet(abbr, cfg):
        if emitted != list(range(1, len(emitted) + 1)):
            return 'tabstops are not 1..k in document order: %r' % (emitted[:20],)
        if meta.get('countable'):
            style_html = o['output.selfClosingStyle'] == 'html'
            if not (o.get('output.compactBoolean') and not style_html) and not (style_html and '/' in abbr):
                nl = o['output.newline']
                k = fu.count_tabstop_sites(final.replace(nl, '\n') if nl.strip() else final)
                if k != len(emitted):
                    return '%d empty attribute values / empty leaves in the output, %d tabstops emitted (%r)' % (
                        k, len(emitted), emitted[:12])
    if '{' not in abbr and not uses_field_snippet(abbr, cfg) and not (o.get('output.compactBoolean') and o['output.selfClosingStyle'] != 'html'):
        # (compact boolean attributes are written name="" outside the html style: not an empty VALUE)
        # every empty attribute value of the result holds a tabstop: a field callback writes (its empty placeholder)
        # exactly between the two delimiters -- in every syntax, also for a value written as `[title=""]`
        field_offsets = set(e[3] for e in events if e[0] == 'field')
        for m in fu.EMPTY_ATTR_RE.finditer(final):
            if m.start() + 2 not in field_offsets:
                return 'the empty attribute value at offset %d (%r) has no tabstop' % (m.start(), final[max(0, m.start() - 12):m.end()])
    groups = meta.get('groups')
    if groups is not None:
        return check_groups(emitted, groups)
    return None


# ---------------------------------------------------------------- stylesheet side (implementation only)
CSS_PARTS = ['p10', 'm10-20', 'm', 'p', 'bd1-s#f', 'c#f00', 'pos:a', 'd:n', 'fz12', 'lh1.5', 'bgc', 'w100p', 'bdrs10',
             'trf:r', 'ov:h', 'fl:l', 'm-a', 'bg', 'bgi', 'c', 'op', 'zi10', 'ff:a', 'tt:u', 'fw:b', 'mt${1:x}', 'p!',
             'foo:bar', 'bxsh', 'trs', '@m', 'anim', 'gtc', 'cont"a\nb"', "ff'x\r\ny z'", 'cont"one\n\ntwo"']


def impl_style_events(abbr, cfg):
    from emmet import expand
    uc = copy.deepcopy(cfg)
    events = []

    def field(index, placeholder, offset=None, line=None, column=None, **kw):
        events.append(('field', index, placeholder, offset, line, column))
        return placeholder

    def text(t, offset=None, line=None, column=None, **kw):
        events.append(('text', t, offset, line, column))
        return t
    uc.setdefault('options', {})
    uc['options']['output.field'] = field
    uc['options']['output.text'] = text
    from common import time_limit, Hang
    try:
        with time_limit(10):
            return ('ok', expand(abbr, uc), events)
    except Hang:
        return ('hang', 10)
    except Exception as e:  # noqa
        return classify_exc(e)


def impl_events_rewriting(abbr, cfg):
    """Callbacks that do NOT return what they are given: fields become editor tabstops
    `${index:placeholder}`, text is HTML-escaped.  The recorded string is the returned one."""
    from emmet import expand
    from common import time_limit, Hang
    uc = copy.deepcopy(cfg)
    events = []

    def field(index, placeholder, offset=None, line=None, column=None, **kw):
        ret = '${%d:%s}' % (index, placeholder) if placeholder else '${%d}' % index
        events.append(('field', index, ret, offset, line, column))
        return ret

    def text(t, offset=None, line=None, column=None, **kw):
        ret = t.replace('&', '&amp;').replace('<', '&lt;')
        events.append(('text', ret, offset, line, column))
        return ret
    uc.setdefault('options', {})
    uc['options'] = dict(uc['options'])
    uc['options']['output.field'] = field
    uc['options']['output.text'] = text
    try:
        with time_limit(10):
            return ('ok', expand(abbr, uc), events)
    except Hang:
        return ('hang', 10)
    except Exception as e:  # noqa
        return classify_exc(e)


def style_cases(rng, n):
    out = []
    for _ in range(n):
        abbr = '+'.join(rng.choice(CSS_PARTS) for _ in range(rng.randint(1, 5)))
        o = {}
        if rng.random() < 0.7:
            o['output.newline'] = rng.choice(NEWLINES)
        if rng.random() < 0.4:
            o['output.baseIndent'] = rng.choice(['', '  ', '\t'])
        if rng.random() < 0.4:
            o['output.indent'] = rng.choice(['\t', '  ', ''])
        if rng.random() < 0.3:
            o['stylesheet.between'] = rng.choice([':', ': ', ' : '])
        if rng.random() < 0.2:
            o['stylesheet.after'] = rng.choice(['', ';', ' ;'])
        if rng.random() < 0.15:
            o['stylesheet.json'] = True
        out.append((abbr, {'type': 'stylesheet', 'syntax': rng.choice(fu.STYLE_SYNTAXES), 'options': o}))
    return out


# ---------------------------------------------------------------- cases
FIXED = [
    ('a[title=${1:x\ny}]', {}),
    ('a[title=${1:x\ny}]>b', {'options': {'output.newline': '\r\n', 'output.baseIndent': '  '}}),
    ('div>p{${2:two\nlines} and ${1}}+img', {'options': {'output.baseIndent': '\t'}}),
    ('ul>li*3', {}),
    ('a+img+input[title]', {}),
    ('p{${1} a ${2} b ${3}}>x', {}),
    ('div[a=${3}${1} b=${1:q}]{${2:w}}', {}),
    ('div>{a\nb}+p{x ${2:u} ${1}}', {'options': {'output.newline': '\r\n'}}),
    ('ul>li.item$*2>a{t$ ${1:ph}}', {'syntax': 'pug'}),
    ('div.c[title]{a\nb}>p', {'syntax': 'haml', 'options': {'output.baseIndent': '  '}}),
    ('table>tr>td[title= colspan]', {'syntax': 'slim'}),
    ('p[title=""]', {'syntax': 'pug'}), ("a[href='' title]+b[t={}]", {'syntax': 'haml'}), ('p[title=""]>a[href=""]', {'syntax': 'slim'}),
    ('p[title=""]+a[href=\'\']', {}), ('input[value="" disabled.]', {'syntax': 'pug'}),
]


def load_corpus():
    out = []
    for p in sorted(glob.glob(os.path.join(CORPUS, '*.json'))):
        with open(p) as f:
            out.append(json.load(f))
    return out


def make_case(rng):
    r = rng.random()
    plain_names = r < 0.5
    if plain_names:
        level = 'c13' if rng.random() < 0.6 else 'depth'
        names = g.safe_names()
        st = g.rand_stmt(rng, names, rng.randint(1, 20) if rng.random() < 0.15 else rng.randint(1, 7),
                         max_depth=3, rep_max=3, decorate=fu.decorator(rng, level))
    else:
        st = fu.rand_abbr(rng, 'c13')
    abbr = g.render(st)
    syn = rng.choice(fu.HTML_SYNTAXES + fu.HTML_SYNTAXES + fu.INDENT_SYNTAXES)
    cfg = fu.rand_base(rng, [syn])
    cos = fu.rand_cosmetic(rng, sorted(set(re.findall(r'[a-z][a-z0-9:\-]*', abbr)))[:6])
    cos['output.newline'] = rng.choice(NEWLINES)
    cfg = fu.with_options(cfg, cos)
    o = cfg['options']
    meta = {'explicit': fu.has_explicit_field(abbr)}
    html_fmt = syn in fu.HTML_SYNTAXES
    tags_in_text = any(t in abbr for t in ('<div', '<b>', '<section'))
    if plain_names and html_fmt and not o.get('output.reverseAttributes') and not o.get('comment.enabled'):
        tree = g.unroll(g.denote_stmt(st))
        if g.total_copies(tree) <= 300:
            meta['groups'] = expected_groups(tree, [])
    if plain_names and html_fmt and not tags_in_text and not meta['explicit']:
        meta['countable'] = True
    return abbr, cfg, meta


def run(ctx):
    ok = ctx.build(['props/C13.vo', 'run/MarkupRun.vo'])
    if ok:
        ctx.obligations('props/C13.v')
    model = ctx.model('markup') if ok else None
    ctx.cov['rule'] = (
        'markup: abbreviations from the statement AST generator (attributes with empty / boolean / quoted / expression / '
        'multi-line values, explicit ${n} and ${n:placeholder} fields incl. placeholders with line feeds, multi-line text, '
        'snippet names) x syntaxes html/xml/xsl/jsx/vue/svelte/haml/pug/slim x newline in {LF, CRLF, CR, empty, "~~"} x '
        'indent x baseIndent x the other output/comment options; recording output.text/output.field callbacks. Oracle per '
        'callback: returned string sits at the reported offset of the final result, offsets are contiguous, line/column = '
        'line/column of that offset in the final result (a line ends at each newline string and each line feed); tabstops '
        '1..k in document order with k = empty attribute values + empty leaves counted in the final output; explicit fields: '
        'relative numbering inside a value, index ranges of successive values disjoint and increasing (expected structure '
        'from the generator AST). The same cases go through the extracted model (event sequences compared). stylesheet: '
        'snippet sums x css/scss/sass/less/sss/stylus x newline/indent/baseIndent/between/after: positions oracle on the '
        'implementation. non-trivial = at least one field callback and three text callbacks; distinct by (abbreviation, config).')
    rng = ctx.rng
    cases = []
    for rec in load_corpus():
        cases.append((rec['abbr'], rec['config'], rec.get('meta')))
        ctx.cover('C13:corpus')
    for abbr, cfg in FIXED:
        cases.append((abbr, cfg, {'explicit': fu.has_explicit_field(abbr)}))
    # exhaustive operator skeletons with four decorations (bare, empty attribute, text with fields,
    # self-closed) under five option sets: positions, 1..k numbering, tabstop count, field groups
    max_units = 2 if ctx.tier == 'quick' else 3
    sk_cfgs = [{}, {'options': {'output.newline': '\r\n', 'output.baseIndent': '  ', 'output.formatLeafNode': True}},
               {'syntax': 'xml', 'options': {'output.format': False}}, {'syntax': 'pug'},
               {'syntax': 'jsx', 'options': {'output.newline': '~~', 'output.indent': '  ', 'output.inlineBreak': 1}}]
    n_sk = 0
    for nu in range(1, max_units + 1):
        for k, st in enumerate(g.enum_stmts(nu, ['div', 'span', 'p', 'em'], ops=('>', '+', '^'), repeats=(None, 2))):
            for unit, _ in st:
                if isinstance(unit, g.El):
                    if k % 4 == 1:
                        unit.attrs = [('title', None, ''), ('data-v', 'v', '"')]
                    elif k % 4 == 2:
                        unit.text = 'x ${2:two\nl} y ${1}'
                    elif k % 4 == 3:
                        unit.self_close = True
            abbr = g.render(st)
            cfg = sk_cfgs[k % len(sk_cfgs)]
            meta = {'explicit': fu.has_explicit_field(abbr)}
            if cfg.get('syntax', 'html') in fu.HTML_SYNTAXES:
                tree = g.unroll(g.denote_stmt(st))
                meta['groups'] = expected_groups(tree, [])
                if not meta['explicit']:
                    meta['countable'] = True
            cases.append((abbr, cfg, meta))
            n_sk += 1
    ctx.cov['exhaustive_skeletons'] = {'max_units': max_units, 'statements': n_sk}
    n = 2500 if ctx.tier == 'quick' else 60000
    for _ in range(n):
        cases.append(make_case(rng))
    impl = run_cases(ctx, model, cases, 'C13', None, mode='events')
    for (abbr, cfg, meta), r in zip(cases, impl):
        bad = oracle(abbr, cfg, meta, r)
        if bad:
            ctx.property_failure('C13:%s|%s' % (abbr, canon_cfg(cfg)),
                                 'C13 expand(%r, %s): %s' % (abbr, canon_cfg(cfg), bad),
                                 {'component': 'C13', 'abbr': abbr, 'config': cfg, 'meta': meta, 'why': bad})
        if r[0] == 'ok':
            ctx.cover('C13:syntax-' + cfg.get('syntax', 'html'))
            ctx.cover('C13:newline-' + repr(fu.resolved_options(cfg)['output.newline']))
            nf = sum(1 for e in r[2] if e[0] == 'field')
            if meta and meta.get('explicit'):
                ctx.cover('C13:explicit-fields')
            if meta and meta.get('groups') is not None:
                ctx.cover('C13:group-structure-checked')
            if meta and meta.get('countable'):
                ctx.cover('C13:tabstop-count-checked')
            if any(e[0] == 'field' and '\n' in e[2] for e in r[2]):
                ctx.cover('C13:placeholder-with-line-feed')
            if nf >= 1 and len(r[2]) - nf >= 3:
                ctx.nontrivial((abbr, canon_cfg(cfg)))
    for (abbr, cfg, meta), r in list(zip(cases, impl))[len(FIXED) + 5:len(FIXED) + 9]:
        ctx.sample({'abbr': abbr, 'config': cfg, 'callbacks': [list(e) for e in r[2][:6]] if r[0] == 'ok' else list(r)})
    # callbacks that rewrite what they are given (implementation only: the model fixes the identity callbacks)
    nr = 500 if ctx.tier == 'quick' else 8000
    for abbr, cfg, meta in cases[:nr]:
        r = impl_events_rewriting(abbr, cfg)
        ctx.count_eval()
        ctx.cover('C13:rewriting-callbacks-%s' % r[0])
        bad = None
        if r[0] == 'hang':
            bad = 'expand did not return within %s s' % r[1]
        elif r[0] == 'ok':
            bad = fu.positions_check(r[1], r[2], fu.resolved_options(cfg)['output.newline'])
        if bad:
            ctx.property_failure('C13:rewriting|%s|%s' % (abbr, canon_cfg(cfg)),
                                 'C13 expand(%r, %s) with rewriting callbacks: %s' % (abbr, canon_cfg(cfg), bad),
                                 {'component': 'C13-rewriting', 'abbr': abbr, 'config': cfg, 'why': bad})
    # stylesheet syntaxes
    ns = 800 if ctx.tier == 'quick' else 15000
    for abbr, cfg in style_cases(rng, ns):
        r = impl_style_events(abbr, cfg)
        ctx.count_eval()
        ctx.cover('C13:style-%s' % r[0])
        if r[0] == 'hang':
            ctx.property_failure('C13:style-hang|%s|%s' % (abbr, canon_cfg(cfg)),
                                 'C13 stylesheet expand(%r, %s) did not return within %s s' % (abbr, canon_cfg(cfg), r[1]),
                                 {'component': 'C13-style', 'abbr': abbr, 'config': cfg, 'why': 'hang'})
        if r[0] != 'ok':
            continue
        ctx.cover('C13:style-syntax-' + cfg['syntax'])
        bad = fu.positions_check(r[1], r[2], fu.resolved_options(cfg)['output.newline'])
        if any(e[0] == 'field' for e in r[2]):
            ctx.nontrivial((abbr, canon_cfg(cfg)))
        if bad:
            ctx.property_failure('C13:style|%s|%s' % (abbr, canon_cfg(cfg)),
                                 'C13 stylesheet expand(%r, %s): %s' % (abbr, canon_cfg(cfg), bad),
                                 {'component': 'C13-style', 'abbr': abbr, 'config': cfg, 'why': bad})


def replay(ctx, obj):
    rp = obj.get('replay', {})
    if 'abbr' not in rp:
        print('replay names a broken obligation, no input: %s' % str(rp)[:300])
        return 1
    if rp.get('component') == 'C13-rewriting':
        r = impl_events_rewriting(rp['abbr'], rp['config'])
        bad = fu.positions_check(r[1], r[2], fu.resolved_options(rp['config'])['output.newline']) if r[0] == 'ok' else \
            ('hang' if r[0] == 'hang' else None)
    elif rp.get('component') == 'C13-style':
        r = impl_style_events(rp['abbr'], rp['config'])
        bad = fu.positions_check(r[1], r[2], fu.resolved_options(rp['config'])['output.newline']) if r[0] == 'ok' else None
    else:
        from markup_util import impl_events
        r = impl_events(rp['abbr'], rp['config'])
        meta = rp.get('meta')
        if meta is None:
            meta = {'explicit': fu.has_explicit_field(rp['abbr'])}
        bad = oracle(rp['abbr'], rp['config'], meta, r)
    print('C13 on %r under %s\n  -> %r\n  %s' % (rp['abbr'], canon_cfg(rp['config']), r,
                                                 ('property fails: ' + bad) if bad else 'property holds'))
    return 1 if bad else 0
