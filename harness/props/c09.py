"""C09 -- HTML matcher returns the innermost enclosing tag pair with exact ranges."""
import copy
import glob
import json
import os

import html_gen
import html_gen_x
import html_util as hu
from common import VERIF

FUNCS = ('match', 'outward', 'inward')


def load_corpus(pid):
    out = []
    for path in sorted(glob.glob(os.path.join(VERIF, 'corpus', pid, '*.json'))):
        with open(path) as f:
            out.append((os.path.basename(path), json.load(f)))
    return out


def check_doc(doc, results, positions):
    """Property oracle over one document: (position or None, description) of the first failure."""
    sc, m, o, inw = results
    bad = hu.c09_slices_problem(doc)
    if bad:
        raise RuntimeError('generator record inconsistent: %s in %r' % (bad, doc.text))
    if sc != (doc.events, None):
        exp = doc.events
        got = sc[0]
        k = 0
        while k < min(len(exp), len(got)) and tuple(exp[k]) == tuple(got[k]):
            k += 1
        note = 'scan reports %r where the document has %r (event %d; error %r)' % (got[k:k + 2], exp[k:k + 2], k, sc[1])
        # prefer a position at which match / balanced_outward / balanced_inward themselves go wrong
        for j, p in enumerate(positions):
            bad = hu.c09_problem(doc, p, m[j], o[j], inw[j])
            if bad:
                return (p, bad + ' [' + note + ']')
        return (None, note)
    for j, p in enumerate(positions):
        bad = hu.c09_problem(doc, p, m[j], o[j], inw[j])
        if bad:
            return (p, bad)
    return None


def doc_jobs(doc, positions):
    on = 'xml' if doc.xml else 'html'
    return [('scan', doc.text, on, None)] + [(k, doc.text, on, positions) for k in FUNCS]


def run(ctx):
    ok = ctx.build(['props/C09.vo', 'run/HtmlRun.vo'])
    if ok:
        ctx.obligations('props/C09.v')
    model = ctx.model('html') if ok else None
    quick = ctx.tier == 'quick'
    n_docs = 110 if quick else 1200
    ctx.cov['rule'] = (
        'documents rendered from random element trees (<= 60 elements, depth <= 8; paired, void, self-closed; quoted / '
        'unquoted / expression attribute values containing `>`; Angular/React attribute names; comments, CDATA, PIs, '
        'doctype; script/style with markup-like bodies, script with a non-JS type carrying markup; HTML and XML mode; '
        'wide and deep shapes for the tag pools), EVERY position 0..len; oracle = the generator\'s own record '
        '(events, innermost element, enclosing chain, element at the position + first-child chain, attribute ranges). '
        'A case = one (document, position); non-trivial when at least one element encloses the position; distinct by '
        '(document text, position). Generator domain: see harness/html_gen.py docstring (no backslash in attribute '
        'values, no `/` in unquoted values, no white space around `=` or inside close tags, quotes balanced in PIs). '
        'Added (harness/html_gen_x.py): NAME x FORM -- the raw-text names script/style in every syntactic form, also '
        'SELF-CLOSED (`<style />`, `<script src=.. />`, with JavaScript / markup / no type; no body, so the markup after '
        'it counts), and look-alikes of raw-text and void names (`scripts`, `STYLE`, `noscript`, `image`, `BR`) as '
        'ordinary elements; NAME ALPHABET -- tag and attribute names over the whole XML name alphabet (XML 1.0 sect. 2.3 '
        'NameStartChar / NameChar, all sixteen + six ranges up to U+EFFFF: CJK, Hangul, U+200C/U+200D, astral letters; '
        'ranges hard-coded from the XML recommendation): random names mixing all '
        'blocks (letters, dependent signs, tone marks, digits of other scripts, unassigned code points) in random trees, '
        'and a sweep: code points of the alphabet in a tag name and two attribute names, first position '
        '(when a NameStartChar) and later position -- every code point up to U+218F; of the longer ranges the first and '
        'last 0x40 code points, both neighbours of every multiple of 0x1000 (plane borders) and one per 0x100 (astral: '
        '0x1000) block (sweep documents are queried at 0, 1, the end and one position per '
        'open tag; their scan events cover the whole text). All added documents also go through the model. '
        'Character classes name_start_char / name_char: implementation against the XML productions (oracle) and against '
        'the model on U+0000..U+FFFF completely, every range border +-2 on all planes, every decimal digit, and a stride '
        'over the astral planes (thorough: all of U+0000..U+10FFFF). '
        'Added (harness/html_gen_x.py, YBuilder; %d documents, every position, also through the model): VALUE x PRESENCE '
        '-- next to `name` and `name=value` the form `name=` with NOTHING after the equals sign (`=` directly before `>`, '
        '`/>`, ` />`, or before white space and the next attribute; after plain, directive and bracketed names; in paired, '
        'self-closed, void and raw-text elements): such an attribute has no value, its record is the name range only, and '
        'the tag ends where it would without the `=`; the written empty values `""`, `\'\'`, `{}` as values of length 2. '
        'BACKSLASH -- backslashes wherever a tag may hold them: in paired tokens (expression values `{...}`, bracketed '
        'names `[...]` `(...)` `{...}`) a backslash takes the next character out of the pairing, so `\\}` `\\]` `\\)` '
        'do not close, `\\{` `\\[` `\\(` do not open, `\\"` starts no string, a doubled backslash escapes nothing '
        '(regular-expression literals `{/\\}>/}`, escaped quotes inside strings of an expression, `>` and `/>` behind an '
        'escaped closer, nesting); unquoted values with backslashes at any place (no meaning there, also last before `>`); '
        'quoted values with backslashes where JavaScript-style and HTML-style reading agree (doubled, or before a character '
        'that is neither the quote nor a backslash). Domain notes of html_gen that no longer hold for these documents: '
        '"no backslash in attribute values".' % (56 if quick else 560))
    docs = []
    for name, obj in load_corpus('C09'):
        docs.append(('corpus:' + name, html_gen.doc_from_json(obj['doc'] if 'doc' in obj else obj)))
    rng = ctx.rng
    for i in range(n_docs):
        docs.append(('gen:%d' % i, html_gen.gen_document(rng, xml=(i % 3 == 2))))
    # NAME x FORM and NAME ALPHABET classes (harness/html_gen_x.py)
    n_x = 48 if quick else 480
    for i in range(n_x):
        docs.append(('genx:%d' % i, html_gen_x.gen_document_x(
            rng, xml=(i % 3 == 2), names=('alphabet' if i % 2 else 'plain'), specials=(0.12 if i % 4 < 2 else 0.03))))
    # VALUE x PRESENCE and BACKSLASH classes (harness/html_gen_x.py: YBuilder)
    n_y = 56 if quick else 560
    for i in range(n_y):
        docs.append(('geny:%d' % i, html_gen_x.gen_document_y(
            rng, xml=(i % 3 == 2), names=('alphabet' if i % 4 == 3 else 'plain'), p_new=(0.5 if i % 2 else 0.8))))
    sweep = html_gen_x.alphabet_sweep_docs()
    sweep_pos = {}
    for i, (d, ps) in enumerate(sweep):
        sweep_pos[len(docs)] = ps
        docs.append(('alphabet-sweep:%d' % i, d))
    jobs = []
    pos_of = []
    for k, (_, d) in enumerate(docs):
        ps = sweep_pos.get(k) or list(range(0, len(d.text) + 1))
        pos_of.append(ps)
        jobs += doc_jobs(d, ps)
    res = hu.run_impl(jobs)
    n_fail = 0
    for i, (label, d) in enumerate(docs):
        r = res[4 * i:4 * i + 4]
        for f in d.features:
            ctx.cover('feature:' + f)
        ctx.cover('elements:%s' % ('1-3' if len(d.elems) <= 3 else '4-10' if len(d.elems) <= 10 else '11-30' if len(d.elems) <= 30 else '31-60'))
        ctx.cover('length:%s' % ('<100' if len(d.text) < 100 else '<400' if len(d.text) < 400 else '<1000' if len(d.text) < 1000 else '>=1000'))
        ctx.count_eval(len(pos_of[i]))
        out = r[2]
        for j, p in enumerate(pos_of[i]):
            if isinstance(out, list) and isinstance(out[j], list) and out[j]:
                ctx.nontrivial((d.text, p))
                ctx.cover('enclosing-depth:%d' % min(len(out[j]), 8))
        fail = check_doc(d, r, pos_of[i])
        if fail and label.startswith('alphabet-sweep:') and n_fail >= 20:
            n_fail += 1          # enough sweep documents recorded; the smallest replay is chosen among them
            continue
        if fail:
            n_fail += 1
            p, what = fail
            ctx.property_failure('c09:%s@%s' % (d.text, p), 'html_matcher on %r at %s: %s' % (d.text[:200], p, what),
                                 {'component': 'c09', 'doc': html_gen.doc_to_json(d), 'pos': p, 'why': what, 'source': label})
    gen_only = [x for x in docs if x[0].startswith('gen:')]
    call_sequences(ctx, gen_only[:16 if ctx.tier == 'quick' else 200])
    for (label, d), ps in list(zip(docs, pos_of))[-3:]:
        ctx.sample({'input': d.text[:300], 'xml': d.xml, 'positions': len(ps), 'elements': len(d.elems)})
    # correspondence model vs implementation on the same documents and positions
    dis = hu.correspond(ctx, model, jobs, res, 'html_matcher')
    if dis and not n_fail:
        job, i, a, b = dis[0]
        ctx.broken.append({'kind': 'correspondence', 'file': 'html-matcher:' + job[0], 'input': job[1][:400],
                           'opts': job[2], 'pos': None if i is None else job[3][i], 'impl': repr(a)[:300], 'model': repr(b)[:300]})
    # character classes of the scanner: the implementation against the XML productions (oracle, no model needed) and
    # against the model
    cps = char_class_points(quick)
    first_bad = None
    n_bad = 0
    for cp in cps:
        got = hu.impl_char_classes(cp)
        # str.isdecimal digits are NameChars of the library; the productions say [0-9], every other decimal digit is a
        # NameStartChar of the productions anyway (checked here as well: the two columns must be equal)
        want = [html_gen_x.is_xml_name_start(cp), html_gen_x.is_xml_name_char(cp)]
        ctx.cover('char-class:%s' % ('name-start' if want[0] else 'name-char-only' if want[1] else 'no-name-char'))
        if got[:2] != want:
            n_bad += 1
            if first_bad is None:
                first_bad = (cp, got[:2], want)
    ctx.count_eval(len(cps))
    ctx.cov['char_class_points'] = len(cps)
    if first_bad and not n_fail:
        cp, got, want = first_bad
        if want[1] and not got[1] or want[0] and not got[0]:
            # a name character the matcher does not take: a well-formed document shows it
            c = chr(cp)
            name = (c if want[0] and not got[0] else 'x' + c) + 'z'
            text = '<%s>t</%s>' % (name, name)
            d = html_gen.doc_from_json({'text': text, 'xml': True, 'features': ['name-class'],
                                        'events': [[name, 1, 0, len(name) + 2], [name, 2, len(name) + 3, len(text)]],
                                        'roots': [{'name': name, 'etype': 1, 'open': [0, len(name) + 2],
                                                   'close': [len(name) + 3, len(text)], 'attrs': [], 'children': []}]})
            ctx.property_failure('c09:name-class:U+%04X' % cp,
                                 'U+%04X is a %s of XML 1.0 sect. 2.3, the matcher says name_start_char=%r name_char=%r (%d code points differ); document %r'
                                 % (cp, 'NameStartChar' if want[0] else 'NameChar', got[0], got[1], n_bad, text),
                                 {'component': 'c09', 'doc': html_gen.doc_to_json(d), 'pos': 1, 'why': 'name class', 'source': 'char-classes'})
            n_fail += 1
        else:
            ctx.broken.append({'kind': 'char-class-wider-than-xml', 'file': 'html-char-classes', 'code_point': 'U+%04X' % cp,
                               'impl': got, 'xml': want, 'differ': n_bad})
    if model is not None:
        outs = model.run([[8, cp] for cp in cps], procs=4)
        nd = 0
        for cp, w in zip(cps, outs):
            if [bool(x) for x in w] != hu.impl_char_classes(cp):
                nd += 1
                if nd <= 3:
                    ctx.say('DISAGREE char classes U+%04X impl %r model %r' % (cp, hu.impl_char_classes(cp), w))
        ctx.cov['correspondence']['html_char_classes'] = {'cases': len(cps), 'disagreements': nd}
        if nd and not n_fail:
            ctx.broken.append({'kind': 'correspondence', 'file': 'html-char-classes', 'disagreements': nd})


def char_class_points(quick):
    """code points at which name_start_char / name_char / is_space / is_quote are compared: the whole BMP, both sides
    (+-2) of every border of every range of the XML productions, plane borders, all decimal digits with their
    neighbours, the surrogates' borders, a stride over the astral planes; thorough: every code point"""
    if not quick:
        return list(range(0, 0x110000))
    out = set(range(0, 0x10000))
    for a, b in html_gen_x.XML_NAME_START_RANGES + html_gen_x.XML_NAME_EXTRA_RANGES:
        for x in (a, b):
            out.update(range(max(0, x - 2), min(0x10FFFF, x + 2) + 1))
    for plane in range(1, 17):
        out.update(range((plane << 16) - 2, min(0x10FFFF, (plane << 16) + 2) + 1))
    out.update(range(0x10FFFD, 0x110000))
    out.update(range(0x10000, 0x110000, 0x95))
    out.update(cp for cp in range(0x10000, 0x20000) if chr(cp).isdecimal() or chr(cp - 1).isdecimal() or chr(cp + 1).isdecimal())
    return sorted(out)


POISON_DOCS = ['<ul><li>a</li><li><b>x', '<div><p>q</p> z', '<a><b><c>', '</x></y>', '<p title="', '<!-- open', '<script>x<b>', '<i>t</i><u><s>']


def call_sequences(ctx, docs):
    """The answer for (document, position) does not depend on earlier calls: positions are queried in a shuffled
    order, alternating between documents, with queries on half-typed documents interleaved; every answer is checked
    against the generator's record."""
    rng = ctx.rng
    n = bad_n = 0
    docs = [d for _, d in docs]
    # every call of this phase, in order: state kept by the library between calls may stem from any earlier call,
    # so a replay file carries the complete history (a suffix of it need not reproduce the failure)
    hist = []
    for k in range(0, len(docs) - 1, 2):
        queries = []
        for d in (docs[k], docs[k + 1]):
            ps = list(range(0, len(d.text) + 1))
            rng.shuffle(ps)
            queries += [(d, p) for p in ps[:40]]
        rng.shuffle(queries)
        for j, (d, pos) in enumerate(queries):
            opts = copy.deepcopy(hu.OPT_SETS['xml' if d.xml else 'html'])
            if j % 3 == 0:
                poison = rng.choice(POISON_DOCS)
                pp = rng.randint(0, len(poison))
                hu.impl_match(poison, pp, opts), hu.impl_outward(poison, pp, opts), hu.impl_inward(poison, pp, opts)
                hist.append([poison, pp, bool(d.xml)])
            m, o, i = hu.impl_match(d.text, pos, opts), hu.impl_outward(d.text, pos, opts), hu.impl_inward(d.text, pos, opts)
            hist.append([d.text, pos, bool(d.xml)])
            n += 1
            ctx.count_eval()
            ctx.cover('call-sequence-queries')
            bad = hu.c09_problem(d, pos, m, o, i)
            if bad:
                bad_n += 1
                ctx.property_failure('c09:sequence:%s@%d' % (d.text, pos),
                                     'after other calls (shuffled positions, other documents, half-typed documents) position %d of %r: %s' % (pos, d.text[:120], bad),
                                     {'component': 'c09-sequence', 'doc': html_gen.doc_to_json(d), 'pos': pos, 'why': bad, 'history': list(hist)})
                if bad_n >= 5:
                    break
        if bad_n >= 5:
            break
    ctx.cov['call_sequence_queries'] = n


def replay(ctx, obj):
    rp = obj.get('replay', {})
    if 'doc' not in rp:
        print('replay names a broken obligation, no input: %s' % json.dumps(rp)[:600])
        return 1
    doc = html_gen.doc_from_json(rp['doc'])
    if rp.get('component') == 'c09-sequence':
        for t, q, x in rp.get('history', []):
            opts = copy.deepcopy(hu.OPT_SETS['xml' if x else 'html'])
            m, o, i = hu.impl_match(t, q, opts), hu.impl_outward(t, q, opts), hu.impl_inward(t, q, opts)
        bad = hu.c09_problem(doc, rp['pos'], m, o, i)
        print('after the recorded call history, position %d of %r: %s' % (rp['pos'], doc.text[:200], bad or 'property holds'))
        return 1 if bad else 0
    ps = list(range(0, len(doc.text) + 1))
    res = hu.run_impl(doc_jobs(doc, ps))
    fail = check_doc(doc, res, ps)
    print('document %r -> %s' % (doc.text[:300], 'position %s: %s' % fail if fail else 'property holds'))
    return 1 if fail else 0
