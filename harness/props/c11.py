"""C11 -- extract finds exactly the abbreviation that ends at the caret.

Streams (all through the implementation, the property oracles and the extracted Coq model):
  corpus      corpus/C11/*.json (past failures and the minimal inputs of the listed findings), first
  consistency arbitrary lines x every caret position (and positions outside the line) x options:
              exhaustive short lines over a bracket/quote/operator alphabet + random fragment mixes
  roundtrip   generated valid markup / stylesheet abbreviations x left context x right context x
              look-ahead (incl. an auto-closed tail right of the caret) x prefix
  prefix-roundtrip  the prefix search (get_start_offset / consume_pair / consume_list): valid abbreviations
              directly right of a configured prefix, ARBITRARY text left of the prefix (matched / unmatched
              brackets of every kind, quotes, tags, earlier whole / partial prefix occurrences, an earlier
              prefixed abbreviation), abbreviations with empty pairs [] {} (), caret at the end or before an
              auto-closed tail; exhaustive short left texts x bracket-pair shapes, then random
  tag-roundtrip  round trip after a complete HTML tag in EVERY SPELLING of its names: every identifier character
              (each ASCII letter of both cases, each digit, '-', ':') in every place of a tag (tag name, attribute
              name, unquoted value; the tag shapes of extract_util.TAG_CHAR_SHAPES) exhaustively, then every generated abbreviation right of tags
              built from really used mixed-case names (DIV, MyComponent, viewBox, onClick, xlink:Href ...) and of
              the lower-case tag contexts re-cased (upper / Title / rAnDoM / camelCase)
  value-roundtrip  round trip after a complete HTML tag whose UNQUOTED ATTRIBUTE VALUES use the whole value alphabet of
              HTML 13.1.2.3 (everything but white space " ' = < > `): every value character in every place of a value x
              every tag shape, EVERY properly nested bracket word over ( ) [ ] { } up to 3 (thorough 4) pairs -- every order
              of kinds, every nesting shape -- in four filler layouts, closers without opener, really written JSX / template
              values (items={[1,2]}, on={fn(a,b)}, v=f(x)[0].y), then random values nested up to depth 6 in random tags for
              every generated abbreviation (c11_unquoted.py; two sub-classes fail on the unchanged library and are OFF)
  option-values  the VALUES and FORMS of the options and of the call (c11_options.py): `lookAhead` given as every kind of
              value a caller may pass for a flag (False 0 None '' 0.0 [] {} = off; True 1 2 -1 1.0 0.5 non-empty strings, lists,
              dicts = on; key absent = the documented default, on) in every look-ahead sensitive situation: the caret directly
              before every short run of quotes / closers / other characters (consistency, both types, with and without a prefix),
              the round trip at the end of generated abbreviations (every value) and before an auto-closed tail (every ON value:
              round trip; every OFF value: the end stays at the caret); options written with defaults left out / written out,
              `prefix` present but empty ('' / None); unknown `type` strings (consistency only); default options in every form of
              the call (options omitted / None / {}, line only, keywords, emmet.extract)
  is_html     is_html / consume_quoted on tag-like texts (correspondence of the tag heuristic only), lower-case
              and mixed-case spellings, tags with rich unquoted values (incl. brackets that are not properly nested)
"""
import re
import itertools

from common import enc_str
import extract_util as U
import c11_unquoted as V
import c11_options as O

TYPES = ('markup', 'stylesheet')


def opts_key(o):
    f = U.full_opts(o)
    k = (f['type'], bool(f['lookAhead']), f['prefix'])
    if not isinstance(f['lookAhead'], bool):       # the flag given as another kind of value: part of the input
        k += ('lookAhead=%r' % (f['lookAhead'],),)
    return k


# ------------------------------------------------------------------ consistency stream
LA_TAIL_LEN = {'quick': 3, 'thorough': 4}
RECASED_LINE_RATE = 0.15     # share of the random lines whose ASCII letters are put into another case


def gen_consistency(ctx):
    """yields (line, pos, opts)"""
    rng = ctx.rng
    quick = ctx.tier == 'quick'
    cases = []
    n_ex = 3 if quick else 4
    alpha = U.EX_ALPHA
    k = 0
    for n in range(0, n_ex + 1):
        for tup in itertools.product(alpha, repeat=n):
            line = ''.join(tup)
            for pos in range(len(line) + 1):
                for ty in TYPES:
                    for look in (True, False):
                        cases.append((line, pos, {'type': ty, 'lookAhead': look}))
                # one prefixed variant per (line, pos), rotating through prefixes / types / look-ahead
                k += 1
                p = U.OPT_PREFIXES[2 + k % (len(U.OPT_PREFIXES) - 2)]
                cases.append((line, pos, {'type': TYPES[k % 2], 'lookAhead': bool((k // 2) % 2), 'prefix': p}))
            if n <= 2:
                for pos in U.odd_positions(line):
                    cases.append((line, pos, {'type': TYPES[k % 2], 'lookAhead': bool(k % 3)}))
    la = U.lookahead_tail_cases(LA_TAIL_LEN['quick' if quick else 'thorough'])
    ctx.cover('consistency:look-ahead-tail-cases', len(la))
    cases.extend(la)
    n_rand = 4000 if quick else 60000
    n_recased = 0
    for _ in range(n_rand):
        r = rng.random()
        if r < 0.5:
            line = ''.join(rng.choice(U.FRAGS) for _ in range(rng.randint(1, 12)))
        elif r < 0.8:
            line = ''.join(rng.choice(alpha) for _ in range(rng.randint(5, 40)))
        else:
            g = U.AbbrGen(rng, wild=True)
            line = rng.choice(['', ' ', '<div>', 'x ']) + (g.markup() if rng.random() < 0.7 else g.stylesheet()) + \
                rng.choice(['', ' ', ')', '"]', '}'])
        if rng.random() < RECASED_LINE_RATE:      # the same text written in another letter case
            line = U.recase(line, rng)[1]
            n_recased += 1
        n = len(line)
        ps = {rng.randint(0, n) for _ in range(3)} | {n}
        if rng.random() < 0.1:
            ps |= {rng.choice(U.odd_positions(line))}
        for pos in ps:
            o = {'type': rng.choice(TYPES), 'lookAhead': rng.random() < 0.6}
            if rng.random() < 0.4:
                if rng.random() < 0.5 and line:
                    i = rng.randint(0, n - 1)
                    o['prefix'] = line[i:i + rng.randint(1, 3)]
                else:
                    o['prefix'] = rng.choice(U.OPT_PREFIXES[2:])
            if rng.random() < 0.05:
                o = {}
            cases.append((line, pos, o))
    ctx.cover('consistency:random-lines-re-cased', n_recased)
    return cases


def check_consistency(ctx, cases, model, label, enc=U.enc_case):
    impl = [U.impl_extract(l, p, o) for l, p, o in cases]
    for (line, pos, o), r in zip(cases, impl):
        ctx.count_eval()
        bad = U.consistency_oracle(line, pos, o, r)
        if bad:
            ctx.property_failure('consistency:%r|%r|%r' % (line, pos, opts_key(o)),
                                 'extract_abbreviation(%r, %r, %r): %s' % (line, pos, o, bad),
                                 {'stream': 'consistency', 'line': line, 'pos': pos, 'opts': o, 'impl': repr(r), 'why': bad})
        if r is None:
            ctx.cover(label + ':none')
        elif r[0] != 'internal':
            ctx.cover(label + ':found')
            ctx.nontrivial(('c', line, pos, opts_key(o)))
            if r[0] == '':
                ctx.cover(label + ':found-empty-abbreviation')
            if r[3] != U.clamp(line, pos):
                ctx.cover(label + ':look-ahead-moved-end')
            if U.full_opts(o)['prefix']:
                ctx.cover(label + ':found-with-prefix')
        if pos is None or pos < 0 or pos > len(line):
            ctx.cover(label + ':position-outside-line')
        ctx.cover(label + ':type:' + U.full_opts(o)['type'])
    encs = [enc(l, p, o) for l, p, o in cases]
    sel = [i for i, e in enumerate(encs) if e is not None]       # None: settings the model has no notion of
    if len(sel) != len(cases):
        ctx.cover(label + ':not-through-the-model', len(cases) - len(sel))
    correspond(ctx, [(encs[i], cases[i]) for i in sel], [impl[i] for i in sel], model, label,
               lambda c, r: U.consistency_oracle(c[0], c[1], c[2], r))
    return impl


def correspond(ctx, enc_cases, impl, model, label, oracle):
    """Compare the four result fields between model and implementation."""
    if model is None:
        return
    outs = model.run([e for e, _ in enc_cases])
    dis = 0
    for (e, c), r, w in zip(enc_cases, impl, outs):
        m = U.dec_result(w)
        if m != r:
            dis += 1
            if dis <= 5:
                ctx.say('DISAGREE %s extract%r\n  impl  %r\n  model %r' % (label, c, r, m))
            if dis <= 20:
                bad = oracle(c, r)
                # a failing input has already been reported by the oracle pass; a disagreement
                # without a (new) failing input breaks the tie between model and code
                if not bad or ctx.match_known(bad_key(bad)) is not None:
                    ctx.broken.append({'kind': 'correspondence', 'file': 'extract_abbreviation:' + label,
                                       'input': repr(c)[:300], 'impl': repr(r)[:300], 'model': repr(m)[:300]})
    d = ctx.cov['correspondence'].setdefault('extract_' + label, {'cases': 0, 'disagreements': 0})
    d['cases'] += len(enc_cases)
    d['disagreements'] += dis


def bad_key(bad):
    return bad[0] if isinstance(bad, tuple) else None


# ------------------------------------------------------------------ round-trip stream
def gen_roundtrip(ctx):
    rng = ctx.rng
    quick = ctx.tier == 'quick'
    out = []
    stats = {'invalid': 0}
    seen = set()

    def add(abbr, markup, budget, wild):
        if (abbr, markup) in seen:
            return
        seen.add((abbr, markup))
        if not U.valid_abbreviation(abbr, markup):
            stats['invalid'] += 1
            return
        for rt in U.rt_cases(rng, abbr, markup, budget):
            out.append((rt, wild))

    fixed = ['a', 'ul>li', 'ul>li.item$*3', 'li[title=x]*3>a', 'a[href="x" title=\'y z\']>b', 'div#main.c1.c2',
             '(header>ul>li*2)+footer', 'p{text}', 'p{some text here}+a', 'a>b^c', 'a>b>c^^d', 'ul+', 'br/', 'a.b/+c',
             '(a+b)*3>c', '((a>b)+c)*2', 'p{a > b}>i', 'a[b="c>d"]>e', 'a[b="(x)" c]', 'h$.item$$$@-3*5', '{text}',
             'a{"q"}>b', "a[t='<i>']>b", 'a{x=1}*3>b', 'input[disabled]+a', 'a[b.]', 'ns:el>x-y', 'A>B', 'a*>b',
             'table>(tr.prefix-intro>td*1)+(tr.prefix-pro-con>th*1+td*3)+(tr.prefix-key-specs>th[colspan=2]*1+td[colspan=2]*3)']
    for a in fixed:
        add(a, True, 1000, False)
    for a in ['m10', 'p10-20', 'c#f00', 'bd1-s#fc0', 'm10+p5', 'w100p', 'p10!', '@k', 'fl:l', 'm-10--5', 'c#f.5', 'trf:r(a)',
              'p$a', 'bg:n+c#0', 'lh1.5', 'm0-a']:
        add(a, False, 1000, False)
    n_m, n_s, n_w = (350, 120, 150) if quick else (6000, 2000, 2500)
    budget = 6 if quick else 10
    g = U.AbbrGen(rng, wild=False)
    for _ in range(n_m):
        add(g.markup(), True, budget, False)
    for _ in range(n_s):
        add(g.stylesheet(), False, budget, False)
    gw = U.AbbrGen(rng, wild=True)
    for _ in range(n_w):
        if rng.random() < 0.8:
            add(gw.markup(), True, 3, True)
        else:
            add(gw.stylesheet(), False, 3, True)
    ctx.cover('roundtrip:candidates-rejected-by-the-parser', stats['invalid'])
    return out


# ------------------------------------------------------------------ round trip after tags in every spelling
TAG_CASE_PER_ABBR = {'quick': 2, 'thorough': 4}


def gen_tag_roundtrip(ctx, rt_cases):
    """Round trip after a complete HTML tag whose names are spelled with every identifier character (both letter
    cases, digits, '-', ':').  rt_cases: the cases of gen_roundtrip (their abbreviations are reused)."""
    rng = ctx.rng
    tier = 'quick' if ctx.tier == 'quick' else 'thorough'
    ma = [a for a in U.TAG_SWEEP_ABBRS if U.valid_abbreviation(a, True)]
    ca = [a for a in U.TAG_SWEEP_ABBRS_CSS if U.valid_abbreviation(a, False)]
    if len(ma) != len(U.TAG_SWEEP_ABBRS) or len(ca) != len(U.TAG_SWEEP_ABBRS_CSS):
        ctx.cover('tag-roundtrip:GENERATOR-abbreviation-rejected-by-the-parser')
    out = [(rt, False) for rt in U.tag_char_sweep(ma or ['a'], ca or ['m10'])]
    ctx.cover('tag-roundtrip:exhaustive-identifier-character-cases', len(out))
    seen = {}
    for rt, wild in rt_cases:
        markup = U.full_opts(rt.opts)['type'] == 'markup'
        seen.setdefault((rt.abbr, markup), wild)
    for (abbr, markup), wild in seen.items():
        for rt in U.tag_case_rt(rng, abbr, markup, TAG_CASE_PER_ABBR[tier]):
            out.append((rt, wild))
    if U.TAG_NAME_CHARS_BEYOND_IDENT:
        ctx.cover('tag-roundtrip:name-characters-beyond-letters-digits-dash-colon:ON')
    return out


# ------------------------------------------------------------------ round trip after tags with rich unquoted values
VALUE_BRACKET_PAIRS = {'quick': 3, 'thorough': 4}
VALUE_RT_PER_ABBR = {'quick': 2, 'thorough': 4}


def gen_value_roundtrip(ctx, rt_cases):
    """Round trip after a complete HTML tag whose unquoted attribute values use the whole value alphabet, brackets of
    the three kinds nested in every order included.  rt_cases: the cases of gen_roundtrip (abbreviations reused)."""
    rng = ctx.rng
    tier = 'quick' if ctx.tier == 'quick' else 'thorough'
    ma = [a for a in U.TAG_SWEEP_ABBRS if U.valid_abbreviation(a, True)] or ['a']
    ca = [a for a in U.TAG_SWEEP_ABBRS_CSS if U.valid_abbreviation(a, False)] or ['m10']
    sweep, st1 = V.value_char_sweep(ma, ca)
    ctx.cover('value-roundtrip:exhaustive-value-character-cases', len(sweep))
    br, st2 = V.bracket_sweep(VALUE_BRACKET_PAIRS[tier], ma, ca)
    ctx.cover('value-roundtrip:exhaustive-bracket-value-cases', len(br))
    for st in (st1, st2):
        for where, n in st.items():
            ctx.cover('value-roundtrip:%s' % ('values-of-switched-off-classes-not-embedded' if where == 'skipped'
                                              else 'exhaustive:value-' + where), n)
    out = [(rt, False) for rt in sweep + br]
    seen = {}
    for rt, wild in rt_cases:
        markup = U.full_opts(rt.opts)['type'] == 'markup'
        seen.setdefault((rt.abbr, markup), wild)
    for (abbr, markup), wild in seen.items():
        for rt in V.value_rt(rng, abbr, markup, VALUE_RT_PER_ABBR[tier]):
            out.append((rt, wild))
            ctx.cover('value-roundtrip:random-tag-cases')
    for nm, on in (('brackets-not-properly-nested', V.UNQ_NOT_PROPERLY_NESTED),
                   ('slash-before-name-characters-at-the-end', V.UNQ_SLASH_BEFORE_NAME_END)):
        if on:
            ctx.cover('value-roundtrip:%s:ON' % nm)
    return out


# ------------------------------------------------------------------ prefix round-trip stream
PREFIX_RT_EXHAUSTIVE_LEN = {'quick': 2, 'thorough': 3}
PREFIX_RT_PER_ABBR = {'quick': 4, 'thorough': 6}


def gen_prefix_roundtrip(ctx, rt_cases):
    """Round trip right of a configured prefix with arbitrary text left of the prefix.
    rt_cases: the cases of gen_roundtrip (their abbreviations, already accepted by the parser, are reused)."""
    rng = ctx.rng
    tier = 'quick' if ctx.tier == 'quick' else 'thorough'
    out = []
    for a in U.PREFIX_SHAPES + U.PREFIX_SHAPES_CSS:
        if not U.valid_abbreviation(a, a in U.PREFIX_SHAPES):
            ctx.cover('prefix-roundtrip:GENERATOR-shape-rejected-by-the-parser')
    for rt in U.prefix_rt_exhaustive(rng, PREFIX_RT_EXHAUSTIVE_LEN[tier]):
        out.append((rt, False))
    seen = {}
    for rt, wild in rt_cases:
        markup = U.full_opts(rt.opts)['type'] == 'markup'
        seen.setdefault((rt.abbr, markup), wild)
    others = [a for (a, m) in seen if m][:200] or ['a']
    for (abbr, markup), wild in seen.items():
        for rt in U.prefix_rt_random(rng, abbr, markup, others, PREFIX_RT_PER_ABBR[tier]):
            out.append((rt, wild))
    for rt, _ in out:
        p = rt.opts['prefix']
        for k in U.before_kind(rt.left[:len(rt.left) - len(p)], p):
            ctx.cover('prefix-roundtrip:left-of-prefix:' + k)
        for k in U.pair_kinds(rt.abbr):
            ctx.cover('prefix-roundtrip:abbreviation:' + k)
        if rt.back:
            ctx.cover('prefix-roundtrip:caret-before-auto-closed-tail')
        ctx.cover('prefix-roundtrip:prefix-length:%d' % min(len(p), 3))
    return out


TAG_NAME_FINDING = 'roundtrip:tag-name-character-outside-letters-digits-dash-colon'


def tag_has_extra_name_char(left):
    """Does the last tag of the left context spell a tag / attribute name (outside quoted values) with one of the
    characters HTML allows in names but is_html.is_ident() does not accept?"""
    left = re.sub(r'"[^"]*"|\'[^\']*\'', '', left)
    i = left.rfind('<')
    if i < 0:
        return False
    seg = left[i:]
    return any(c in U.TAG_EXTRA_NAME_CHARS for c in seg)


VALUE_NESTING_FINDING = 'roundtrip:unquoted-value-brackets-not-properly-nested'
VALUE_SLASH_FINDING = 'roundtrip:unquoted-value-slash-before-name-characters'


def unquoted_value_class(left):
    """The listed finding class of an unquoted attribute value in the last tag of the left context, or None."""
    left = re.sub(r'"[^"]*"|\'[^\']*\'', '""', left)
    i = left.rfind('<')
    if i < 0:
        return None
    seg = left[i:]
    if seg.endswith('>'):
        seg = seg[:-1]
    for m in re.finditer(r'=([^ \t\n\r\f"\'=<>`]+)', seg):
        v = m.group(1)
        if not V.properly_nested(v):
            return VALUE_NESTING_FINDING
        if V.slash_before_name_end(v) or v.endswith('/'):
            return VALUE_SLASH_FINDING
    return None


def rt_failure(ctx, rt, r):
    """Evaluate both oracles on a round-trip case; report; returns the key reported or None."""
    o = rt.opts
    bad = U.consistency_oracle(rt.line, rt.pos, o, r)
    if bad:
        key = 'consistency:%r|%r|%r' % (rt.line, rt.pos, opts_key(o))
        ctx.property_failure(key, 'extract_abbreviation(%r, %r, %r): %s' % (rt.line, rt.pos, o, bad),
                             {'stream': 'consistency', 'line': rt.line, 'pos': rt.pos, 'opts': o, 'impl': repr(r), 'why': bad})
        return key
    bad = U.roundtrip_oracle(rt, r)
    if not bad:
        return None
    markup = U.full_opts(o)['type'] == 'markup'
    why = U.grammar_reject(rt.abbr, markup)
    vclass = unquoted_value_class(rt.left)
    if vclass and not (why in U.FINDING_KEYS):
        # the complete tag to the left has an unquoted attribute value of a listed class
        key = vclass
    elif tag_has_extra_name_char(rt.left) and not (why in U.FINDING_KEYS):
        # the complete tag to the left spells a name with `_`, `.`, `@` or `#`: listed limitation of the tag heuristic
        key = TAG_NAME_FINDING
    elif why in U.FINDING_KEYS and U.valid_abbreviation(rt.abbr, markup):
        # outside the grammar of extract_roundtrip: one of the listed limitations of the extractor
        key = U.FINDING_KEYS[why]
    else:
        key = 'roundtrip:%r|%r|%r' % (rt.line, rt.pos, opts_key(o))
    ctx.property_failure(key, 'round trip: %r embedded as %r + . + %r, caret %d, %r: %s' % (
        rt.abbr, rt.left, rt.right, rt.pos, o, bad),
        {'stream': 'roundtrip', 'rt': rt.to_json(), 'impl': repr(r), 'why': bad})
    return key


def check_roundtrip(ctx, cases, model, label='roundtrip', enc=U.enc_case):
    impl = [U.impl_extract(rt.line, rt.pos, rt.opts) for rt, _ in cases]
    keys = {}
    for (rt, wild), r in zip(cases, impl):
        ctx.count_eval()
        markup = U.full_opts(rt.opts)['type'] == 'markup'
        ctx.cover('%s:left:%s' % (label, rt.lkind))
        ctx.cover('%s:right:%s' % (label, rt.rkind.split('+')[0]))
        ctx.cover('%s:type:%s' % (label, 'markup' if markup else 'stylesheet'))
        ctx.cover('%s:%s' % (label, 'wild-content' if wild else 'stated-grammar'))
        if U.full_opts(rt.opts)['lookAhead']:
            ctx.cover(label + ':look-ahead')
        ctx.nontrivial(('r', rt.line, rt.pos, opts_key(rt.opts)))
        if not wild and U.grammar_reject(rt.abbr, markup):
            ctx.cover(label + ':GENERATOR-outside-grammar-in-tame-stream')
        k = rt_failure(ctx, rt, r)
        if k:
            keys[id(rt)] = k
            ctx.cover(label + ':failed:' + k.split('|')[0][:80] if k in U.FINDING_KEYS.values() else label + ':failed')
        else:
            ctx.cover(label + ':round-tripped')

    def oracle(c, r):
        rt = c
        bad = U.consistency_oracle(rt.line, rt.pos, rt.opts, r) or U.roundtrip_oracle(rt, r)
        if not bad:
            return None
        return (keys.get(id(rt)), bad)
    correspond(ctx, [(enc(rt.line, rt.pos, rt.opts), rt) for rt, _ in cases], impl, model, label, oracle)


# ------------------------------------------------------------------ is_html stream
def gen_html(ctx):
    rng = ctx.rng
    quick = ctx.tier == 'quick'
    texts = ['<div>', '<div/>', '<div />', '</div>', '<div foo="bar">', '<div foo=bar>', '<div foo>', '<div a="b" c=d>',
             '<div a=^b$ c=d>', '<div a=b c=^%d]$>', '<div title=привет>', '<foo-bar>', 'div>', '<div', '<div привет>',
             '<div =bar>', '<div foo=>', '[a=b c=d]>', 'div[a=b c=d]>', 'li[title=x]*3>', '<div title=x>a>', 'p{<b x=1}>',
             '<a b="\\">', '<a b=\'c"\'>', '<a href=/c>', '</p a=b>', '<a b={c}>', '<a b={c>d}>', '>', '/>', '']
    alpha = list('ab1<>/= \t"\'-:[]{}()$\\')
    n_ex = 4 if quick else 5
    for n in range(0, n_ex + 1):
        for tup in itertools.product('a<>/= "\\]', repeat=n):
            texts.append(''.join(tup) + '>')
    pieces = ['<', '</', 'div', 'a', ' ', '  ', '\t', 'x=y', 'x="y z"', "k='v'", 'b', '/', '>', '=', '"', "'", 'x=^y$', 'c={d}',
              'e=[f', ']', '\\', '\\"', '*3', 'é', '1']
    for _ in range(3000 if quick else 40000):
        t = U.gen_tag(rng)
        r = rng.random()
        if r < 0.3 and len(t) > 2:      # damage it
            i = rng.randint(0, len(t) - 2)
            t = t[:i] + rng.choice(['', '', '=', '"', ' ', '<', '>', 'x']) + t[i + 1:]
        elif r < 0.4:
            t = rng.choice(['x', 'a b ', '<p>', '"', '<i ']) + t
        texts.append(t)
    for _ in range(3000 if quick else 60000):
        if rng.random() < 0.6:
            t = ''.join(rng.choice(pieces) for _ in range(rng.randint(1, 9)))
        else:
            t = ''.join(rng.choice(alpha) for _ in range(rng.randint(1, 14)))
        texts.append(t + ('>' if rng.random() < 0.85 else ''))
    # the same in every spelling: each identifier character in each place of a tag, mixed-case names, re-cased tags
    n0 = len(texts)
    texts.extend(t for _, t in U.tag_char_lefts())
    cased_pieces = ['<', '</', 'DIV', 'Div', 'A', ' ', '\t', 'X=Y', 'viewBox="0 0"', "onClick='Go'", 'B', '/', '>', '=', '"', 'x=Y1',
                    'Z', 'a', 'É', '1', 'data-X', 'Ns:El', '-', ':']
    for _ in range(1500 if quick else 20000):
        r = rng.random()
        if r < 0.35:
            t = U.gen_cased_tag(rng)
        elif r < 0.7:
            t = U.recase(U.gen_tag(rng), rng)[1]
        else:
            t = ''.join(rng.choice(cased_pieces) for _ in range(rng.randint(1, 9))) + ('>' if rng.random() < 0.85 else '')
        if r < 0.7 and rng.random() < 0.2 and len(t) > 2:      # damage it
            i = rng.randint(0, len(t) - 2)
            t = t[:i] + rng.choice(['', '=', '"', ' ', '<', 'X', 'x']) + t[i + 1:]
        texts.append(t)
    ctx.cover('is_html:mixed-case-and-identifier-character-texts', len(texts) - n0)
    # tags with rich unquoted values (every value character, every bracket nesting; also brackets NOT properly nested
    # and `/name` endings, on which model and implementation must agree as well), random and damaged
    n0 = len(texts)
    texts.extend(V.html_texts(rng, VALUE_BRACKET_PAIRS['quick' if quick else 'thorough'], 2000 if quick else 30000))
    ctx.cover('is_html:tags-with-rich-unquoted-values', len(texts) - n0)
    return texts


def check_html(ctx, texts, model):
    if model is None:
        return
    impl = [U.impl_is_html(t) for t in texts]
    outs = model.run([[2] + enc_str(t) for t in texts])
    dis = 0
    for t, r, w in zip(texts, impl, outs):
        ctx.count_eval()
        m = (w == [1]) if w in ([0], [1]) else ('bad', w)
        ctx.cover('is_html:%s' % (r if isinstance(r, bool) else 'other'))
        if m != r:
            dis += 1
            if dis <= 5:
                ctx.say('DISAGREE is_html(%r): impl %r model %r' % (t, r, m))
                ctx.broken.append({'kind': 'correspondence', 'file': 'is_html', 'input': t, 'impl': repr(r), 'model': repr(m)})
    ctx.cov['correspondence']['is_html'] = {'cases': len(texts), 'disagreements': dis}
    qt = [t for t in texts if '"' in t or "'" in t][:20000]
    impl = [U.impl_consume_quoted(t) for t in qt]
    outs = model.run([[3] + enc_str(t) for t in qt])
    dis = 0
    for t, r, w in zip(qt, impl, outs):
        m = None if w == [0] else (w[1] if len(w) == 2 and w[0] == 1 else ('bad', w))
        if m != r:
            dis += 1
            if dis <= 5:
                ctx.say('DISAGREE consume_quoted(%r): impl %r model %r' % (t, r, m))
                ctx.broken.append({'kind': 'correspondence', 'file': 'consume_quoted', 'input': t, 'impl': repr(r), 'model': repr(m)})
    ctx.cov['correspondence']['consume_quoted'] = {'cases': len(qt), 'disagreements': dis}


# ------------------------------------------------------------------ option values and call forms
OPTION_TAIL_LEN = {'quick': (1, 2), 'thorough': (2, 3)}     # (every value, rotating values): length of the run right of the caret
OPTION_RT_PER_VALUE = {'quick': 60, 'thorough': 400}
OPTION_CALL_LINES = {'quick': 150, 'thorough': 1500}


def gen_option_values(ctx, rt_cases):
    """-> (consistency cases, round-trip cases, call-form cases); see c11_options.py"""
    rng = ctx.rng
    tier = 'quick' if ctx.tier == 'quick' else 'thorough'
    ex, rot = OPTION_TAIL_LEN[tier]
    cons = O.look_ahead_value_cases(rng, ex, rot)
    lines = O.sensitive_lines(rot)
    cons += O.unknown_type_cases(rng, lines)
    rts, cons2 = O.rt_value_cases(rng, rt_cases, OPTION_RT_PER_VALUE[tier])
    cons += cons2
    for line, pos, o in cons + [(rt.line, rt.pos, rt.opts) for rt, _ in rts]:
        ctx.cover('option-values:lookAhead=%s' % O.vname(o['lookAhead'] if 'lookAhead' in o else O.ABSENT))
        ctx.cover('option-values:look-ahead-%s:caret-%s' % (
            'on' if O.look_ahead_requested(o) else 'off',
            'before-quote-or-closer' if line[U.clamp(line, pos):][:1] in tuple('"\')]}') else 'elsewhere'))
        ctx.cover('option-values:type-%s' % ('absent' if 'type' not in o else 'written' if o['type'] in TYPES else 'unknown-string'))
        ctx.cover('option-values:prefix-%s' % ('absent' if 'prefix' not in o else 'none' if o['prefix'] is None else
                                               'empty-string' if o['prefix'] == '' else 'given'))
    # default options in every form of the call, on sensitive lines and on embedded abbreviations
    some = rng.sample(lines, min(len(lines), OPTION_CALL_LINES[tier]))
    some += [(rt.line, rt.pos) for rt, _ in rng.sample(rt_cases, min(len(rt_cases), OPTION_CALL_LINES[tier]))]
    calls = O.call_form_cases(rng, some)
    return cons, rts, calls


def check_call_forms(ctx, calls, model):
    """default options: the result of every form of the call satisfies the consistency clauses (look-ahead on, markup,
    no prefix) and is the model's result for the default settings"""
    impl = [O.impl_call(l, p, f) for l, p, f in calls]
    for (line, pos, form), r in zip(calls, impl):
        ctx.count_eval()
        ctx.cover('call-forms:' + form)
        bad = U.consistency_oracle(line, pos, {}, r)
        if bad:
            ctx.property_failure('call-form:%s|%r|%r' % (form, line, pos),
                                 'extract called as %s on (%r, %r), default options: %s' % (form, line, pos, bad),
                                 {'stream': 'call-form', 'line': line, 'pos': pos, 'form': form, 'impl': repr(r), 'why': bad})
        if r is not None and r[0] != 'internal':
            ctx.nontrivial(('f', line, pos, form))
    correspond(ctx, [(U.enc_case(l, p, {}), (l, p, f)) for l, p, f in calls], impl, model, 'call-forms',
               lambda c, r: U.consistency_oracle(c[0], c[1], {}, r))


# ------------------------------------------------------------------ corpus
def corpus_cases(ctx):
    cons, rts = [], []
    for obj in U.load_corpus('C11'):
        if obj.get('stream') == 'roundtrip':
            rts.append((U.RT.from_json(obj['rt']), bool(obj.get('wild'))))
        else:
            cons.append((obj['line'], obj.get('pos'), obj.get('opts', {})))
    return cons, rts


def run(ctx):
    ok = ctx.build(['props/C11.vo', 'run/ExtractRun.vo'])
    if ok:
        ctx.obligations('props/C11.v')
    quick = ctx.tier == 'quick'
    ctx.cov['rule'] = (
        'consistency: every line of length <= %d over the %d-character alphabet %r at every caret position (plus '
        'positions outside the line for length <= 2), for markup/stylesheet x lookAhead on/off and one prefixed variant, '
        'then every run of length <= %d over %r right of the caret after %d left texts that leave a bracket or quote open '
        '(look-ahead tails), then random fragment mixes; round trip: generated valid abbreviations (validity decided by the library\'s own '
        'parser) x %d left contexts (start of line / whitespace / complete HTML tag / prefix) x %d right contexts x '
        'look-ahead (incl. auto-closed tail), the generated abbreviations include EMPTY pairs [] [ ] {} () ; '
        'prefix round trip (prefix search): abbreviations directly right of a configured prefix (prefix does not end in ] } '
        'backslash, its last character is not in the abbreviation, every ] } of the abbreviation has its opener inside it '
        '-- the hypotheses of C11_extract_roundtrip_prefix_partial) with ARBITRARY text left of the prefix: every text of '
        'length <= %d over %r (P = the prefix, Q = its last character) x %d bracket-pair shapes (none / empty / non-empty / '
        'nested / adjacent) x prefixes ! && x caret at the end with and without look-ahead and before EVERY auto-closed tail, '
        'then %d random embeddings per generated abbreviation (tame and wild) with %d prefixes and left texts mixed from '
        'code-like fragments with matched and unmatched brackets of every kind, quotes, tags, whole and partial earlier '
        'occurrences of the prefix and an earlier prefixed abbreviation; '
        'round trip after a complete HTML tag in every spelling of its names (HTML Living Standard 13.1.2: tag and attribute names '
        'are written in any mix of letter cases; custom elements and XML names contain - and :): each of the %d identifier '
        'characters (A-Z, a-z, 0-9, - :) in each of %d tag shapes (inside the tag name of start / end / self-closing tags, inside '
        'boolean / quoted / unquoted attribute names, inside unquoted values) x look-ahead on/off for markup and one stylesheet '
        'case, then %d embeddings per generated abbreviation (tame and wild) right of tags built from really used mixed-case '
        'names (DIV, MyComponent, foreignObject, viewBox, onClick, xlink:Href ...) and of the lower-case tag contexts re-cased '
        '(UPPER / Title / rAnDoM / camelCase); name characters beyond the identifier alphabet (_ . @ #) are %s '
        '(extract_util.TAG_NAME_CHARS_BEYOND_IDENT); %d%% of the random consistency lines and a third of the is_html texts are '
        'written in mixed case as well; '
        'round trip after a complete HTML tag with rich UNQUOTED attribute values (HTML Living Standard 13.1.2.3: an unquoted value '
        'is any non-empty run without ASCII white space " \' = < > `, so brackets and all punctuation are value characters; JSX and '
        'template languages write items={[1,2]} on={fn(a,b)}): each of %d value characters (every permitted printable ASCII character '
        'and %d characters outside ASCII) in %d places of a value (alone / first / middle / last / doubled / before punctuation / after a slash) x %d '
        'tag shapes (value last before > / before white space / before a self-closing slash / before a boolean, unquoted or quoted '
        'attribute / between attributes) x look-ahead on/off for markup and every third case for stylesheet; EVERY properly nested '
        'bracket word over ( ) [ ] { } with 1..%d pairs (every order of the three kinds, every nesting shape: %d words) in %d filler '
        'layouts (bare / text inside every pair / call-like / text in every gap) plus %d really written values and closers without '
        'opener outside the pairs, words of <= 2 pairs and the written values in all tag shapes, longer words in 2 rotating shapes; '
        'then %d random tags per generated abbreviation (tame and wild) with 1..4 attributes whose unquoted values mix runs of the '
        'whole alphabet, groups of random kinds nested up to depth 6 and closers without opener; the texts of all these tags, of '
        'damaged variants and of the two switched-off classes also go through the is_html correspondence; values whose brackets are '
        'NOT properly nested (opener without closer, crossing pairs) are %s (c11_unquoted.UNQ_NOT_PROPERLY_NESTED), values in '
        'which a / is followed by letters, digits, - or : only up to the end (href=/about) are %s '
        '(c11_unquoted.UNQ_SLASH_BEFORE_NAME_END); '
        'option values and call forms (the docstring of extract_abbreviation documents lookAhead: bool, default true; a flag '
        'given as another kind of value counts by its Python truth value, fixed in c11_options.py): lookAhead as each of %d OFF '
        'values %r, %d ON values %r and ABSENT x markup/stylesheet at the caret directly before EVERY run of length <= %d over %r '
        '(rotating values up to length %d) after %d left texts that leave a bracket or quote open, a third of them with a prefix '
        'taken from the line; the same values in the round trip: %d embedded generated abbreviations per value with the caret at '
        'the end (every value) and before an auto-closed tail (every ON value must give the whole abbreviation, every OFF value '
        'must leave the end at the caret); the other options written in every form (type absent / written, prefix absent / \'\' / '
        'None); %d type strings outside markup/stylesheet %r (consistency part only; they go through the model as well); default '
        'options in %d forms of the call %r on %d sensitive lines and %d embedded abbreviations; values that are not JSON '
        'values (objects with their own __bool__) and non-integer positions are NOT explored; '
        'a case is non-trivial when extract returns a result (consistency) or is '
        'an embedded abbreviation (round trip); distinct by (line, position, options)'
    ) % (3 if quick else 4, len(U.EX_ALPHA), ''.join(U.EX_ALPHA),
         LA_TAIL_LEN['quick' if quick else 'thorough'], ''.join(U.LA_ALPHA), len(U.LA_LEFTS), len(U.LEFTS), len(U.RIGHTS),
         PREFIX_RT_EXHAUSTIVE_LEN['quick' if quick else 'thorough'], ''.join(U.BEFORE_ALPHA),
         len(U.PREFIX_SHAPES) + len(U.PREFIX_SHAPES_CSS), PREFIX_RT_PER_ABBR['quick' if quick else 'thorough'],
         len(U.PREFIXES_RICH),
         len(U.TAG_IDENT_CHARS), len(U.TAG_CHAR_SHAPES), TAG_CASE_PER_ABBR['quick' if quick else 'thorough'],
         'explored too' if U.TAG_NAME_CHARS_BEYOND_IDENT else 'NOT explored', int(RECASED_LINE_RATE * 100),
         len(V.UNQ_ASCII) + len(V.UNQ_NON_ASCII), len(V.UNQ_NON_ASCII), len(V.VALUE_PLACES), len(V.VALUE_TAG_SHAPES),
         VALUE_BRACKET_PAIRS['quick' if quick else 'thorough'], len(V.bracket_words(VALUE_BRACKET_PAIRS['quick' if quick else 'thorough'])),
         len(V.LAYOUTS), len(V.REALISTIC_VALUES), VALUE_RT_PER_ABBR['quick' if quick else 'thorough'],
         'explored too' if V.UNQ_NOT_PROPERLY_NESTED else 'NOT explored (they fail on the unchanged library)',
         'explored too' if V.UNQ_SLASH_BEFORE_NAME_END else 'NOT explored (they fail on the unchanged library)',
         len(O.LOOK_AHEAD_OFF), O.LOOK_AHEAD_OFF, len(O.LOOK_AHEAD_ON), O.LOOK_AHEAD_ON,
         OPTION_TAIL_LEN['quick' if quick else 'thorough'][0], ''.join(U.LA_ALPHA), OPTION_TAIL_LEN['quick' if quick else 'thorough'][1],
         len(U.LA_LEFTS), OPTION_RT_PER_VALUE['quick' if quick else 'thorough'], len(O.UNKNOWN_TYPES), O.UNKNOWN_TYPES,
         len(O.CALL_FORMS), O.CALL_FORMS, OPTION_CALL_LINES['quick' if quick else 'thorough'],
         OPTION_CALL_LINES['quick' if quick else 'thorough'])
    model = ctx.model('extract') if ok else None
    # corpus first
    cons, rts = corpus_cases(ctx)
    if cons:
        check_consistency(ctx, cons, model, 'corpus')
    if rts:
        check_roundtrip(ctx, rts, model, 'corpus-roundtrip')
    # round trip
    cases = gen_roundtrip(ctx)
    check_roundtrip(ctx, cases, model)
    for rt, _ in cases[:3] + cases[len(cases) // 2:len(cases) // 2 + 3]:
        ctx.sample({'line': rt.line, 'pos': rt.pos, 'opts': rt.opts,
                    'impl': repr(U.impl_extract(rt.line, rt.pos, rt.opts))})
    # round trip right of a prefix (the prefix search)
    pcases = gen_prefix_roundtrip(ctx, cases)
    check_roundtrip(ctx, pcases, model, 'prefix-roundtrip')
    for rt, _ in pcases[len(pcases) // 3:len(pcases) // 3 + 2] + pcases[-2:]:
        ctx.sample({'line': rt.line, 'pos': rt.pos, 'opts': rt.opts,
                    'impl': repr(U.impl_extract(rt.line, rt.pos, rt.opts))})
    # round trip after complete HTML tags in every spelling of their names
    tcases = gen_tag_roundtrip(ctx, cases)
    check_roundtrip(ctx, tcases, model, 'tag-roundtrip')
    for rt, _ in tcases[len(tcases) // 5:len(tcases) // 5 + 1] + tcases[-1:]:
        ctx.sample({'line': rt.line, 'pos': rt.pos, 'opts': rt.opts,
                    'impl': repr(U.impl_extract(rt.line, rt.pos, rt.opts))})
    # round trip after complete HTML tags with rich unquoted attribute values (brackets nested in every order)
    vcases = gen_value_roundtrip(ctx, cases)
    check_roundtrip(ctx, vcases, model, 'value-roundtrip')
    for rt, _ in vcases[len(vcases) // 2:len(vcases) // 2 + 1] + vcases[-1:]:
        ctx.sample({'line': rt.line, 'pos': rt.pos, 'opts': rt.opts,
                    'impl': repr(U.impl_extract(rt.line, rt.pos, rt.opts))})
    # the values and forms of the options and of the call
    ocons, orts, ocalls = gen_option_values(ctx, cases)
    check_consistency(ctx, ocons, model, 'option-values', enc=O.enc_case)
    check_roundtrip(ctx, orts, model, 'option-values-roundtrip', enc=O.enc_case)
    check_call_forms(ctx, ocalls, model)
    for c in ocons[len(ocons) // 7:len(ocons) // 7 + 1] + ocons[-1:]:
        ctx.sample({'line': c[0], 'pos': c[1], 'opts': c[2], 'impl': repr(U.impl_extract(c[0], c[1], c[2]))})
    # consistency
    cc = gen_consistency(ctx)
    impl = check_consistency(ctx, cc, model, 'consistency')
    shown = 0
    for c, r in zip(cc, impl):
        if r is not None and len(c[0]) >= 3 and shown < 2:
            ctx.sample({'line': c[0], 'pos': c[1], 'opts': c[2], 'impl': repr(r)})
            shown += 1
    # tag heuristic
    check_html(ctx, gen_html(ctx), model)


def earlier_calls(o):
    """Option sets of calls made BEFORE the replayed one.  The property speaks about every call, whatever
    was called before (in the check the cases run one after the other in one process): when the replayed
    call alone satisfies it, it is repeated after calls with the other settings of each option."""
    f = U.full_opts(o)
    return [{}, dict(o, lookAhead=not f['lookAhead']), dict(o, type='stylesheet' if f['type'] == 'markup' else 'markup'),
            dict(o, prefix='' if f['prefix'] else '<')]


def fresh_library():
    """forget the imported library, so that the next call starts from the state of a new process"""
    import sys
    for m in list(sys.modules):
        if m == 'emmet' or m.startswith('emmet.'):
            del sys.modules[m]


def replay_call(line, pos, o, oracle):
    r = U.impl_extract(line, pos, o)
    bad = oracle(r)
    print('extract_abbreviation(%r, %r, %r) -> %r : %s' % (line, pos, o, r, bad or 'property holds'))
    if bad:
        return bad
    for e in earlier_calls(o):
        fresh_library()
        U.impl_extract(line, pos, e)
        r = U.impl_extract(line, pos, o)
        bad = oracle(r)
        if bad:
            print('after an earlier call extract_abbreviation(%r, %r, %r): extract_abbreviation(%r, %r, %r) -> %r : %s' % (
                line, pos, e, line, pos, o, r, bad))
            return bad
    return None


def replay(ctx, obj):
    rp = obj.get('replay', {})
    if rp.get('stream') == 'roundtrip':
        rt = U.RT.from_json(rp['rt'])
        print('round trip %r in %r at %d %r' % (rt.abbr, rt.line, rt.pos, rt.opts))
        bad = replay_call(rt.line, rt.pos, rt.opts,
                          lambda r: U.consistency_oracle(rt.line, rt.pos, rt.opts, r) or U.roundtrip_oracle(rt, r))
        return 1 if bad else 0
    if rp.get('stream') == 'call-form':
        line, pos, form = rp['line'], rp.get('pos'), rp['form']
        r = O.impl_call(line, pos, form)
        bad = U.consistency_oracle(line, pos, {}, r)
        print('extract called as %s on (%r, %r), default options -> %r : %s' % (form, line, pos, r, bad or 'property holds'))
        return 1 if bad else 0
    if rp.get('stream') == 'consistency' or 'line' in rp:
        line, pos, o = rp['line'], rp.get('pos'), rp.get('opts', {})
        bad = replay_call(line, pos, o, lambda r: U.consistency_oracle(line, pos, o, r))
        return 1 if bad else 0
    print('replay names a broken obligation, no input: %s' % rp)
    return 1
