"""C01 -- Markup expansion reproduces the element tree the operators denote."""
import itertools
import re

import abbr_gen as g
import c01_lex as lex
import c01_routes as routes
import c01_rare as rare
import c01_optshapes as optshapes
from markup_util import run_cases, canon_cfg

CONFIGS = [{}, {'syntax': 'xml'}, {'options': {'output.selfClosingStyle': 'xhtml'}},
           {'options': {'output.format': False}}, {'syntax': 'xml', 'options': {'output.format': False}},
           {'cache': {}}, {'cache': {}, 'options': {'output.selfClosingStyle': 'xhtml'}}]


# ---------------------------------------------------------------- documented facts the oracle depends on
# The property names "inline elements" without listing them.  The list is hard-coded here and NOT read from the
# library under test (emmet/config.py DEFAULT_OPTIONS['inlineElements'] is exactly the table a change could alter).
# Source: the documented default of Emmet's `inlineElements` option (Emmet docs / upstream emmet src/config.ts), which
# is the HTML 4.01 %inline; content model (%fontstyle; %phrase; %special; %formctrl;) plus the deprecated inline
# elements of HTML 4 Transitional (applet, basefont, font, s, strike, u, iframe) and ins/del.
HTML_INLINE_DOC = ['a', 'abbr', 'acronym', 'applet', 'b', 'basefont', 'bdo', 'big', 'br', 'button', 'cite', 'code',
                   'del', 'dfn', 'em', 'font', 'i', 'iframe', 'img', 'input', 'ins', 'kbd', 'label', 'map', 'object',
                   'q', 's', 'samp', 'select', 'small', 'span', 'strike', 'strong', 'sub', 'sup', 'textarea', 'tt',
                   'u', 'var']
# block-level / unknown parents (implicit child: div) used next to the documented ones
BLOCK_PARENTS = ['div', 'section', 'article', 'main', 'nav', 'h1', 'li', 'td', 'custom', 'x-y', 'ns:el', 'spa', 'spann', 'em-x', 'ema',
                 'bb', 'uu']
# Nesting explored by the deep-nesting class: elements + groups on one root-to-leaf path.  The library itself raises
# RecursionError from about 244 levels on (interpreter recursion limit 1000), which is outside the statement.
DEEP_MAX = 200
# sum of the depths of all elements of a formatted output above which a case is not sent through the extracted model
MODEL_INDENT_BUDGET = 5000
DEEP_NESTING = True          # generator class "nesting far deeper than any example" on / off
INLINE_PARENTS_FULL = True   # generator class "nameless element below EVERY documented inline / mapped parent" on / off
LEXICAL_CASE = True          # generator class "every spelling of names and class / id / attribute identifiers, side by side" on / off
NUMBERING_AT_OPERATORS = True   # generator class "numbering tokens in identifiers, directly in front of every operator" on / off
CALL_ROUTES = True           # generator class "every documented call route x global-config layers for the type / the syntax" on / off
RARE_SYNTAX = True           # generator classes "every documented form of the attribute set on a nameless element", "text nodes / `{}` / `[]` in every position before every operator", "statements whose last groups are not closed yet" on / off (harness/c01_rare.py; `{}` / `[]` directly before `>`: c01_rare.EMPTY_NODE_CHILDREN)
LONG_LIVED_CONFIG = True     # generator class "ONE Config / dict object over a sequence of calls, its context / options re-assigned in between" on / off
OPTION_VALUE_TYPES = True    # generator class "the same configuration in every VALUE TYPE a Python caller may hand over (name collections as tuple / set / frozenset / dict keys / deque ..., mappings as OrderedDict / MappingProxyType / UserDict ..., str subclasses / str Enums, 1 / 0)" on / off (harness/c01_optshapes.py)


# listed finding: a nameless element directly below an EMPTY nameless unit (`{}` / `[]`) takes its implicit name from that unit
KEY_EMPTY_UNIT_IMPLICIT = 'C01:implicit-name-below-empty-nameless-unit'
EMPTY_UNIT_IMPLICIT_RE = re.compile(r'(?:\{\}|\[\s*\])(?:\*\d*)?>(?:.*?[>+^(])?(?:[.#]|\[[^\]])', re.S)   # an empty unit with `>` and a nameless element somewhere after it

def use_documented_inline():
    """Point the independent denotation (abbr_gen.unroll) at the hard-coded inline list."""
    g.INLINE.clear()
    g.INLINE.update(HTML_INLINE_DOC)


def writes_self_closed_leaves(cfg):
    return cfg.get('syntax') == 'xml' or (cfg.get('options') or {}).get('output.selfClosingStyle') in ('xhtml', 'xml')


def oracle(abbr, cfg, meta, r):
    """The element tree of the output is exactly the tree the operators denote."""
    if r[0] != 'ok':
        return 'expand did not return a string: %r' % (r,)
    got, depth = g.html_preorder(r[1])
    if depth != 0:
        return 'unbalanced tags in output %r' % r[1]
    if got != meta:
        return 'element tree (depth, name) %r differs from the denoted tree %r' % (got[:12], meta[:12])
    return None


def gen(ctx):
    names = g.safe_names()
    use_documented_inline()
    rng = ctx.rng
    cases = []
    oracle_only = []

    def add(stmt, cfg):
        abbr = g.render(stmt)
        # names may carry numbering tokens (`h$*3`): their documented values are substituted (c01_lex.subst_name)
        exp = lex.preorder_numbered(g.unroll(g.denote_stmt(stmt)))
        if (cfg.get('options') or {}).get('output.format', True) and sum(d for d, _ in exp) > MODEL_INDENT_BUDGET:
            # the extracted model spends seconds on the indentation of such an output: implementation + oracle only
            oracle_only.append((abbr, cfg, exp))
            ctx.cover('C01:oracle-only(deep formatted output, model too slow)')
        else:
            cases.append((abbr, cfg, exp))
        ctx.nontrivial(abbr) if len(exp) >= 2 else None

    # corpus: shapes that exposed defects or are easy to get wrong
    for abbr, exp in [('a>b^^^^c', [(0, 'a'), (1, 'b'), (0, 'c')])]:
        pass
    # lorem nodes are text nodes: no tag of their own (the implicit tag of the parent when repeated below the top level);
    # their children and siblings keep their place.  Runs under the deterministic randint oracle (markup_util.impl_expand),
    # the model gets the same draws (run_cases).
    for abbr, exp in [('p>lorem2+b', [(0, 'p'), (1, 'b')]), ('ul>lorem2*2', [(0, 'ul'), (1, 'li'), (1, 'li')]),
                      ('div>lorem3>b', [(0, 'div'), (1, 'b')]), ('lorem2+p>em', [(0, 'p'), (1, 'em')]),
                      ('ol>lorem1*2>b^p^q', [(0, 'ol'), (1, 'li'), (2, 'b'), (1, 'li'), (2, 'b'), (1, 'p'), (0, 'q')]),
                      ('(p>lorem2)*2+a', [(0, 'p'), (0, 'p'), (0, 'a')]), ('table>tr>lorem1*2', [(0, 'table'), (1, 'tr'), (2, 'td'), (2, 'td')])]:
        for cfg in CONFIGS[:2]:
            cases.append((abbr, cfg, exp))
            ctx.cover('C01:lorem')
    # exhaustive operator skeletons
    max_units = 3 if ctx.tier == 'quick' else 4
    for n in range(1, max_units + 1):
        stmts = g.enum_stmts(n, names)
        if n == 4:
            stmts = (s for k, s in enumerate(stmts) if k % 4 == ctx.seed % 4)
        for k, st in enumerate(stmts):
            add(st, CONFIGS[k % len(CONFIGS)])
    ctx.cov['exhaustive_skeleton_units'] = max_units if max_units <= 3 else '3 (all) + 4 (one quarter, chosen by seed)'
    # implicit names: nameless element with a class under every documented parent, under
    # unmapped block parents (div), under inline parents (span), at top level (div)
    inline = sorted(g.INLINE - g.UNDOCUMENTED_PARENTS - set(g.IMPLICIT_DOC) - {'a', 'abbr', 'acronym', 'bdo', 'button', 'img', 'input', 'label', 'select', 'textarea', 'iframe', 'basefont', 'br', 'font', 'applet', 'object', 'map'})
    parents = sorted(g.IMPLICIT_DOC) + ['div', 'section', 'custom', 'x-y', 'UL', 'Table', 'P'] + inline[:12]
    for p in parents:
        for deco in (dict(classes=['c']), dict(id='i'), dict(attrs=[('t', 'v', '')])):
            child = g.El(name=None, **deco)
            for cfg in CONFIGS[:2]:
                add([(g.El(name=p), '>'), (child, '')], cfg)
                add([(g.El(name=p), '>'), (g.El(name=None, repeat=2, **deco), '>'), (g.El(name=None, **deco), '')], cfg)
    add([(g.El(name=None, classes=['top']), '')], {})
    # implicit names at top level under a context element (config.context['name'] plays the parent) and under a
    # user-defined inline list (the lower-cased parent is looked up in options['inlineElements'] as given)
    def add_ctx(stmt, cfg, parent, inline=None):
        saved = set(g.INLINE)
        if inline is not None:
            g.INLINE.clear()
            g.INLINE.update(inline)
        try:
            exp = g.preorder(g.unroll(g.denote_stmt(stmt), parent_name=parent))
        finally:
            g.INLINE.clear()
            g.INLINE.update(saved)
        abbr = g.render(stmt)
        cases.append((abbr, cfg, exp))
        ctx.nontrivial(abbr + '@' + repr(sorted(cfg.items(), key=str)))
        ctx.cover('implicit-context' if inline is None else 'implicit-inline-list')
    for cname in sorted(g.IMPLICIT_DOC) + ['div', 'em', 'UL', 'Table', 'custom', '']:
        for deco in (dict(classes=['c']), dict(id='i')):
            st = [(g.El(name=None, **deco), '>'), (g.El(name=None, **deco), '+'), (g.El(name='b', **deco), '>'),
                  (g.El(name=None, repeat=2, **deco), '^^^'), (g.El(name=None, **deco), '')]
            for fmt in (True, False):
                add_ctx(st, {'context': {'name': cname}, 'options': {'output.format': fmt}}, cname)
    for inl in (['x-y', 'custom'], ['X'], []):
        for p in ('x-y', 'custom', 'X', 'x', 'em', 'div'):
            st = [(g.El(name=p), '>'), (g.El(name=None, classes=['c']), '>'), (g.El(name=None, id='i'), '')]
            add_ctx(st, {'options': {'inlineElements': list(inl), 'output.format': False}}, None, inline=[w for w in inl])
    # snippet-backed names (one element of the same name) and the `/` mark, as parents and used twice
    from emmet.markup.implicit_tag import ELEMENT_MAP
    snips = [s for s in g.same_name_snippets() if s[0] not in ELEMENT_MAP or s[0] in g.IMPLICIT_DOC]
    ctx.cov['same_name_snippets'] = len(snips)
    pick = [s for s in snips if s[0] in ('a', 'img', 'br', 'input', 'select', 'label', 'option', 'hr', 'form', 'button', 'link')] or snips[:8]
    for nm, void in pick + [(n, None) for n in names[:3]]:
        for cfg in CONFIGS:
            sc = void is None
            add([(g.El(name=nm, self_close=sc), '>'), (g.El(name='p'), '')], cfg)
            add([(g.El(name='ul'), '>'), (g.El(name='li', repeat=2), '>'), (g.El(name=nm, self_close=sc), '>'), (g.El(name='span'), '')], cfg)
            add([(g.Group([(g.El(name='div'), '>'), (g.El(name=nm, self_close=sc), '>'), (g.El(name='b'), '')], repeat=2), '+'), (g.El(name='i'), '')], cfg)
            add([(g.El(name='div'), '>'), (g.El(name=nm, self_close=sc), '>'), (g.El(name='b'), '^'), (g.El(name=nm, self_close=sc), '>'), (g.El(name='i'), '')], cfg)
            add([(g.El(name=nm, repeat=2), '>'), (g.El(name=nm), '>'), (g.El(name='u'), '')], cfg)
            if writes_self_closed_leaves(cfg) and (void or sc):
                add([(g.El(name='div'), '>'), (g.El(name=nm, self_close=sc), '+'), (g.El(name='p'), '>'), (g.El(name=nm, self_close=sc), '')], cfg)
    # nameless element below EVERY documented inline element, every documented mapped parent and block / unknown
    # parents (incl. near-miss names: prefixes / extensions of inline names), in several positions: direct child,
    # below a repeated parent, inside a repeated group, as later sibling after a climb, several levels down
    if INLINE_PARENTS_FULL:
        implicit_parent_table(ctx, add, names)
    # nesting far deeper than any hand-written example (chains of `>`, nested groups, long climbs)
    if DEEP_NESTING:
        deep_nesting(ctx, add, names)
    # where an element's text ends and the operator begins: spellings of names / identifiers, numbering tokens
    if LEXICAL_CASE:
        lexical_case(ctx, add)
    if NUMBERING_AT_OPERATORS:
        numbering_at_operators(ctx, add, names)
    # random large statements
    n_rand = 1500 if ctx.tier == 'quick' else 40000

    def decorate(rng, el):
        if rng.random() < 0.15:
            el.classes = ['k']
            if rng.random() < 0.5:
                el.name = None
        if rng.random() < 0.1:
            el.id = 'z'
    for _ in range(n_rand):
        cfg = rng.choice(CONFIGS)
        leafy = writes_self_closed_leaves(cfg)
        pool = names + [s[0] for s in snips if leafy or not s[1]] if rng.random() < 0.4 else names
        st = g.rand_stmt(rng, pool, rng.randint(1, 40 if rng.random() < 0.2 else 10), max_depth=4, decorate=decorate)
        if g.total_copies(g.unroll(g.denote_stmt(st))) > 400:
            continue
        g.mark_self_close(st, rng, leafy)
        add(st, cfg)
    return cases, oracle_only



def implicit_parents():
    """(parent name, is void snippet) for the implicit-name table: documented inline elements, documented mapped
    parents, block / unknown names.  `map` and `object` are inline elements for which the code has an own child
    name (area / param) the statement does not mention: not used as parents."""
    from emmet.snippets import markup_snippets
    void = {k for k, v in markup_snippets.items() if v.endswith('/')}
    block = [n for n in BLOCK_PARENTS if n not in markup_snippets]
    seen = []
    for n in HTML_INLINE_DOC + sorted(g.IMPLICIT_DOC) + block:
        if n in g.UNDOCUMENTED_PARENTS or n in seen:
            continue
        seen.append(n)
    return [(n, n in void) for n in seen]


def implicit_parent_table(ctx, add, names):
    rng = ctx.rng
    decos = (dict(classes=['c']), dict(id='i'), dict(attrs=[('t', 'v', '')]), dict(classes=['c', 'd'], id='i'))
    parents = implicit_parents()
    ctx.cov['implicit_parent_names'] = len(parents)
    k = 0
    for p, void in parents:
        for case_p in (p, p.upper(), p.capitalize()):
            if case_p != p and (void or rng.random() < 0.5):
                continue      # other spellings of the parent: about half of the names per run, void snippets skipped
            d = lambda: decos[rng.randrange(len(decos))]
            nl = lambda **kw: g.El(name=None, **dict(d(), **kw))
            outer = rng.choice(names)
            shapes = [
                [(g.El(name=case_p), '>'), (nl(), '')],
                [(g.El(name=outer), '>'), (g.El(name=case_p, repeat=2), '>'), (nl(), '+'), (nl(), '')],
                [(g.Group([(g.El(name=outer), '>'), (g.El(name=case_p), '>'), (nl(), '')], repeat=2), '+'), (nl(), '')],
                [(g.El(name=outer), '>'), (g.El(name=case_p), '>'), (g.El(name='b'), '>'), (g.El(name='i'), '^^'), (nl(), '>'), (nl(), '^^^^'), (nl(), '')],
                [(g.El(name=case_p), '>'), (g.Group([(nl(), '+'), (nl(repeat=2), '>'), (g.El(name=case_p), '>'), (nl(), '')]), '+'), (nl(), '')],
            ]
            for st in shapes:
                add(st, CONFIGS[k % len(CONFIGS)])
                k += 1
                ctx.cover('implicit-parent-table')
    # random statements over the same names with many nameless elements
    pool_all = [p for p, void in parents if not void]
    pool_leafy = [p for p, void in parents]

    def decorate(rng, el):
        if rng.random() < 0.4:
            el.name = None
            el.classes = ['k']
    for _ in range(250 if ctx.tier == 'quick' else 5000):
        cfg = rng.choice(CONFIGS)
        leafy = writes_self_closed_leaves(cfg)
        st = g.rand_stmt(rng, pool_leafy if leafy else pool_all, rng.randint(2, 9), max_depth=2, rep_max=3, decorate=decorate)
        if g.total_copies(g.unroll(g.denote_stmt(st))) > 300:
            continue
        add(st, cfg)
        ctx.cover('implicit-random')


def deep_depths(rng, n_random, top):
    fixed = {b + d for b in (16, 32, 64, 128) for d in (-2, -1, 0, 1, 2, 3)} | {24, 48, 96, 100, 150, top}
    return sorted(d for d in fixed if d <= top) + [rng.randint(10, top) for _ in range(n_random)]


def deep_nesting(ctx, add, names):
    """Statements whose denoted tree is 10 .. DEEP_MAX levels deep: depth around every power of two and random
    depths; the deepest element always has children of its own."""
    rng = ctx.rng
    top = DEEP_MAX - 10
    imp_pool = sorted(g.IMPLICIT_DOC) + ['em', 'sub', 'strong', 'div', 'section', 'li', 'td']

    def el(pool=names, nameless_p=0.0):
        e = g.El(name=rng.choice(pool))
        if rng.random() < nameless_p:
            e.name = None
            e.classes = ['k']
        return e

    def chain(depth, sib_p=0.0, nameless_p=0.0, pool=names, rep_levels=()):
        st = []
        for lv in range(depth):
            if rng.random() < sib_p:
                st.append((el(pool, nameless_p), '+'))
            e = el(pool, nameless_p if lv else 0.0)
            if lv in rep_levels:
                e.repeat = 2
            st.append((e, '>'))
        return st

    def bottom(pool=names, nameless_p=0.0):
        def deco(rng, e):
            if rng.random() < nameless_p:
                e.name = None
                e.classes = ['k']
        return g.rand_stmt(rng, pool, rng.randint(2, 5), max_depth=1, rep_max=2, decorate=deco)

    def shape_chain(d):
        return chain(d) + bottom()

    def shape_siblings(d):
        return chain(d, sib_p=0.15) + bottom()

    def shape_climb(d):
        k = rng.choice([1, 2, d // 2, d - 1, d, d + 1, d + 5, rng.randint(1, d + 5)])
        return chain(d) + [(el(), '^' * max(1, k))] + bottom()

    def shape_groups(d):
        # x>y>(x>y>(... (bottom))): n_groups nested groups, `per` elements in front of each; elements + groups <= d
        n_groups = rng.randint(2, max(2, min(50, d // 2)))
        per = max(1, (d - n_groups) // n_groups)
        inner = bottom()
        for lv in range(n_groups):
            rep = 2 if lv == n_groups - 1 and rng.random() < 0.5 else None
            tail = [(el(), '')] if rng.random() < 0.3 else []
            inner = chain(per) + [(g.Group(inner, repeat=rep), '+' if tail else '')] + tail
        return inner

    def shape_repeated(d):
        levels = set(rng.sample(range(d), 2))
        st = chain(d, rep_levels=levels) + bottom()
        if rng.random() < 0.5:
            st = [(g.Group(st, repeat=2), '+'), (el(), '')]
        return st

    def shape_implicit(d):
        return chain(d, sib_p=0.1, nameless_p=0.25, pool=imp_pool) + bottom(imp_pool, 0.4)

    shapes = [('chain', shape_chain), ('chain-siblings', shape_siblings), ('chain-climb', shape_climb),
              ('nested-groups', shape_groups), ('repeated', shape_repeated), ('implicit', shape_implicit)]
    depths = deep_depths(rng, 20 if ctx.tier == 'quick' else 150, top)
    k = 0
    deepest = 0
    for d in depths:
        for label, fn in (shapes if ctx.tier != 'quick' else rng.sample(shapes, 3)):
            st = fn(d)
            tree = g.unroll(g.denote_stmt(st))
            if g.total_copies(tree) > 1500:
                continue
            add(st, CONFIGS[k % len(CONFIGS)])
            k += 1
            deepest = max(deepest, d)
            ctx.cover('deep:%s' % label)
            ctx.cover('deep:depth-%s' % ('10-63' if d < 64 else '64-127' if d < 128 else '128-%d' % top))
    ctx.cov['deep_nesting'] = {'statements': k, 'deepest_chain': deepest}


def lexical_case(ctx, add):
    """Element names in every spelling directly followed by every kind of decoration whose identifiers are again spelled
    in every way: in html/xml/xhtml the element keeps its own name whatever the letter case of the name and of the
    class / id / attribute / text written after it."""
    rng = ctx.rng
    forms = lex.name_forms()
    idents = lex.IDENT_FORMS
    ctx.cov['lexical_case'] = {'name_spellings': len(forms), 'identifier_spellings': len(idents)}
    kinds = [
        ('.class', lambda i, j: dict(classes=[i])),
        ('#id', lambda i, j: dict(id=i)),
        ('.class.class', lambda i, j: dict(classes=[i, j])),
        ('#id.class', lambda i, j: dict(id=i, classes=[j])),
        ('.class[attr]', lambda i, j: dict(classes=[i], attrs=[(j, 'v', '')])),
        ('[attr]', lambda i, j: dict(attrs=[(i, j, '"')])),
        ('{text}', lambda i, j: dict(text=i)),
        ('.class{text}', lambda i, j: dict(classes=[i], text=j)),
        ('.class.class.class', lambda i, j: dict(classes=[i, j, i])),
    ]

    def deco_el(**kw):
        i, j = rng.choice(idents), rng.choice(idents)
        return g.El(name=rng.choice(forms), **dict(rng.choice(kinds)[1](i, j), **kw))

    def frames(x):
        return [
            [(x, '')],
            [(x, '>'), (deco_el(), '+'), (deco_el(), '')],
            [(deco_el(), '>'), (x, '>'), (deco_el(), '^'), (deco_el(), '')],
            [(g.Group([(x, '>'), (deco_el(), '')], repeat=2), '+'), (deco_el(), '')],
            [(deco_el(), '>'), (deco_el(repeat=2), '>'), (x, '^^'), (deco_el(), '')],
            [(deco_el(), '>'), (g.Group([(deco_el(), '+'), (x, '')]), '+'), (x, '')],
        ]
    per_name = 10 if ctx.tier == 'quick' else len(idents)
    k = 0
    for nm in forms:
        for i in (rng.sample(idents, per_name) if per_name < len(idents) else idents):
            for kname, kind in ([kinds[k % len(kinds)]] if ctx.tier == 'quick' else [kinds[(k + d) % len(kinds)] for d in (0, 3, 6)]):
                j = idents[(k * 7 + 3) % len(idents)]
                x = g.El(name=nm, **kind(i, j))
                if k % 5 == 0:
                    x.repeat = 2
                fr = frames(x)
                add(fr[k % len(fr)], CONFIGS[k % len(CONFIGS)])
                k += 1
                ctx.cover('lexical-case:decoration-%s' % kname)
                ctx.cover('lexical-case:name-%s/ident-%s' % (_case_class(nm), _case_class(i)))
    # random statements over the same vocabulary, most elements decorated
    def decorate(rng, el):
        if rng.random() < 0.75:
            i, j = rng.choice(idents), rng.choice(idents)
            for key, val in rng.choice(kinds)[1](i, j).items():
                setattr(el, key, val)
    for _ in range(300 if ctx.tier == 'quick' else 3000):
        cfg = rng.choice(CONFIGS)
        st = g.rand_stmt(rng, forms, rng.randint(2, 10), max_depth=3, rep_max=3, decorate=decorate)
        if g.total_copies(g.unroll(g.denote_stmt(st))) > 300:
            continue
        g.mark_self_close(st, rng, writes_self_closed_leaves(cfg))
        add(st, cfg)
        ctx.cover('lexical-case:random')


def _case_class(w):
    """Spelling class of a name / identifier for the coverage record."""
    c = w[:1]
    if not c.isalpha():
        return 'digit-first' if c.isdigit() else 'dash-first' if c == '-' else 'underscore-first'
    letters = [ch for ch in w if ch.isalpha()]
    if all(ch.islower() for ch in letters):
        return 'lower'
    if all(ch.isupper() for ch in letters):
        return 'UPPER'
    return 'Capitalised' if c.isupper() else 'camelCase'


NUM_WORDS = ['n', 'item', 'col', 'Row', 'x-', 'sec']       # alphabetic: a digit written after a token would read as its base


def numbering_at_operators(ctx, add, names):
    """Item-numbering tokens at the end / start / middle of a name, class, id, attribute value or text, directly followed
    by every operator (`>` `+` `^` `^^` `^^^`, end of group, end of abbreviation, `*N` and then the operator): a `^` is
    part of a numbering token only directly after `$@`, so the tree is the one the operators denote."""
    rng = ctx.rng
    carriers = ['name', 'class', 'id', 'class2', 'attr', 'attr-quoted', 'text']
    ops = ['>', '+', '^', '^^', '^^^', ')', '']

    def carrier_el(carrier, tok, where, repeat):
        w = lex.put(rng.choice(NUM_WORDS), tok, where)
        nm = rng.choice(names)
        if carrier == 'name':
            if tok in lex.NUM_PARENT or (tok in lex.NUM_AT and repeat is None):
                return None          # value not fixed by the documented facts (see c01_lex)
            return g.El(name=w, repeat=repeat)
        if carrier == 'class':
            return g.El(name=nm, classes=[w], repeat=repeat)
        if carrier == 'class2':
            return g.El(name=nm if rng.random() < 0.7 else None, id='i', classes=['k', w], repeat=repeat)
        if carrier == 'id':
            return g.El(name=nm, id=w, repeat=repeat)
        if carrier == 'attr':
            return g.El(name=nm, attrs=[('t', w, '')], repeat=repeat)
        if carrier == 'attr-quoted':
            return g.El(name=nm, attrs=[('t', w, rng.choice('"\''))], repeat=repeat)
        return g.El(name=nm, text=w, repeat=repeat)

    def other(rep=None):
        return g.El(name=rng.choice(names), repeat=rep)

    def frame(x, op):
        """Statement with x directly followed by op (`)`: x closes a group; ``: x ends the abbreviation)."""
        tail = [(other(), '>'), (other(), '')] if rng.random() < 0.5 else [(other(), '')]
        if op == ')':
            grp = g.Group([(other(2), '>'), (x, '')], repeat=rng.choice([None, 2]))
            return [(other(), '>'), (grp, '+')] + tail
        body = [(x, '')] if op == '' else [(x, op)] + tail
        which = rng.randrange(3)
        if which == 0:
            return [(other(), '>'), (other(2), '>')] + body
        if which == 1:
            return [(g.Group([(other(), '>')] + body, repeat=2), '+'), (other(), '')]
        return [(other(3), '>'), (other(), '>'), (other(), '>')] + body

    k = 0
    n = 0
    for tok in lex.NUM_ALL:
        for carrier in carriers:
            for op in ops:
                for where in ('end', 'start', 'mid'):
                    if where != 'end' and ctx.tier == 'quick' and rng.random() < 0.75:
                        continue
                    for repeat in (None, 2):
                        k += 1
                        if repeat and carrier != 'name' and ctx.tier == 'quick' and rng.random() < 0.6:
                            continue
                        x = carrier_el(carrier, tok, where, repeat)
                        if x is None or (op.startswith('^') and lex.ends_with_open_modifier(x)):
                            continue      # `$@` / `$@^` directly before `^`: that `^` is a modifier by the documented reading
                        st = frame(x, op)
                        tree = g.unroll(g.denote_stmt(st))
                        if not lex.numbered_names_ok(tree):
                            continue
                        add(st, CONFIGS[k % len(CONFIGS)])
                        n += 1
                        ctx.cover('numbering:%s-%s' % (carrier, where))
                        ctx.cover('numbering:token-%s' % ('plain' if tok in lex.NUM_PLAIN else 'parent' if tok in lex.NUM_PARENT else 'at'))
                        ctx.cover('numbering:before-%s' % {'': 'end', ')': 'group-end'}.get(op, op))
                        if repeat:
                            ctx.cover('numbering:element-with-own-*N')
    # random statements: numbering tokens anywhere in names / classes / ids / attribute values / text
    def decorate(rng, el):
        r = rng.random()
        tok = rng.choice(lex.NUM_ALL)
        w = lex.put(rng.choice(NUM_WORDS), tok, rng.choice(['end', 'end', 'start', 'mid']))
        if r < 0.12:
            if tok in lex.NUM_PLAIN or (tok in lex.NUM_AT and el.repeat is not None):
                el.name = w
        elif r < 0.35:
            el.classes = [w]
            if rng.random() < 0.2:
                el.name = None
        elif r < 0.45:
            el.id = w
        elif r < 0.52:
            el.attrs = [('t', w, rng.choice(['', '"']))]
        elif r < 0.58:
            el.text = w
    for _ in range(300 if ctx.tier == 'quick' else 3000):
        cfg = rng.choice(CONFIGS)
        st = lex.fix_ambiguous(g.rand_stmt(rng, names, rng.randint(2, 12), max_depth=3, rep_max=3, decorate=decorate))
        tree = g.unroll(g.denote_stmt(st))
        if g.total_copies(tree) > 300 or not lex.numbered_names_ok(tree):
            continue
        add(st, cfg)
        n += 1
        ctx.cover('numbering:random')
    ctx.cov['numbering_statements'] = n


def vocabulary():
    """(plain names, same-name snippets) as used by gen()."""
    from emmet.markup.implicit_tag import ELEMENT_MAP
    snips = [s for s in g.same_name_snippets() if s[0] not in ELEMENT_MAP or s[0] in g.IMPLICIT_DOC]
    return g.safe_names(), snips


def call_routes(ctx):
    """The tree does not depend on HOW the abbreviation and its configuration reach the library: every documented call
    route (c01_routes.ROUTE_NAMES) with global-config entries for the type, the syntax, both, unrelated ones; the options
    the tree depends on (self-closing style, inline list) written in each of the layers.  Implementation + property
    oracle only (the extracted model takes the resolved Config of the two-argument route)."""
    use_documented_inline()
    names, snips = vocabulary()
    cases = routes.route_cases(ctx, names, snips, 700 if ctx.tier == 'quick' else 12000)
    for route, abbr, user, glob, meta in cases:
        r = routes.run_route(route, abbr, user, glob)
        ctx.count_eval()
        ctx.nontrivial('%s@%s|%s|%s' % (abbr, route, canon_cfg(user), canon_cfg(glob))) if len(meta) >= 2 else None
        bad = oracle(abbr, user, meta, r)
        if bad:
            ctx.property_failure('C01:route:%s|%s|%s|%s' % (route, abbr, canon_cfg(user), canon_cfg(glob)),
                                 'C01 %s with abbr=%r config=%s global=%s: %s' % (route, abbr[:300], canon_cfg(user), canon_cfg(glob), bad),
                                 {'component': 'C01-route', 'route': route, 'abbr': abbr, 'config': user, 'global': glob,
                                  'meta': meta, 'impl': repr(r)[:500], 'why': bad})
    ctx.cov['call_route_cases'] = len(cases)


def option_value_types(ctx):
    """The tree does not depend on the Python TYPE in which a configuration value is handed over, as long as the value
    offers what the documented type offers (harness/c01_optshapes.py): the inline-element collection as list / tuple /
    set / frozenset / dict / keys view / OrderedDict / deque / Counter / caller-defined container, in every layer; the
    config, its options, its context, the global config and its entries as every mapping type; syntax and self-closing
    style as str subclass / str Enum member; format as True / False / 1 / 0.  Implementation + property oracle only
    (the extracted model is fed the resolved configuration encoded from the documented types)."""
    use_documented_inline()
    names, snips = vocabulary()
    parents_ok = [n for n, void in implicit_parents() if not void]
    block = [n for n in BLOCK_PARENTS if n in parents_ok]
    cases = optshapes.shape_cases(ctx, names, HTML_INLINE_DOC, dict(g.IMPLICIT_DOC), block, parents_ok,
                                  400 if ctx.tier == 'quick' else 8000)
    for route, abbr, user, glob, meta in cases:
        r = optshapes.run_shape(route, abbr, user, glob)
        ctx.count_eval()
        ctx.nontrivial('%s@%s|%s|%s' % (abbr, route, canon_cfg(user), canon_cfg(glob))) if len(meta) >= 2 else None
        bad = oracle(abbr, user, meta, r)
        if bad:
            ctx.property_failure('C01:optshape:%s|%s|%s|%s' % (route, abbr, canon_cfg(user), canon_cfg(glob)),
                                 'C01 %s with abbr=%r config=%s global=%s: %s' % (route, abbr[:300], optshapes.show(user)[:600], optshapes.show(glob)[:600], bad),
                                 {'component': 'C01-optshape', 'route': route, 'abbr': abbr, 'config_spec': user, 'global_spec': glob,
                                  'config_python': optshapes.show(user), 'global_python': optshapes.show(glob),
                                  'meta': meta, 'impl': repr(r)[:500], 'why': bad})
    ctx.cov['option_value_type_cases'] = len(cases)
    ctx.cov['option_value_types'] = {'collections': optshapes.COLLECTION_SHAPES, 'mappings': optshapes.MAPPING_SHAPES,
                                     'mapping_positions': optshapes.MAPPING_SPOTS, 'strings': optshapes.STRING_SHAPES}


def rare_parents():
    """Parents of the nameless elements of the rare-syntax classes: every documented mapped parent, some documented
    inline elements, block / unknown names."""
    from emmet.snippets import markup_snippets
    inline = [n for n in ('em', 'strong', 'b', 'i', 'q', 'u', 'span', 'sub', 'code', 'small') if n not in markup_snippets]
    block = [n for n in ('div', 'section', 'li', 'td', 'custom', 'x-y', 'h1') if n not in markup_snippets]
    return sorted(g.IMPLICIT_DOC) + inline + block


def rare_syntax(ctx, model):
    """Documented but rare spellings of a unit (harness/c01_rare.py): cases with ONE denotation that must be accepted go
    through implementation + extracted model + property oracle, the others (`[]`: two accepted readings; open groups:
    may be rejected) through implementation + property oracle only."""
    from markup_util import impl_expand
    use_documented_inline()
    names, snips = vocabulary()
    cases = rare.rare_cases(ctx, names, CONFIGS, rare_parents())
    strict = [(a, c, m[0]) for a, c, m, rej in cases if len(m) == 1 and not rej]
    loose = [(a, c, m, rej) for a, c, m, rej in cases if not (len(m) == 1 and not rej)]
    impl = run_cases(ctx, model, strict, 'C01', None)
    results = [(a, c, [m], False, r) for (a, c, m), r in zip(strict, impl)]
    for a, c, m, rej in loose:
        results.append((a, c, m, rej, impl_expand(a, c)))
        ctx.count_eval()
    for abbr, cfg, metas, rej, r in results:
        if len(metas[0]) >= 2:
            ctx.nontrivial(abbr)
        bad = rare.judge(g.html_preorder, metas, rej, r)
        if bad:
            ctx.property_failure(KEY_EMPTY_UNIT_IMPLICIT if EMPTY_UNIT_IMPLICIT_RE.search(abbr) else 'C01:rare:%s|%s' % (abbr, canon_cfg(cfg)), 'C01 expand(%r, %s): %s' % (abbr[:300], canon_cfg(cfg), bad),
                                 {'component': 'C01-rare', 'abbr': abbr, 'config': cfg, 'metas': metas, 'may_reject': rej,
                                  'impl': repr(r)[:500], 'why': bad})
    ctx.cov['rare_syntax'] = {'cases': len(cases), 'through_model': len(strict), 'oracle_only': len(loose),
                              'attribute_forms': len(rare.ATTR_FORMS), 'empty_unit_children': rare.EMPTY_NODE_CHILDREN}


def session_failures(sess, results):
    return [(k, oracle(st['abbr'], sess['config'], [tuple(x) for x in st['meta']], r))
            for k, (st, r) in enumerate(zip(sess['steps'], results))]


def long_lived(ctx):
    """One configuration object for a whole sequence of expansions; the caller re-assigns its context / options between
    the calls.  Every expansion must give the tree denoted under the state the caller has set at that moment."""
    use_documented_inline()
    names, snips = vocabulary()
    sessions = routes.sessions(ctx, names, snips, 60 if ctx.tier == 'quick' else 1200, 12)
    n = 0
    for sess in sessions:
        results = routes.run_session(sess)
        n += len(results)
        for st in sess['steps']:
            ctx.count_eval()
            ctx.nontrivial('session:%s@%s' % (st['abbr'], st.get('set_context', 'kept')))
        for k, bad in session_failures(sess, results):
            if not bad:
                continue
            # smallest call sequence that still shows it: the failing call alone after the state changes made before it
            for small in (routes.reduce_session(sess, k, False), routes.reduce_session(sess, k), dict(sess, steps=sess['steps'][:k + 1])):
                if session_failures(small, routes.run_session(small))[-1][1]:
                    break
            st = sess['steps'][k]
            ctx.property_failure('C01:session:%s|%s|%s|step%d:%s' % (sess['carrier'], canon_cfg(sess['config']), canon_cfg(sess['global']), k, st['abbr']),
                                 'C01 one %s object reused (config=%s global=%s), call %d: %s of %r after context=%r options=%r: %s'
                                 % (sess['carrier'], canon_cfg(sess['config']), canon_cfg(sess['global']), k + 1, st['route'], st['abbr'],
                                    small['steps'][-1].get('set_context', 'as built'), small['steps'][-1].get('set_options', {}), bad),
                                 {'component': 'C01-session', 'carrier': small['carrier'], 'config': small['config'],
                                  'global': small['global'], 'steps': small['steps'], 'why': bad})
            break
    ctx.cov['long_lived_config'] = {'sessions': len(sessions), 'calls': n}


def run(ctx):
    ok = ctx.build(['props/C01.vo', 'props/C01String.vo', 'props/C01Expand.vo', 'props/C01Implicit.vo', 'run/MarkupRun.vo'])
    if ok:
        ctx.obligations('props/C01.v')
        ctx.obligations('props/C01String.v')
        ctx.obligations('props/C01Expand.v')
        ctx.obligations('props/C01Implicit.v')
    model = ctx.model('markup') if ok else None
    ctx.cov['rule'] = ('statements generated from an AST (elements, > + ^ groups, *N, nameless elements), rendered to text; '
                       'exhaustive operator skeletons up to the stated size, implicit-name table, random large statements; '
                       'implicit-parent-table: a nameless element (class / id / attribute) below EVERY element of the documented '
                       'HTML inline list (hard-coded in the harness from the Emmet option documentation, not read from the '
                       'library; map/object excluded: own undocumented child names), every documented mapped parent and block / '
                       'unknown / near-miss names, lower-case and for about half of them upper-case / capitalised, as direct child, '
                       'below a repeated parent, inside a repeated group, after climbs, inside a group below the parent; plus random '
                       'statements over these names with 40%% nameless elements (implicit-random); '
                       'deep nesting (deep:*): trees 10..%d levels deep (every depth within -2..+3 of 16/32/64/128, 24/48/96/100/150/%d '
                       'and random depths) as plain `>` chains, chains with siblings on the way, chains followed by climbs of 1..depth+5 '
                       'levels, nested groups, repeated levels / repeated whole chain, chains with nameless elements; the deepest '
                       'element always has children; deeper than about 244 levels the library raises RecursionError (not explored); '
                       'formatted outputs whose summed element depth exceeds %d are checked by implementation + oracle only '
                       '(extracted model takes seconds on their indentation; counted in oracle_only_cases), all others also '
                       'through the model; '
                       'lexical-case: element names in every spelling (lower / UPPER / Capitalised / camelCase / last letter upper; with '
                       'digits, `-`, `:`, `_`; HTML element names and free words; snippet keys in any letter case left out) directly '
                       'followed by `.class` / `#id` / several classes / `[attr]` / `{text}` / `/` / `*N` whose identifiers are '
                       'again spelled in every way (lower, UPPER, Capitalised, camelCase, digit-, dash-, underscore-first): quick = every '
                       'name spelling x 10 identifier spellings (all pairs of spelling classes, see lexical-case:name-*/ident-*), '
                       'thorough = all pairs x 3 of the 9 decoration kinds (rotating); as single element, parent, repeated child, group head, before '
                       'climbs, at a group end; plus random statements over this vocabulary (lexical-case:random); '
                       'numbering (numbering:*): item-numbering tokens `$` `$$` `$$$` `$@-` `$@N` `$@-N` `$@` `$@^` `$@^^` `$@^-` `$@^N` at the '
                       'end / start / middle of a name, class, later class, id, unquoted and quoted attribute value, text, with and '
                       'without an own `*N`, DIRECTLY followed by each of `>` `+` `^` `^^` `^^^` `)` and the end of the abbreviation '
                       '(all combinations token x carrier x operator at the end position; start / middle sampled in quick), below '
                       'repeated parents, inside repeated groups, three levels down; plus random statements with tokens anywhere; '
                       'names with tokens are denoted by the documented numbering (hard-coded in harness/c01_lex.py: count from 1 '
                       'in the nearest repeated unit, zero padding, @- / @N; 1 outside every repeater); in names only `$`.. and, on '
                       'elements with an own *N, the @ forms; `$@^` only in classes / ids / values / text, where the tree oracle '
                       'needs no value; never generated: `$@` or `$@^` directly before a climb (that `^` is a modifier by the '
                       'documented reading) and tokens in names that number into a snippet key; '
                       'call routes (routes:*): the same kind of statements (void snippet elements and `x/` elements as leaves, as parents, '
                       'below repeated parents, in repeated groups, after climbs; nameless elements; random statements) through every '
                       'documented call route -- expand(abbr, dict, global_config), expand(abbr, Config(dict, global)), '
                       'expand_markup(abbr, Config), markup.parse + markup.stringify, a pre-parsed Abbreviation tree given to markup.parse '
                       '-- for the syntaxes html / xhtml / xml / xsl, with a global config that has an entry for the abbreviation type '
                       '(`markup`), for the syntax, for both, for unrelated syntaxes / types only (carrying options that would change the '
                       'tree if they applied), or is empty / absent; the entries carry `options` / `variables` / `snippets` sections '
                       '(also empty ones) with tree-neutral content; the self-closing style in force is written in each possible layer '
                       '(built-in syntax profile, the call config, the global syntax entry, the global type entry [html syntax only]), '
                       'likewise a user-defined inline element list and format on/off; every syntax x global shape x style layer with '
                       'fixed shapes, plus random statements under random such configurations; '
                       'long-lived configuration (session:*): ONE Config object (built from dict / dict + global, with or without a '
                       'context) or one caller-owned dict is used for 12 expansions in a row; between calls the caller assigns '
                       '`context` (moved to another parent: every documented mapped parent, block / inline / unknown names, other '
                       'letter case, empty name; or removed) and changes entries of `options` (self-closing style, format, inline list); '
                       'each call goes through expand / expand_markup / parse + stringify / pre-parsed tree; the tree of every call must '
                       'be the one denoted under the state set at that moment (top-level nameless elements named after the CURRENT '
                       'context); a failing call is reported as the shortest sequence that still fails; '
                       'routes:* and session:* cases are judged by implementation + property oracle only (the extracted model takes the '
                       'resolved configuration of the two-argument route; not sent through it); the documented facts they use '
                       '(self-closing style of the built-in syntax profiles, user config > global syntax entry > built-in profile) are '
                       'hard-coded in harness/c01_routes.py; never generated: a style conflict between the global TYPE entry and a '
                       'built-in SYNTAX profile (C20 subject); '
                       'rare syntax (rare:*, harness/c01_rare.py): (1) attr-forms: a NAMELESS element written with every documented form of '
                       'the attribute set -- `[t]`, `[t=v]`, double / single quoted, `[t={v}]`, explicitly empty values `[t=]` `[t=""]` '
                       "`[t='']`, boolean `[t.]`, implied `[!t]` `[!t.]` `[!t=v]` `[!t=\"\"]`, default-attribute values `[\"v\"]` `['v']` "
                       '`[""]`, two / three attributes of one or of mixed forms (all implied, all boolean, implied + plain ...), white '
                       'space inside the brackets, dashed / namespaced / upper-case attribute names -- alone and beside a class / id / '
                       'text, below every documented mapped parent and inline / block / unknown parents (quick: about 45%% of the parent '
                       'x form pairs, 2 of 9 frames each; thorough: all), as child with children, leaf, nested twice, below a repeated '
                       'parent, with an own *N, inside a repeated group, after a climb, in groups ending the statement, at top level; '
                       'the same forms on named elements; (2) empty-units: `{}`, `{text}` (text node: no tag, later units keep their '
                       'place), `[]`, `[ ]`, with and without *N, as first unit, child, between siblings, below a repeated parent, in '
                       'front of a nameless element, at a group start, inside one / two groups ending the statement, after a climb, '
                       'directly followed by each of `>` `+` `^` `^^` `)` and the end; `[]` names no attribute: both readings (no '
                       'element / one element with the implicit name) are accepted; `{}` / `[]` directly before `>` is generated only '
                       'with c01_rare.EMPTY_NODE_CHILDREN (now %s); (3) every 2-unit skeleton and a seed-chosen share of the 3-unit '
                       'skeletons with each position in turn taken by `{}` / `{t}` / `[]` / `[!t]` / `[t.]`; (4) random statements mixing '
                       'all of these; (5) open-groups: every such statement that ends in group(s) without *N also as typed so far, '
                       'i.e. without the closing `)` (`w>(x>{}+y`): may be rejected with a positioned error, otherwise the tree must be '
                       'the denoted one; cases with one denotation that must be accepted go through implementation + extracted model + '
                       'oracle, `[]` cases and open groups through implementation + oracle only; '
                       'option value types (optshape:*, harness/c01_optshapes.py): the SAME configuration in every Python type that offers '
                       'what the documented type offers -- (1) the inline-element collection (the documented default list, the list '
                       'plus custom names, a small custom list, the empty collection) as list / tuple / set / frozenset / dict with the '
                       'names as keys / dict keys view / OrderedDict / deque / Counter / a caller-defined container (membership, '
                       'iteration, length only), written in the call config, in the global entry of the syntax or in the global entry '
                       'of the type, with nameless elements below names of the collection, mapped parents, block parents and documented '
                       'inline names that are NOT in the collection, as direct child, below a repeated parent, in a group, after a '
                       'climb, two nameless levels; (2) the tree-neutral name collections output.formatSkip / output.formatForce / '
                       'output.booleanAttributes in the same ten types; (3) the call config, its options, its context, the global '
                       'config, a global entry and the options of a global entry each as dict / OrderedDict / defaultdict / read-only '
                       'MappingProxyType / UserDict / ChainMap (context: top-level nameless elements named after it); (4) syntax and '
                       'output.selfClosingStyle as instance of a str subclass / member of a str-valued Enum, output.format as True / '
                       'False / 1 / 0; (5) random statements (40%% nameless) under random mixtures of all of these; all through the '
                       'five call routes in rotation, syntaxes html / xhtml / xml; configurations are stored in replay files as a '
                       'spec ({"$": type, "v": content}) and rebuilt for the call; never generated: a plain string as name '
                       'collection (substring search, meaning not documented), one-shot iterators, non-string names; judged by '
                       'implementation + property oracle only (the extracted model is fed the resolved configuration encoded from '
                       'the documented types; not sent through it); '
                       'non-trivial = denotes at least two elements; distinct by abbreviation text. Oracle: element tree of '
                       'the output (tag parser) = independent denotation of the AST (inline-ness from the hard-coded documented list). '
                       'Excluded shapes: ")>" (child of a group).' % (DEEP_MAX - 10, DEEP_MAX - 10, MODEL_INDENT_BUDGET, 'on' if rare.EMPTY_NODE_CHILDREN else 'off'))
    cases, oracle_only = gen(ctx)
    impl = run_cases(ctx, model, cases, 'C01', None)      # implementation + model correspondence
    impl += run_cases(ctx, None, oracle_only, 'C01', None)  # implementation only
    cases = cases + oracle_only
    ctx.cov['oracle_only_cases'] = len(oracle_only)
    for (abbr, cfg, meta), r in zip(cases, impl):         # property oracle on every implementation result
        bad = oracle(abbr, cfg, meta, r)
        if bad:
            ctx.property_failure('C01:%s|%s' % (abbr, canon_cfg(cfg)), 'C01 expand(%r, %s): %s' % (abbr[:300], canon_cfg(cfg), bad),
                                 {'component': 'C01', 'abbr': abbr, 'config': cfg, 'meta': meta, 'impl': repr(r)[:500], 'why': bad})
    poisoned_sequences(ctx, cases)
    if RARE_SYNTAX:
        rare_syntax(ctx, model)
    if CALL_ROUTES:
        call_routes(ctx)
    if LONG_LIVED_CONFIG:
        long_lived(ctx)
    if OPTION_VALUE_TYPES:
        option_value_types(ctx)
    for (abbr, cfg, exp), r in list(zip(cases, impl))[200:204]:
        ctx.sample({'abbr': abbr, 'config': cfg, 'denoted': exp[:8], 'output': r[1][:120] if r[0] == 'ok' else r})


POISON_ABBRS = ['p{${1', 'a[href=${1', 'p{${1:text', 'a[b="x', '(a>b', 'a{t', 'ul>li[title="x', 'ul>li)', 'div>p?', 'a[b=${', '{${x']


def poisoned_sequences(ctx, cases):
    """The tree of an expansion does not depend on earlier calls, in particular not on earlier REJECTED abbreviations
    (unterminated fields, brackets, quotes): every few cases a malformed abbreviation is expanded first."""
    from markup_util import impl_expand
    rng = ctx.rng
    n = 0
    step = max(1, len(cases) // (400 if ctx.tier == 'quick' else 4000))
    for k in range(0, len(cases), step):
        abbr, cfg, meta = cases[k]
        poison = rng.choice(POISON_ABBRS)
        impl_expand(poison, cfg)
        r = impl_expand(abbr, cfg)
        n += 1
        ctx.count_eval()
        ctx.cover('C01:after-rejected-abbreviation')
        bad = oracle(abbr, cfg, meta, r)
        if bad:
            ctx.property_failure('C01:after-rejected:%s|%s' % (abbr, poison),
                                 'C01 expand(%r) right after the rejected abbreviation %r: %s' % (abbr, poison, bad),
                                 {'component': 'C01-sequence', 'abbr': abbr, 'config': cfg, 'poison': poison, 'meta': meta,
                                  'impl': repr(r)[:500], 'why': bad})
            break
    ctx.cov['after_rejected_sequences'] = n


def replay(ctx, obj):
    rp = obj.get('replay', {})
    if 'abbr' not in rp and rp.get('component') != 'C01-session':
        print('replay names a broken obligation, no input: %s' % str(rp)[:300])
        return 1
    from markup_util import impl_expand
    if rp.get('component') == 'C01-route':
        r = routes.run_route(rp['route'], rp['abbr'], rp['config'], rp['global'])
        bad = oracle(rp['abbr'], rp['config'], [tuple(x) for x in rp['meta']], r)
        print('%s: abbr=%r config=%r global=%r -> %s : %s' % (rp['route'], rp['abbr'], rp['config'], rp['global'], repr(r)[:600], bad or 'property holds'))
        return 1 if bad else 0
    if rp.get('component') == 'C01-optshape':
        # the configuration is stored as a spec (harness/c01_optshapes.py: {"$": type, "v": content}) and rebuilt here
        r = optshapes.run_shape(rp['route'], rp['abbr'], rp['config_spec'], rp['global_spec'])
        bad = oracle(rp['abbr'], rp['config_spec'], [tuple(x) for x in rp['meta']], r)
        print('%s: abbr=%r config=%s global=%s -> %s : %s' % (rp['route'], rp['abbr'], optshapes.show(rp['config_spec']),
                                                             optshapes.show(rp['global_spec']), repr(r)[:600], bad or 'property holds'))
        return 1 if bad else 0
    if rp.get('component') == 'C01-rare':
        r = impl_expand(rp['abbr'], rp['config'])
        bad = rare.judge(g.html_preorder, rp['metas'], rp.get('may_reject', False), r)
        print('expand(%r, %r) -> %s : %s' % (rp['abbr'], rp['config'], repr(r)[:600], bad or 'property holds'))
        return 1 if bad else 0
    if rp.get('component') == 'C01-session':
        results = routes.run_session(rp)
        rc = 0
        print('one %s object built from config=%r global=%r' % (rp['carrier'], rp['config'], rp['global']))
        for (k, bad), st, r in zip(session_failures(rp, results), rp['steps'], results):
            print('  call %d: %s%s%s with abbr=%r -> %s : %s' % (
                k + 1, 'context := %r; ' % (st['set_context'],) if 'set_context' in st else '',
                'options.update(%r); ' % (st['set_options'],) if st.get('set_options') else '', st['route'], st['abbr'],
                repr(r)[:400], bad or 'property holds'))
            rc = rc or (1 if bad else 0)
        return rc
    if rp.get('component') == 'C01-sequence':
        impl_expand(rp['poison'], rp['config'])
        r = impl_expand(rp['abbr'], rp['config'])
        bad = oracle(rp['abbr'], rp['config'], [tuple(x) for x in rp['meta']], r)
        print('expand(%r) after rejected %r -> %r : %s' % (rp['abbr'], rp['poison'], r, bad or 'property holds'))
        return 1 if bad else 0
    r = impl_expand(rp['abbr'], rp['config'])
    if 'meta' in rp:
        # the denoted tree was recorded with the input: state the property on the fresh result
        bad = oracle(rp['abbr'], rp['config'], [tuple(x) for x in rp['meta']], r)
        print('expand(%r, %r) -> %s : %s' % (rp['abbr'], rp['config'], repr(r)[:600], bad or 'property holds'))
        return 1 if bad else 0
    # older replay files without the denotation: re-run the recorded comparison
    print('expand(%r, %r) -> %r\nrecorded failure: %s' % (rp['abbr'], rp['config'], r, rp.get('why')))
    return 1 if repr(r)[:500] == rp.get('impl') else 0
