"""C01 -- Markup expansion reproduces the element tree the operators denote."""
import itertools

import abbr_gen as g
from markup_util import run_cases

CONFIGS = [{}, {'syntax': 'xml'}, {'options': {'output.selfClosingStyle': 'xhtml'}},
           {'options': {'output.format': False}}, {'syntax': 'xml', 'options': {'output.format': False}},
           {'cache': {}}, {'cache': {}, 'options': {'output.selfClosingStyle': 'xhtml'}}]


def writes_self_closed_leaves(cfg):
    return cfg.get('syntax') == 'xml' or (cfg.get('options') or {}).get('output.selfClosingStyle') in ('xhtml', 'xml')


def oracle(abbr, cfg, meta, r):
    """The element tree of the output is exactly the tree the operators denote."""
    if r[0] != 'ok':
        return 'expand did not return a string: %r' % (r,)
    got, depth = g.html_preorder(r[1])
    if depth != 0:
        return 'unbalanced tags in output %r' % r[1]
    if got != meta:
        return 'element tree (depth, name) %r differs from the denoted tree %r' % (got[:12], meta[:12])
    return None


def gen(ctx):
    names = g.safe_names()
    g.load_inline()
    rng = ctx.rng
    cases = []

    def add(stmt, cfg):
        abbr = g.render(stmt)
        exp = g.preorder(g.unroll(g.denote_stmt(stmt)))
        cases.append((abbr, cfg, exp))
        ctx.nontrivial(abbr) if len(exp) >= 2 else None

    # corpus: shapes that exposed defects or are easy to get wrong
    for abbr, exp in [('a>b^^^^c', [(0, 'a'), (1, 'b'), (0, 'c')])]:
        pass
    # exhaustive operator skeletons
    max_units = 3 if ctx.tier == 'quick' else 4
    for n in range(1, max_units + 1):
        stmts = g.enum_stmts(n, names)
        if n == 4:
            stmts = (s for k, s in enumerate(stmts) if k % 4 == ctx.seed % 4)
        for k, st in enumerate(stmts):
            add(st, CONFIGS[k % len(CONFIGS)])
    ctx.cov['exhaustive_skeleton_units'] = max_units if max_units <= 3 else '3 (all) + 4 (one quarter, chosen by seed)'
    # implicit names: nameless element with a class under every documented parent, under
    # unmapped block parents (div), under inline parents (span), at top level (div)
    inline = sorted(g.INLINE - g.UNDOCUMENTED_PARENTS - set(g.IMPLICIT_DOC) - {'a', 'abbr', 'acronym', 'bdo', 'button', 'img', 'input', 'label', 'select', 'textarea', 'iframe', 'basefont', 'br', 'font', 'applet', 'object', 'map'})
    parents = sorted(g.IMPLICIT_DOC) + ['div', 'section', 'custom', 'x-y', 'UL', 'Table', 'P'] + inline[:12]
    for p in parents:
        for deco in (dict(classes=['c']), dict(id='i'), dict(attrs=[('t', 'v', '')])):
            child = g.El(name=None, **deco)
            for cfg in CONFIGS[:2]:
                add([(g.El(name=p), '>'), (child, '')], cfg)
                add([(g.El(name=p), '>'), (g.El(name=None, repeat=2, **deco), '>'), (g.El(name=None, **deco), '')], cfg)
    add([(g.El(name=None, classes=['top']), '')], {})
    # implicit names at top level under a context element (config.context['name'] plays the parent) and under a
    # user-defined inline list (the lower-cased parent is looked up in options['inlineElements'] as given)
    def add_ctx(stmt, cfg, parent, inline=None):
        saved = set(g.INLINE)
        if inline is not None:
            g.INLINE.clear()
            g.INLINE.update(inline)
        try:
            exp = g.preorder(g.unroll(g.denote_stmt(stmt), parent_name=parent))
        finally:
            g.INLINE.clear()
            g.INLINE.update(saved)
        abbr = g.render(stmt)
        cases.append((abbr, cfg, exp))
        ctx.nontrivial(abbr + '@' + repr(sorted(cfg.items(), key=str)))
        ctx.cover('implicit-context' if inline is None else 'implicit-inline-list')
    for cname in sorted(g.IMPLICIT_DOC) + ['div', 'em', 'UL', 'Table', 'custom', '']:
        for deco in (dict(classes=['c']), dict(id='i')):
            st = [(g.El(name=None, **deco), '>'), (g.El(name=None, **deco), '+'), (g.El(name='b', **deco), '>'),
                  (g.El(name=None, repeat=2, **deco), '^^^'), (g.El(name=None, **deco), '')]
            for fmt in (True, False):
                add_ctx(st, {'context': {'name': cname}, 'options': {'output.format': fmt}}, cname)
    for inl in (['x-y', 'custom'], ['X'], []):
        for p in ('x-y', 'custom', 'X', 'x', 'em', 'div'):
            st = [(g.El(name=p), '>'), (g.El(name=None, classes=['c']), '>'), (g.El(name=None, id='i'), '')]
            add_ctx(st, {'options': {'inlineElements': list(inl), 'output.format': False}}, None, inline=[w for w in inl])
    # snippet-backed names (one element of the same name) and the `/` mark, as parents and used twice
    from emmet.markup.implicit_tag import ELEMENT_MAP
    snips = [s for s in g.same_name_snippets() if s[0] not in ELEMENT_MAP or s[0] in g.IMPLICIT_DOC]
    ctx.cov['same_name_snippets'] = len(snips)
    pick = [s for s in snips if s[0] in ('a', 'img', 'br', 'input', 'select', 'label', 'option', 'hr', 'form', 'button', 'link')] or snips[:8]
    for nm, void in pick + [(n, None) for n in names[:3]]:
        for cfg in CONFIGS:
            sc = void is None
            add([(g.El(name=nm, self_close=sc), '>'), (g.El(name='p'), '')], cfg)
            add([(g.El(name='ul'), '>'), (g.El(name='li', repeat=2), '>'), (g.El(name=nm, self_close=sc), '>'), (g.El(name='span'), '')], cfg)
            add([(g.Group([(g.El(name='div'), '>'), (g.El(name=nm, self_close=sc), '>'), (g.El(name='b'), '')], repeat=2), '+'), (g.El(name='i'), '')], cfg)
            add([(g.El(name='div'), '>'), (g.El(name=nm, self_close=sc), '>'), (g.El(name='b'), '^'), (g.El(name=nm, self_close=sc), '>'), (g.El(name='i'), '')], cfg)
            add([(g.El(name=nm, repeat=2), '>'), (g.El(name=nm), '>'), (g.El(name='u'), '')], cfg)
            if writes_self_closed_leaves(cfg) and (void or sc):
                add([(g.El(name='div'), '>'), (g.El(name=nm, self_close=sc), '+'), (g.El(name='p'), '>'), (g.El(name=nm, self_close=sc), '')], cfg)
    # random large statements
    n_rand = 1500 if ctx.tier == 'quick' else 40000

    def decorate(rng, el):
        if rng.random() < 0.15:
            el.classes = ['k']
            if rng.random() < 0.5:
                el.name = None
        if rng.random() < 0.1:
            el.id = 'z'
    for _ in range(n_rand):
        cfg = rng.choice(CONFIGS)
        leafy = writes_self_closed_leaves(cfg)
        pool = names + [s[0] for s in snips if leafy or not s[1]] if rng.random() < 0.4 else names
        st = g.rand_stmt(rng, pool, rng.randint(1, 40 if rng.random() < 0.2 else 10), max_depth=4, decorate=decorate)
        if g.total_copies(g.unroll(g.denote_stmt(st))) > 400:
            continue
        g.mark_self_close(st, rng, leafy)
        add(st, cfg)
    return cases


def run(ctx):
    ok = ctx.build(['props/C01.vo', 'props/C01String.vo', 'props/C01Expand.vo', 'props/C01Implicit.vo', 'run/MarkupRun.vo'])
    if ok:
        ctx.obligations('props/C01.v')
        ctx.obligations('props/C01String.v')
        ctx.obligations('props/C01Expand.v')
        ctx.obligations('props/C01Implicit.v')
    model = ctx.model('markup') if ok else None
    ctx.cov['rule'] = ('statements generated from an AST (elements, > + ^ groups, *N, nameless elements), rendered to text; '
                       'exhaustive operator skeletons up to the stated size, implicit-name table, random large statements; '
                       'non-trivial = denotes at least two elements; distinct by abbreviation text. Oracle: element tree of '
                       'the output (tag parser) = independent denotation of the AST. Excluded shapes: ")>" (child of a group).')
    cases = gen(ctx)
    impl = run_cases(ctx, model, cases, 'C01', oracle)
    poisoned_sequences(ctx, cases)
    for (abbr, cfg, exp), r in list(zip(cases, impl))[200:204]:
        ctx.sample({'abbr': abbr, 'config': cfg, 'denoted': exp[:8], 'output': r[1][:120] if r[0] == 'ok' else r})


POISON_ABBRS = ['p{${1', 'a[href=${1', 'p{${1:text', 'a[b="x', '(a>b', 'a{t', 'ul>li[title="x', 'ul>li)', 'div>p?', 'a[b=${', '{${x']


def poisoned_sequences(ctx, cases):
    """The tree of an expansion does not depend on earlier calls, in particular not on earlier REJECTED abbreviations
    (unterminated fields, brackets, quotes): every few cases a malformed abbreviation is expanded first."""
    from markup_util import impl_expand
    rng = ctx.rng
    n = 0
    step = max(1, len(cases) // (400 if ctx.tier == 'quick' else 4000))
    for k in range(0, len(cases), step):
        abbr, cfg, meta = cases[k]
        poison = rng.choice(POISON_ABBRS)
        impl_expand(poison, cfg)
        r = impl_expand(abbr, cfg)
        n += 1
        ctx.count_eval()
        ctx.cover('C01:after-rejected-abbreviation')
        bad = oracle(abbr, cfg, meta, r)
        if bad:
            ctx.property_failure('C01:after-rejected:%s|%s' % (abbr, poison),
                                 'C01 expand(%r) right after the rejected abbreviation %r: %s' % (abbr, poison, bad),
                                 {'component': 'C01-sequence', 'abbr': abbr, 'config': cfg, 'poison': poison, 'meta': meta,
                                  'impl': repr(r)[:500], 'why': bad})
            break
    ctx.cov['after_rejected_sequences'] = n


def replay(ctx, obj):
    rp = obj.get('replay', {})
    if 'abbr' not in rp:
        print('replay names a broken obligation, no input: %s' % str(rp)[:300])
        return 1
    from markup_util import impl_expand
    if rp.get('component') == 'C01-sequence':
        impl_expand(rp['poison'], rp['config'])
        r = impl_expand(rp['abbr'], rp['config'])
        bad = oracle(rp['abbr'], rp['config'], [tuple(x) for x in rp['meta']], r)
        print('expand(%r) after rejected %r -> %r : %s' % (rp['abbr'], rp['poison'], r, bad or 'property holds'))
        return 1 if bad else 0
    import emmet.abbreviation  # noqa
    # re-derive the denotation from the text is not possible; re-run the recorded comparison
    r = impl_expand(rp['abbr'], rp['config'])
    print('expand(%r, %r) -> %r\nrecorded failure: %s' % (rp['abbr'], rp['config'], r, rp.get('why')))
    return 1 if repr(r)[:500] == rp.get('impl') else 0
