"""C05 -- Stylesheet abbreviations resolve numbers, units, colors and !important.

Obligations: coq/props/C05.v (colour printing round trip, short-hex rule, colour forms, rgba rule, unit decision rule,
dash rule of the tokenizer, !important rule, line shape; all for unbounded inputs).

Search (property oracle, independent of the model): abbreviations are GENERATED from a structured description
(key of a property snippet, a list of numbers / colours with the connectors the statement defines, optional `!`,
`+`-joined), and the expected output is computed from that description by a direct re-statement of the documented
rules (`expected_line`): units by the decision rule, colour by its VALUE (channels + alpha, decoded back from whatever
the implementation printed), `!important`, between/after of the syntax, one property per line.

Tie: the same cases go through the Coq model of the whole pipeline (evaluated inside Coq, PrimFloat scorer) and the
output strings are compared."""
import glob
import json
import os
import re
from fractions import Fraction

import common
import style_util as su
from style_util import Cfg

# ---------------------------------------------------------------- documented conventions (re-stated, not read from the code)
BETWEEN_AFTER = {'css': (': ', ';'), 'scss': (': ', ';'), 'less': (': ', ';'), 'sass': (': ', ''), 'sss': (': ', ';'),
                 'stylus': (' ', '')}
DEFAULT_ALIASES = {'e': 'em', 'p': '%', 'x': 'ex', 'r': 'rem'}
UNITLESS_PROPS = ['z-index', 'line-height', 'opacity', 'font-weight', 'zoom', 'flex', 'flex-grow', 'flex-shrink']
# key -> property (unit-taking) ; checked against the live table in run()
UNIT_KEYS = {'p': 'padding', 'm': 'margin', 'w': 'width', 'h': 'height', 't': 'top', 'l': 'left', 'fsz': 'font-size',
             'bdw': 'border-width', 'bdrs': 'border-radius', 'mt': 'margin-top', 'pl': 'padding-left', 'bd': 'border',
             'c': 'color', 'bgc': 'background-color', 'bg': 'background', 'ti': 'text-indent', 'wos': 'word-spacing',
             'bgp': 'background-position', 'tsh': 'text-shadow', 'bxsh': 'box-shadow', 'olc': 'outline-color'}
UNITLESS_KEYS = {'z': 'z-index', 'lh': 'line-height', 'op': 'opacity', 'fw': 'font-weight', 'zom': 'zoom', 'fx': 'flex',
                 'fxg': 'flex-grow', 'fxsh': 'flex-shrink'}
EXPLICIT_UNITS = ['px', 'em', 'rem', '%', 'vh', 'vw', 'pt', 'ex', 'cm', 'mm', 'deg', 's', 'ms', 'fr', 'ch', 'Q', 'in', 'pc']
ALIASES = ['p', 'e', 'x', 'r']

OPTION_SETS = [
    {}, {}, {'stylesheet.shortHex': False}, {'stylesheet.intUnit': 'pt'}, {'stylesheet.floatUnit': 'rem'},
    {'stylesheet.intUnit': '', 'stylesheet.floatUnit': 'vh'},
    {'stylesheet.intUnit': 'pt', 'stylesheet.floatUnit': 'vh', 'stylesheet.unitAliases': {'e': 'rem', 'p': 'pc', 'q': 'Q', 'x': 'px'}},
    {'stylesheet.unitAliases': {}}, {'stylesheet.shortHex': False, 'stylesheet.intUnit': 'em', 'stylesheet.floatUnit': 'px'},
    {'stylesheet.unitless': ['padding', 'width']}, {'stylesheet.unitless': []},
]


# ---------------------------------------------------------------- structured values
class Num:
    """sign, integer digits (may be ''), has_dot, fraction digits (may be ''), unit text as typed ('' = none)"""

    def __init__(self, neg, ip, dot, fp, unit):
        self.neg, self.ip, self.dot, self.fp, self.unit = neg, ip, dot, fp, unit

    def text(self):
        return ('-' if self.neg else '') + self.ip + ('.' if self.dot else '') + self.fp + self.unit

    def value(self):
        v = Fraction(int(self.ip or '0')) + (Fraction(int(self.fp), 10 ** len(self.fp)) if self.fp else 0)
        return -v if self.neg else v

    def has_unit(self):
        return self.unit != ''

    def desc(self):
        return 'num'


class Col:
    """hex digits as typed (1, 2, 3 or 6), alpha text as typed ('' | '.' | '.ddd')"""

    def __init__(self, hexd, alpha):
        self.hexd, self.alpha = hexd, alpha

    def text(self):
        return '#' + self.hexd + self.alpha

    def channels(self):
        """the documented expansion of the hex forms -> (r, g, b, alpha as Fraction)"""
        h = self.hexd
        if len(h) == 1:
            rgb = (int(h * 2, 16),) * 3
        elif len(h) == 2:
            rgb = (int(h, 16),) * 3
        elif len(h) == 3:
            rgb = tuple(int(c * 2, 16) for c in h)
        else:
            rgb = (int(h[0:2], 16), int(h[2:4], 16), int(h[4:6], 16))
        if self.alpha in ('', '.'):
            a = Fraction(1)
        else:
            a = Fraction(int(self.alpha[1:]), 10 ** (len(self.alpha) - 1))
        return rgb + (a,)

    def has_unit(self):
        return False


def dec_text(v, digits):
    """canonical decimal of a Fraction with at most `digits` fractional digits (exact here: generators stay inside)"""
    neg = v < 0
    v = abs(v)
    scaled = v * 10 ** digits
    assert scaled.denominator == 1, 'generator left the exact-decimal domain'
    n = scaled.numerator
    ip, fp = divmod(n, 10 ** digits)
    fs = str(fp).rjust(digits, '0').rstrip('0')
    return ('-' if neg else '') + str(ip) + ('.' + fs if fs else '')


def expected_number(num, prop, opts):
    aliases = opts.get('stylesheet.unitAliases', DEFAULT_ALIASES)
    unitless = opts.get('stylesheet.unitless', UNITLESS_PROPS)
    if num.unit:
        unit = aliases.get(num.unit, num.unit)
    elif num.value() == 0 or prop in unitless:
        unit = ''
    elif num.dot:
        unit = opts.get('stylesheet.floatUnit', 'em')
    else:
        unit = opts.get('stylesheet.intUnit', 'px')
    txt = dec_text(num.value(), 4)
    if num.neg and num.value() == 0:
        txt = '-0'          # float('-0') prints its sign; the value is still 0 and stays bare
    return txt + unit


RE_HEX3 = re.compile(r'^#([0-9a-f])([0-9a-f])([0-9a-f])$')
RE_HEX6 = re.compile(r'^#([0-9a-f]{2})([0-9a-f]{2})([0-9a-f]{2})$')
RE_RGBA = re.compile(r'^rgba\((\d+), (\d+), (\d+), (-?\d+(?:\.\d+)?)\)$')
RE_RGB = re.compile(r'^rgb\((\d+), (\d+), (\d+)\)$')


def decode_color(txt):
    """the colour VALUE a printed CSS colour denotes -> (r, g, b, a) or None"""
    if txt == 'transparent':
        return (0, 0, 0, Fraction(0))
    m = RE_HEX3.match(txt)
    if m:
        return tuple(int(x * 2, 16) for x in m.groups()) + (Fraction(1),)
    m = RE_HEX6.match(txt)
    if m:
        return tuple(int(x, 16) for x in m.groups()) + (Fraction(1),)
    m = RE_RGBA.match(txt)
    if m:
        return (int(m.group(1)), int(m.group(2)), int(m.group(3)), Fraction(m.group(4)))
    m = RE_RGB.match(txt)
    if m:
        return (int(m.group(1)), int(m.group(2)), int(m.group(3)), Fraction(1))
    return None


def expected_color(col, opts):
    """the documented printed form"""
    r, g, b, a = col.channels()
    if (r, g, b) == (0, 0, 0) and a == 0:
        return 'transparent'
    if a == 1:
        if opts.get('stylesheet.shortHex', True) and all(c % 17 == 0 for c in (r, g, b)):
            return '#%x%x%x' % (r // 17, g // 17, b // 17)
        return '#%02x%02x%02x' % (r, g, b)
    return 'rgba(%d, %d, %d, %s)' % (r, g, b, dec_text(a, 8))


class Prop:
    def __init__(self, key, prop, values, important, colon, bang_first=False):
        self.key, self.prop, self.values, self.important, self.colon = key, prop, values, important, colon
        self.bang_first = bang_first

    def text(self):
        """render with the connectors the statement defines: after a unitless number or a colour a `-` separates;
        after a number with a unit a `-` is the sign of the next number and plain juxtaposition separates"""
        out = self.key + (':' if self.colon else '')
        if self.important and self.bang_first:
            out += '!'
        prev = None
        for v in self.values:
            if prev is not None:
                if prev.has_unit() and isinstance(prev, Num):
                    # juxtaposition: next starts with a digit, '.', '-' (sign) or '#'
                    pass
                else:
                    out += '-'
            out += v.text()
            prev = v
        if self.important and not self.bang_first:
            out += '!'
        return out

    def expected(self, syntax, opts):
        between, after = BETWEEN_AFTER[syntax]
        # `<between>` / `<after>` of the statement are the configured ones when the configuration names them
        between = opts.get('stylesheet.between', between)
        after = opts.get('stylesheet.after', after)
        vals = []
        for v in self.values:
            vals.append(expected_number(v, self.prop, opts) if isinstance(v, Num) else expected_color(v, opts))
        return self.prop + between + ' '.join(vals) + (' !important' if self.important else '') + after


def juxtaposable(prev, nxt):
    """may `nxt` directly follow `prev` (a number with a unit) without changing how either reads?"""
    if isinstance(nxt, Col):
        return True
    # '10px' + '.5' fine; '10e' + '3' fine; unit letters never absorb digits, '.' or '-'
    return True


# ---------------------------------------------------------------- generators
HEXD = '0123456789abcdefABCDEF'


def rand_num(rng, allow_neg=True):
    k = rng.random()
    if k < 0.45:
        ip = rng.choice(['0', '1', '2', '5', '7', '10', '12', '16', '20', '100', '255', '1000', '007', '00', str(rng.randint(0, 99999))])
        dot, fp = False, ''
    elif k < 0.6:
        ip, dot, fp = '', True, rng.choice(['5', '25', '05', '125', '0', '50', '0625', '9999', '0001', str(rng.randint(0, 9999))])
    elif k < 0.72:
        ip, dot, fp = rng.choice(['1', '0', '10', '3', str(rng.randint(0, 999))]), True, ''
    else:
        ip = rng.choice(['0', '1', '2', '10', '1', str(rng.randint(0, 9999))])
        dot, fp = True, rng.choice(['25', '5', '0', '00', '75', '125', '3333', '50', '1', str(rng.randint(0, 9999))])
    u = rng.random()
    if u < 0.4:
        unit = ''
    elif u < 0.65:
        unit = rng.choice(ALIASES)
    else:
        unit = rng.choice(EXPLICIT_UNITS)
    return Num(allow_neg and rng.random() < 0.25, ip, dot, fp, unit)


def rand_col(rng):
    n = rng.choice([1, 2, 3, 3, 6, 6, 6])
    k = rng.random()
    if k < 0.3 and n == 6:
        # channels below 0x10 written with two digits, doubled channels, near-short forms
        ch = [rng.choice(['00', '0b', '07', '10', 'ff', 'aa', 'a0', '0a', 'e7', 'bc', '11', '12', '%02x' % rng.randint(0, 255)]) for _ in range(3)]
        hexd = ''.join(ch)
    else:
        hexd = ''.join(rng.choice(HEXD) for _ in range(n))
    a = rng.random()
    if a < 0.55:
        alpha = ''
    elif a < 0.62:
        alpha = '.'
    else:
        alpha = '.' + rng.choice(['5', '25', '1', '0', '05', '75', '125', '9', '99', '50', '10', '00', '12345678', str(rng.randint(0, 99999))])
    return Col(hexd, alpha)


def rand_prop(rng, table):
    if rng.random() < 0.25:
        key = rng.choice(sorted(UNITLESS_KEYS))
        prop = UNITLESS_KEYS[key]
    else:
        key = rng.choice(sorted(UNIT_KEYS))
        prop = UNIT_KEYS[key]
    n = rng.choice([1, 1, 1, 2, 2, 3, 4])
    vals = []
    for i in range(n):
        if rng.random() < 0.3:
            vals.append(rand_col(rng))
        else:
            vals.append(rand_num(rng))
    important = rng.random() < 0.25
    colon = rng.random() < 0.2
    # `key-10`: the dash after the key is the sign; `key--x` would start a custom property -> keep ':' out of the way
    return Prop(key, prop, vals, important, colon, bang_first=important and rng.random() < 0.15)


def systematic(table):
    """the product grammar, one dimension at a time on a fixed frame, plus the documented examples"""
    out = []
    nums = []
    for neg in (False, True):
        for ip, dot, fp in [('0', False, ''), ('1', False, ''), ('10', False, ''), ('', True, '5'), ('1', True, ''), ('1', True, '25'),
                            ('0', True, '0'), ('0', True, '5'), ('10', True, '0'), ('12', True, '3456')]:
            for unit in ['', 'p', 'e', 'x', 'r', 'px', '%', 'em', 'rem', 'vh', 'deg', 's', 'fr']:
                nums.append(Num(neg, ip, dot, fp, unit))
    for n in nums:
        for key, prop in (('p', 'padding'), ('z', 'z-index'), ('lh', 'line-height'), ('w', 'width')):
            out.append([Prop(key, prop, [n], False, False)])
    cols = []
    for hexd in ['0', 'f', 'a', 'F', '7', 'f0', '0f', 'e7', 'A1', '00', 'fc0', 'abc', 'FFF', '000', '1a2', 'e7bc0b', 'ffcc00', '00000b', '0b0000',
                 '000b00', 'aabbcc', 'aabbc0', 'AABBCC', '101010', '010101', 'fffffe', 'ffffff', '000000', '123456']:
        for alpha in ['', '.', '.5', '.25', '.0', '.1', '.75', '.05', '.125', '.10', '.00', '.99999999']:
            cols.append(Col(hexd, alpha))
    for c in cols:
        out.append([Prop('c', 'color', [c], False, False)])
        out.append([Prop('bd', 'border', [Num(False, '1', False, '', ''), c], False, False)])
    # connectors: every ordered pair of value shapes
    shapes = [Num(False, '10', False, '', ''), Num(False, '10', False, '', 'px'), Num(False, '10', False, '', 'p'), Num(True, '5', False, '', ''),
              Num(True, '5', False, '', 'e'), Num(False, '', True, '5', ''), Num(False, '1', True, '', ''), Num(False, '1', True, '', 'r'),
              Num(True, '', True, '5', ''), Num(False, '0', False, '', ''), Col('fc0', ''), Col('f', '.5'), Col('e7bc0b', ''), Col('0', '.')]
    for a in shapes:
        for b in shapes:
            for imp in (False, True):
                out.append([Prop('m', 'margin', [a, b], imp, False)])
            out.append([Prop('p', 'padding', [a, b, a], False, True)])
    # `+`-joined
    out.append([Prop('p', 'padding', [shapes[0]], False, False), Prop('m', 'margin', [shapes[1], shapes[3]], True, False)])
    out.append([Prop('c', 'color', [shapes[10]], True, False), Prop('z', 'z-index', [shapes[0]], False, False),
                Prop('w', 'width', [shapes[5]], False, False)])
    return out


def abbr_text(props):
    return '+'.join(p.text() for p in props)


def expected_text(props, syntax, opts):
    # one property per line; the line break is the configured `output.newline` (default '\n')
    return opts.get('output.newline', '\n').join(p.expected(syntax, opts) for p in props)


def well_formed(props):
    """`a+b`: a `+` directly after a value is fine; nothing else to exclude"""
    return True


# ---------------------------------------------------------------- option forms (how a configuration may WRITE its options)
# The statement quantifies over configurations.  A configuration is what the caller hands over, and a caller (an editor
# reading JSON / INI / YAML settings, a script) may write the very same configuration in several ways.  This section
# generates those ways; the expected lines are still computed from the description by the rules above.
#  * switches: py-emmet's options are plain Python values read by truth value (as upstream Emmet reads its JS options with
#    `if (options[...])`); a switch is ON for every truthy value and OFF for every falsy one.  Only values whose reading is
#    not in doubt are used (no None, no 'false'/'0' strings).
#  * defaults written out explicitly (documented defaults of emmet/config.py's option table, re-stated here).
#  * `stylesheet.between` / `stylesheet.after` / `output.newline` set by the caller: they ARE the <between>, <after> and
#    line break of the statement.
#  * options that do not concern stylesheet property lines at all (markup / comment / bem / jsx options, output.indent:
#    property lines are never nested) present in the same options dict.
#  * list- and dict-valued options handed over as another container of the same content (tuple, frozenset, OrderedDict,
#    read-only mapping).
FORMS_ENABLED = True
SWITCH_ON = [True, 1, 1.0, 2, 'true', 'yes', 'on']
SWITCH_OFF = [False, 0, 0.0, '']
SWITCH_OPTIONS = ['output.format', 'stylesheet.shortHex', 'stylesheet.json', 'stylesheet.jsonDoubleQuotes', 'stylesheet.skipUnmatched']
BETWEEN_AFTER_CUSTOM = [(':', ';'), (': ', ''), (' ', ''), ('=', ';'), (' : ', ' ;'), (':\t', ';'), ('', '')]
NEWLINES = ['\n', '\r\n', '\r']
# options of other parts of the library (documented in upstream's config reference); none speaks about property lines
UNRELATED_OPTIONS = {
    'output.tagCase': ['upper', 'lower'], 'output.attributeCase': ['upper'], 'output.attributeQuotes': ['single'],
    'output.selfClosingStyle': ['xhtml', 'xml'], 'output.inlineBreak': [0, 1], 'output.formatLeafNode': [True],
    'output.compactBoolean': [True], 'output.reverseAttributes': [True], 'output.indent': ['  ', ''],
    'output.formatSkip': [[]], 'output.formatForce': [['padding']], 'markup.href': [False], 'comment.enabled': [True],
    'bem.enabled': [True], 'jsx.enabled': [True], 'markup.attributes': [{'class': 'className'}],
}
LIST_FORMS = ['tuple', 'frozenset']
DICT_FORMS = ['OrderedDict', 'MappingProxyType']


def spell(form, v):
    """JSON-able spelling of a container value of another type (replay files carry it)"""
    if form in LIST_FORMS:
        return {'__form__': form, 'items': list(v)}
    return {'__form__': form, 'items': [[k, x] for k, x in v.items()]}


def unspell(v):
    """the live Python value a spelled option value stands for"""
    if isinstance(v, dict) and '__form__' in v:
        import collections
        import types
        form, items = v['__form__'], v['items']
        if form == 'tuple':
            return tuple(items)
        if form == 'frozenset':
            return frozenset(items)
        if form == 'OrderedDict':
            return collections.OrderedDict((k, x) for k, x in items)
        if form == 'MappingProxyType':
            return types.MappingProxyType({k: x for k, x in items})
        raise ValueError(form)
    return v


def plain(v):
    """list / dict of the same content (what the oracle and the model read)"""
    if isinstance(v, dict) and '__form__' in v:
        return list(v['items']) if v['__form__'] in LIST_FORMS else {k: x for k, x in v['items']}
    return v


class FormCfg(Cfg):
    """A Cfg whose options may be written in any of the forms above.  `options` holds the JSON-able spelling;
    impl_config() hands the live values to the implementation; the model gets the same configuration in canonical form
    (switches as booleans, containers as list / dict, unrelated options left out: the model has no notion of them)."""
    kinds = ()

    def live_options(self):
        return {k: unspell(v) for k, v in self.options.items()}

    def oracle_options(self):
        return {k: plain(v) for k, v in self.options.items()}

    def impl_config(self):
        c = Cfg.impl_config(self)
        c['options'] = {k: unspell(v) for k, v in c['options'].items()}
        return c

    def coq(self):
        return Cfg(self.syntax, {k: plain(v) for k, v in self.options.items() if k in su.OPTION_OV}, self.snippets,
                   self.context, self.tabstop).coq()


def cfg_from_json(o):
    return FormCfg(o.get('syntax', 'css'), o.get('options'), o.get('snippets'), o.get('context'), o.get('tabstop', False))


def form_cfg(syntax, options, kinds):
    c = FormCfg(syntax, options)
    c.kinds = tuple(kinds)
    return c


def systematic_forms():
    """(kinds, options): every form of every switch alone, every custom between/after and newline, the explicit defaults,
    the unrelated options, every container form"""
    out = []
    for v in SWITCH_ON:
        out.append((['switch-on:output.format'], {'output.format': v}))
        out.append((['switch-on:stylesheet.shortHex'], {'stylesheet.shortHex': v}))
    for v in SWITCH_OFF:
        out.append((['switch-off:stylesheet.shortHex'], {'stylesheet.shortHex': v}))
        out.append((['switch-off:stylesheet.json'], {'stylesheet.json': v}))
    for v in SWITCH_ON + SWITCH_OFF:
        out.append((['switch-without-effect'], {'stylesheet.skipUnmatched': v, 'stylesheet.jsonDoubleQuotes': v}))
    for b, a in BETWEEN_AFTER_CUSTOM:
        out.append((['between-after'], {'stylesheet.between': b, 'stylesheet.after': a}))
    for nl in NEWLINES:
        out.append((['newline'], {'output.newline': nl}))
    out.append((['explicit-defaults'], {'output.format': True, 'output.newline': '\n', 'stylesheet.shortHex': True, 'stylesheet.json': False,
                                        'stylesheet.intUnit': 'px', 'stylesheet.floatUnit': 'em', 'stylesheet.unitAliases': dict(DEFAULT_ALIASES),
                                        'stylesheet.unitless': list(UNITLESS_PROPS)}))
    out.append((['unrelated'], {k: vs[0] for k, vs in UNRELATED_OPTIONS.items()}))
    out.append((['unrelated'], {k: vs[-1] for k, vs in UNRELATED_OPTIONS.items()}))
    for f in LIST_FORMS:
        out.append((['container:' + f], {'stylesheet.unitless': spell(f, ['padding', 'width'])}))
        out.append((['container:' + f], {'stylesheet.unitless': spell(f, UNITLESS_PROPS)}))
    for f in DICT_FORMS:
        out.append((['container:' + f], {'stylesheet.unitAliases': spell(f, {'e': 'rem', 'p': 'pc', 'q': 'Q', 'x': 'px'})}))
        out.append((['container:' + f], {'stylesheet.unitAliases': spell(f, DEFAULT_ALIASES)}))
    return out


def rand_forms(rng):
    """a mixture: 1..4 of the ingredients, possibly on top of one of the OPTION_SETS"""
    opts = dict(rng.choice(OPTION_SETS)) if rng.random() < 0.4 else {}
    kinds = []
    for ing in rng.sample(['format', 'shorthex', 'json', 'noeffect', 'ba', 'nl', 'unrelated', 'list', 'dict', 'defaults'], rng.choice([1, 2, 2, 3, 4])):
        if ing == 'format':
            opts['output.format'] = rng.choice(SWITCH_ON)
            kinds.append('switch-on:output.format')
        elif ing == 'shorthex':
            on = rng.random() < 0.5
            opts['stylesheet.shortHex'] = rng.choice(SWITCH_ON if on else SWITCH_OFF)
            kinds.append('switch-%s:stylesheet.shortHex' % ('on' if on else 'off'))
        elif ing == 'json':
            opts['stylesheet.json'] = rng.choice(SWITCH_OFF)
            kinds.append('switch-off:stylesheet.json')
        elif ing == 'noeffect':
            opts[rng.choice(['stylesheet.skipUnmatched', 'stylesheet.jsonDoubleQuotes'])] = rng.choice(SWITCH_ON + SWITCH_OFF)
            kinds.append('switch-without-effect')
        elif ing == 'ba':
            opts['stylesheet.between'], opts['stylesheet.after'] = rng.choice(BETWEEN_AFTER_CUSTOM)
            kinds.append('between-after')
        elif ing == 'nl':
            opts['output.newline'] = rng.choice(NEWLINES)
            kinds.append('newline')
        elif ing == 'unrelated':
            for k in rng.sample(sorted(UNRELATED_OPTIONS), rng.randint(1, 5)):
                opts[k] = rng.choice(UNRELATED_OPTIONS[k])
            kinds.append('unrelated')
        elif ing == 'list':
            f = rng.choice(LIST_FORMS)
            cur = opts.get('stylesheet.unitless', rng.choice([UNITLESS_PROPS, ['padding', 'width'], ['margin'], []]))
            opts['stylesheet.unitless'] = spell(f, cur)
            kinds.append('container:' + f)
        elif ing == 'dict':
            f = rng.choice(DICT_FORMS)
            cur = opts.get('stylesheet.unitAliases', rng.choice([DEFAULT_ALIASES, {'e': 'rem', 'p': 'pc', 'q': 'Q', 'x': 'px'}, {}]))
            opts['stylesheet.unitAliases'] = spell(f, cur)
            kinds.append('container:' + f)
        else:
            for k, v in (('output.format', True), ('stylesheet.intUnit', 'px'), ('stylesheet.floatUnit', 'em'), ('stylesheet.json', False),
                         ('stylesheet.shortHex', True), ('output.newline', '\n')):
                if k not in opts and rng.random() < 0.6:
                    opts[k] = v
            kinds.append('explicit-defaults')
    return kinds, opts


def form_probes(rng, n):
    """abbreviations for one written configuration: `+`-joined ones (the line structure), colours (shortHex), aliases and
    unitless properties (containers), `!`"""
    sh = [Num(False, '10', False, '', ''), Num(False, '10', False, '', 'p'), Num(True, '5', False, '', 'e'), Num(False, '', True, '5', ''),
          Col('fc0', ''), Col('e7bc0b', ''), Col('ffcc00', ''), Col('f', '.5')]
    out = [[Prop('p', 'padding', [sh[0]], False, False), Prop('m', 'margin', [sh[0], sh[2]], True, False)],
           [Prop('c', 'color', [sh[4]], True, False), Prop('z', 'z-index', [sh[0]], False, False), Prop('w', 'width', [sh[3], sh[1]], False, False)],
           [Prop('bd', 'border', [sh[0], sh[6]], False, False), Prop('bgc', 'background-color', [sh[7]], False, True),
            Prop('lh', 'line-height', [sh[3]], False, False), Prop('c', 'color', [sh[5]], False, False)]]
    while len(out) < n:
        out.append([rand_prop(rng, None) for _ in range(rng.choice([1, 2, 2, 3, 4]))])
    return out


def gen_forms(ctx):
    if not FORMS_ENABLED:
        return []
    rng = ctx.rng
    quick = ctx.tier == 'quick'
    cases = []
    forms = systematic_forms()
    forms += [rand_forms(rng) for _ in range(40 if quick else 200)]
    per = 12 if quick else 24
    for i, (kinds, opts) in enumerate(forms):
        # one (quick) or two (thorough) syntaxes per written configuration, drawn anew on every run
        syns = rng.sample(su.SYNTAXES, 1 if quick else 2)
        for syn in syns:
            cfg = form_cfg(syn, opts, kinds)
            o = cfg.oracle_options()
            for props in form_probes(rng, per):
                cases.append((cfg, abbr_text(props), expected_text(props, syn, o), 'option-forms'))
    return cases


def corpus(ctx):
    out = []
    for p in sorted(glob.glob(os.path.join(common.VERIF, 'corpus', 'C05', '*.json'))):
        try:
            with open(p) as f:
                o = json.load(f)
        except Exception:
            continue
        if isinstance(o.get('input'), str) and isinstance(o.get('expected'), str):
            out.append((cfg_from_json(o.get('config', {})), o['input'], o['expected'], os.path.basename(p)))
    return out


def gen(ctx):
    rng = ctx.rng
    quick = ctx.tier == 'quick'
    cases = []     # (cfg, abbr, expected, tag)
    for cfg, s, e, fn in corpus(ctx):
        cases.append((cfg, s, e, 'corpus'))
    syst = systematic(None)
    base = Cfg()
    for props in syst:
        cases.append((base, abbr_text(props), expected_text(props, 'css', {}), 'systematic'))
    # the systematic frame under every syntax / option set: a slice in quick, all in thorough
    combos = [(syn, o) for syn in su.SYNTAXES for o in OPTION_SETS[1:]]
    for ci, (syn, o) in enumerate(combos):
        cfg = Cfg(syntax=syn, options=o)
        step = 23 if quick else 3
        for props in syst[ci % step::step]:
            cases.append((cfg, abbr_text(props), expected_text(props, syn, o), 'systematic-cfg'))
    n_cfg = 10 if quick else 60
    per = 120 if quick else 500
    table = None
    for _ in range(n_cfg):
        syn = rng.choice(su.SYNTAXES)
        o = rng.choice(OPTION_SETS)
        cfg = Cfg(syntax=syn, options=o)
        for _ in range(per):
            props = [rand_prop(rng, table) for _ in range(rng.choice([1, 1, 1, 2, 3]))]
            cases.append((cfg, abbr_text(props), expected_text(props, syn, o), 'random'))
    cases.extend(gen_forms(ctx))
    return cases


# ---------------------------------------------------------------- call routes and configuration delivery
# The statement speaks of "the output" of a stylesheet abbreviation under a configuration; it does not single out one entry
# point.  The package exports several ways to get that output (public names of emmet/__init__.py, the counterparts of
# upstream Emmet's expand / parseStylesheet / resolveStylesheet / stringifyStylesheet):
#   expand(abbr, dict [, global dict]) | expand(abbr, Config) | expand_stylesheet(abbr, Config) |
#   the two-step route  parse_stylesheet_abbreviation(abbr) -> stylesheet_abbreviation(tree, Config) -> stringify_stylesheet(tree, Config)
#   (abbr may also be a token list made by css_abbreviation.tokenize).
# Every route must print the same property lines.  The names below are the harness' own; nothing is read from the library.
ROUTES = ['expand-dict', 'expand-config', 'expand-stylesheet', 'two-step', 'two-step-tokens', 'two-step-two-configs']
# Where the options come from.  Layer order (most specific wins, a layer replaces a key as a whole), as documented for
# Emmet's config resolution and stated in property C20: built-in < type defaults < syntax defaults < global config for the
# type < global config for the syntax < the call's own config.
DELIVERIES = ['call', 'global-type', 'global-syntax', 'split', 'shadowed', 'global-shadowed']


def decoy(v, k=None):
    """a value of the same shape that would visibly change the output if a less specific layer won"""
    if k in SWITCH_OPTIONS:
        return not v            # a switch written in any form: the opposite reading
    if isinstance(v, bool):
        return not v
    if isinstance(v, str):
        return 'zz'
    if isinstance(v, dict) or hasattr(v, 'keys'):
        return {'p': 'zz', 'e': 'zz', 'x': 'zz', 'r': 'zz', 'q': 'zz'}
    if isinstance(v, (list, tuple, frozenset)):
        return ['margin', 'color', 'top']
    return v


def deliver(cfg, delivery):
    """(call config dict, global config dict) that denote the configuration `cfg`, the options arriving by `delivery`"""
    conf = cfg.impl_config()
    opts = conf.pop('options')
    own, gsyn, gtyp = {}, {}, {}
    if delivery == 'call':
        own = opts
    elif delivery == 'global-type':
        gtyp = opts
    elif delivery == 'global-syntax':
        gsyn = opts
    elif delivery == 'split':
        for i, k in enumerate(sorted(opts)):
            (own, gsyn, gtyp)[i % 3][k] = opts[k]
    elif delivery == 'shadowed':
        own = opts
        gsyn = {k: decoy(v, k) for k, v in opts.items()}
        gtyp = dict(gsyn)
    elif delivery == 'global-shadowed':
        gsyn = opts
        gtyp = {k: decoy(v, k) for k, v in opts.items()}
    else:
        raise ValueError(delivery)
    if own or delivery == 'call':
        conf['options'] = own
    glob = {}
    if gtyp:
        glob['stylesheet'] = {'options': gtyp}
    if gsyn:
        glob[cfg.syntax] = {'options': gsyn}
    return conf, glob


def call_route(route, abbr, conf, glob):
    """the text one documented route prints (raises what the library raises)"""
    import emmet
    from emmet import Config
    if route == 'expand-dict':
        return emmet.expand(abbr, conf, glob) if glob else emmet.expand(abbr, conf)
    if route == 'expand-config':
        return emmet.expand(abbr, Config(conf, glob))
    if route == 'expand-stylesheet':
        return emmet.expand_stylesheet(abbr, Config(conf, glob))
    c = Config(conf, glob)
    if route == 'two-step-tokens':
        from emmet.css_abbreviation import tokenize
        tree = emmet.parse_stylesheet_abbreviation(tokenize(abbr))
    else:
        tree = emmet.parse_stylesheet_abbreviation(abbr)
    resolved = emmet.stylesheet_abbreviation(tree, c)
    c2 = Config(conf, glob) if route == 'two-step-two-configs' else c
    return emmet.stringify_stylesheet(resolved, c2)


class RouteRunner(su.ImplRunner):
    """su.ImplRunner for any (route, delivery): one `cache` dict per (configuration, delivery) so the snippet table is
    converted once; the units that resolve_numeric_value writes into cached snippet tokens are restored after every call
    (same reasoning as in ImplRunner).  Failures are always settled in a pristine interpreter (`settle`)."""

    def run(self, route, delivery, abbr, cfg):
        k = (cfg.key(), delivery)
        st = self.state.get(k)
        if st is None:
            st = {'cache': {}, 'numbers': None}
            self.state[k] = st
        conf, glob = deliver(cfg, delivery)
        conf['cache'] = st['cache']
        try:
            r = ('ok', call_route(route, abbr, conf, glob))
        except Exception as e:
            r = su.classify_exc(e, len(abbr))
        if st['numbers'] is None and 'stylesheet_snippets' in st['cache']:
            from emmet.stylesheet import convert_snippets
            from emmet.config import Config
            fconf, fglob = deliver(cfg, delivery)
            fresh = convert_snippets(Config(fconf, fglob).snippets)
            st['cache']['stylesheet_snippets'] = fresh
            st['numbers'] = self._numbers(fresh)
        elif st['numbers']:
            for tok, unit in st['numbers']:
                tok.unit = unit
        return r


def _route_chunk(chunk):
    rr = RouteRunner()
    return [rr.run(route, delivery, abbr, cfg) for route, delivery, cfg, abbr in chunk]


def run_jobs(jobs):
    """RouteRunner over (route, delivery, cfg, abbr) jobs, in parallel processes (order preserved).  Returns the results and,
    per job, the index of the first job that ran before it in the same worker process (its possible history)."""
    jobs = list(jobs)
    if len(jobs) < 2000:
        return _route_chunk(jobs), [0] * len(jobs)
    import multiprocessing
    procs = common.NPROC
    size = max(400, (len(jobs) + procs * 2 - 1) // (procs * 2))
    bounds = list(range(0, len(jobs), size))
    chunks = [jobs[i:i + size] for i in bounds]
    with multiprocessing.get_context('fork').Pool(procs) as pool:
        outs = pool.map(_route_chunk, chunks)
    return [x for o in outs for x in o], [b for b, o in zip(bounds, outs) for _ in o]


# ---------------------------------------------------------------- pristine interpreters (failures are settled there)
def seq_server():
    """Runs in an interpreter of its own (started by Pristine).  It imports the library but never calls it; every request
    -- a JSON list of [route, delivery, config, abbreviation] calls -- is run in a forked child with one RouteRunner, so a
    request sees exactly the state its own earlier calls left behind.  Answer: the outcome of the LAST call."""
    import sys
    import emmet  # noqa: F401  (import only)
    for line in sys.stdin:
        rd, wr = os.pipe()
        pid = os.fork()
        if pid == 0:
            os.close(rd)
            try:
                rr = RouteRunner()
                out = None
                for route, delivery, cj, abbr in json.loads(line):
                    out = rr.run(route, delivery, abbr, cfg_from_json(cj))
                data = json.dumps(list(out))
            except BaseException as e:
                data = json.dumps(['harness-error', repr(e)[:300]])
            os.write(wr, data.encode())
            os._exit(0)
        os.close(wr)
        buf = b''
        while True:
            part = os.read(rd, 65536)
            if not part:
                break
            buf += part
        os.close(rd)
        os.waitpid(pid, 0)
        sys.stdout.write(buf.decode() + '\n')
        sys.stdout.flush()


class Pristine:
    """client of seq_server (started on first use: a clean tree never starts it)"""
    BOOT = 'import sys; sys.setrecursionlimit(10000); sys.path.insert(0, %r); from props import c05; c05.seq_server()'

    def __init__(self):
        self.p = None

    def ask(self, seq):
        import subprocess
        if self.p is None:
            env = dict(os.environ, PYTHONPATH=common.REPO, PYTHONHASHSEED='0', PYTHONDONTWRITEBYTECODE='1')
            self.p = subprocess.Popen([common.PY, '-c', self.BOOT % common.HERE], stdin=subprocess.PIPE, stdout=subprocess.PIPE,
                                      text=True, env=env)
        self.p.stdin.write(json.dumps([[route, delivery, cfg.to_json(), abbr] for route, delivery, cfg, abbr in seq]) + '\n')
        self.p.stdin.flush()
        line = self.p.stdout.readline()
        if not line:
            return ('harness-error', 'pristine server died')
        return tuple(json.loads(line))

    def close(self):
        if self.p is not None:
            self.p.stdin.close()
            self.p.wait()
            self.p = None


MAX_REPORTS = 12          # failing inputs settled and reported per run (the smallest ones)
MAX_HISTORY_SEARCHES = 2  # failures that need the calls made before them: searched for the shortest such history


def settle(ctx, fails):
    """Turn the failures seen in the worker processes into replayable reports.  Each is re-run ALONE in a pristine
    interpreter; when it fails only after the calls made before it in its worker, that history is cut down (halving) to a
    short prelude which the replay file carries.  The statement is about one call; a prelude is part of the concrete input
    sequence on which that call's output breaks it."""
    if not fails:
        return
    fails.sort(key=lambda f: len(f['jobs'][f['idx']][3]) + len(json.dumps(f['jobs'][f['idx']][2].to_json())))
    pr = Pristine()
    reported = searches = 0
    loose = []
    try:
        for f in fails:
            if reported >= MAX_REPORTS:
                break
            job = f['jobs'][f['idx']]
            route, delivery, cfg, s = job
            exp = f['exp']
            r = pr.ask([job])
            bad = c05_oracle(s, cfg, exp, r)
            prelude = []
            if not bad:
                if searches >= MAX_HISTORY_SEARCHES:
                    continue
                searches += 1
                cur = f['jobs'][f['start']:f['idx']]
                r = pr.ask(cur + [job])
                bad = c05_oracle(s, cfg, exp, r)
                if not bad:
                    loose.append((job, f['r']))
                    continue
                while len(cur) > 1:
                    h = len(cur) // 2
                    for part in (cur[h:], cur[:h]):
                        rp = pr.ask(part + [job])
                        b2 = c05_oracle(s, cfg, exp, rp)
                        if b2:
                            cur, r, bad = part, rp, b2
                            break
                    else:
                        break
                prelude = cur
            reported += 1
            conf, glob = deliver(cfg, delivery)
            plain = (route, delivery) == ('expand-dict', 'call')
            key = ('c05:%s:%s' % (cfg.key(), s)) if plain else 'c05:route:%s:%s:%s:%s' % (route, delivery, cfg.key(), s)
            what = ('stylesheet expand(%r) under %s' % (s, cfg.to_json())) if plain else (
                'stylesheet abbreviation %r via route %s, options from %s (config %r, global %r)' % (s, route, delivery, conf, glob))
            rep = {'input': s, 'config': cfg.to_json(), 'expected': exp, 'impl': repr(r)[:300], 'why': bad}
            if not plain:
                rep['route'], rep['delivery'] = route, delivery
            if prelude:
                what += ' after %d earlier call(s) in the same process' % len(prelude)
                rep['prelude'] = [{'route': a, 'delivery': b, 'config': c.to_json(), 'input': d} for a, b, c, d in prelude]
            ctx.property_failure(key, what + ': ' + bad, rep)
    finally:
        pr.close()
    if reported == 0:
        for (route, delivery, cfg, s), r in loose[:3] or [(fails[0]['jobs'][fails[0]['idx']], fails[0]['r'])]:
            ctx.broken.append({'kind': 'failure-not-reproduced-in-a-pristine-process', 'file': 'harness/props/c05.py', 'input': s,
                               'config': cfg.to_json(), 'route': route, 'delivery': delivery, 'impl': repr(r)[:300]})


def route_jobs(ctx, cases):
    """Which (route, delivery) each generated case is ALSO sent through (the plain expand(abbr, dict) with the options in
    the call's own config is the main stream).  Every case draws one other combination; cases carrying `!`, a colour or
    several properties -- the parts of a parsed tree a route could lose -- and a slice of the rest draw every route."""
    rng = ctx.rng
    quick = ctx.tier == 'quick'
    jobs = []      # (case index, route, delivery)
    for i, (cfg, s, exp, tag) in enumerate(cases):
        if cfg.context is not None or cfg.tabstop:
            continue
        has_opts = bool(cfg.options)
        while True:
            route, delivery = rng.choice(ROUTES), (rng.choice(DELIVERIES) if has_opts else 'call')
            if (route, delivery) != ('expand-dict', 'call'):
                break
        jobs.append((i, route, delivery))
        rich = ('!' in s or '+' in s) and rng.random() < (0.5 if quick else 1.0)
        if rich or rng.random() < (0.06 if quick else 0.3):
            for r2 in ROUTES:
                d2 = rng.choice(DELIVERIES) if has_opts else 'call'
                if r2 != route and (r2, d2) != ('expand-dict', 'call'):
                    jobs.append((i, r2, d2))
    return jobs


def split_values(line, prop, between, after):
    """value part of an output line, or None"""
    if not line.startswith(prop + between):
        return None
    body = line[len(prop + between):]
    if after:
        if not body.endswith(after):
            return None
        body = body[:-len(after)]
    return body


def c05_oracle(abbr, cfg, expected, r):
    """The statement on one implementation result; None or a description."""
    if r[0] != 'ok':
        return 'expand raised %r' % (r,)
    if r[1] == expected:
        return None
    # say what differs, with the colour value if a colour changed
    for got_line, exp_line in zip(r[1].split('\n'), expected.split('\n')):
        if got_line != exp_line:
            gc = [decode_color(x) for x in re.findall(r'#[0-9a-zA-Z]+|rgba?\([^)]*\)|transparent', got_line)]
            ec = [decode_color(x) for x in re.findall(r'#[0-9a-zA-Z]+|rgba?\([^)]*\)|transparent', exp_line)]
            if gc != ec:
                return 'colour value changed: expected %r, got %r' % (exp_line, got_line)
            return 'expected %r, got %r' % (exp_line, got_line)
    return 'expected %r, got %r' % (expected, r[1])


def check_live_table(ctx):
    """the keys the generator uses must name the property snippets the oracle assumes (else the oracle is stale)"""
    from emmet.config import Config
    sn = Config({'type': 'stylesheet'}).snippets
    bad = []
    for k, p in list(UNIT_KEYS.items()) + list(UNITLESS_KEYS.items()):
        v = sn.get(k)
        if not isinstance(v, str) or not (v == p or v.startswith(p + ':')):
            bad.append((k, p, v))
    return bad


def run(ctx):
    ok = ctx.build(['props/C05.vo', 'run/StyleShow.vo'])
    if ok:
        su.obligations(ctx, 'props/C05.v')
    ctx.cov['rule'] = (
        'abbreviations generated from a structured description: key of a property snippet (21 unit-taking, 8 unitless) + 1..4 values '
        '(ints, floats .5 / 1. / 1.25 with <= 4 fractional digits, negatives, aliases p e x r, 18 explicit units; #colours of 1, 2, 3, 6 '
        'hex digits and #t, with/without .N alpha) joined by the connectors the statement defines (`-` after a unitless number or a '
        'colour, juxtaposition / sign after a unit), optional `!`, `+`-joined; css/scss/sass/less/sss/stylus x intUnit/floatUnit/'
        'unitAliases/shortHex/unitless option sets.  Oracle: output == expected line computed from the description by the documented '
        'rules (colour compared by value).  Call routes: every case is also sent through one (cases with `!` / `+` and a slice of '
        'the rest: through all) of the other exported routes -- expand(abbr, Config), expand_stylesheet(abbr, Config), the two-step '
        'parse_stylesheet_abbreviation -> stylesheet_abbreviation -> stringify_stylesheet (string or token-list input, one or two '
        'equal Config objects) -- with the options arriving in the call config, the global config section of the type, of the '
        'syntax, split over the three layers, or shadowing decoy values in less specific layers; same expected line (oracle '
        'only, the model has no notion of a route).  Option forms (how a configuration may write its options; same oracle, all '
        'routes/deliveries as above): every on/off switch that reaches property lines (output.format, stylesheet.shortHex, '
        'stylesheet.json, and without effect here stylesheet.skipUnmatched / jsonDoubleQuotes) written as True/1/1.0/2/\'true\'/\'yes\'/\'on\' '
        'resp. False/0/0.0/\'\' (read by truth value; output.format only in its ON forms, the statement says nothing about '
        'unformatted output), documented defaults written out explicitly, caller-set stylesheet.between / stylesheet.after (7 pairs) '
        'and output.newline (\\n, \\r\\n, \\r) which then ARE the <between>/<after>/line break of the statement, 16 markup/comment/'
        'bem/jsx/indent options that do not concern property lines present alongside, stylesheet.unitless as tuple/frozenset and '
        'stylesheet.unitAliases as OrderedDict/read-only mapping; each alone (systematic) and in random mixtures with the option '
        'sets, x `+`-joined / colour / alias / unitless / `!` probes + random abbreviations; the model receives the canonical '
        'configuration (booleans, list/dict, unrelated options left out: it has no notion of them), so for those the '
        'form itself is judged by the oracle only.  Tie: output string of the Coq model of the full pipeline.  Non-trivial: every case '
        '(each has at least one number or colour); distinct by (configuration, abbreviation).')
    stale = check_live_table(ctx)
    if stale:
        ctx.say('C05 generator keys no longer match the snippet table: %r' % (stale[:5],))
        ctx.broken.append({'kind': 'generator-table', 'file': 'harness/props/c05.py', 'detail': repr(stale[:5])})
    cases = gen(ctx)
    pairs = [(c, s) for c, s, _, _ in cases]
    main_jobs = [('expand-dict', 'call', c, s) for c, s in pairs]
    impl, main_starts = run_jobs(main_jobs)
    runner = su.ImplRunner()
    fails = []
    nfail = 0
    for j, ((cfg, s, exp, tag), r) in enumerate(zip(cases, impl)):
        ctx.count_eval()
        ctx.nontrivial((cfg.key(), s))
        ctx.cover('c05:' + tag)
        ctx.cover('c05:syntax:' + cfg.syntax)
        for kind in getattr(cfg, 'kinds', ()):
            ctx.cover('c05:option-form:' + kind)
        if '#' in s:
            ctx.cover('c05:has-colour')
        if '!' in s:
            ctx.cover('c05:important')
        if '+' in s:
            ctx.cover('c05:multi-property')
        if re.search(r'\d-\d|\d--', s):
            ctx.cover('c05:dash-separator')
        if re.search(r'[a-z%]-\d', s):
            ctx.cover('c05:dash-sign')
        if c05_oracle(s, cfg, exp, r):
            nfail += 1
            fails.append({'jobs': main_jobs, 'start': main_starts[j], 'idx': j, 'exp': exp, 'r': r})
    # the other documented call routes and the other ways the options can arrive (oracle only: the model is tied to the
    # same (configuration, abbreviation) pairs in the main stream; a route has no counterpart in the model)
    jobs = route_jobs(ctx, cases)
    rjobs = [(route, delivery, cases[i][0], cases[i][1]) for i, route, delivery in jobs]
    routed, rstarts = run_jobs(rjobs)
    nroute = 0
    for j, ((i, route, delivery), r) in enumerate(zip(jobs, routed)):
        cfg, s, exp, tag = cases[i]
        ctx.count_eval()
        ctx.cover('c05:route:' + route)
        ctx.cover('c05:options-from:' + delivery)
        if '!' in s and route.startswith('two-step'):
            ctx.cover('c05:route:two-step-with-important')
        if c05_oracle(s, cfg, exp, r):
            nroute += 1
            fails.append({'jobs': rjobs, 'start': rstarts[j], 'idx': j, 'exp': exp, 'r': r})
    settle(ctx, fails)
    ctx.cov['correspondence']['c05_main_vs_statement'] = {'cases': len(cases), 'disagreements': nfail}
    ctx.cov['correspondence']['c05_routes_vs_statement'] = {'cases': len(jobs), 'disagreements': nroute}
    for (cfg, s, exp, tag), r in list(zip(cases, impl))[-6:]:
        ctx.sample({'input': s, 'config': cfg.to_json(), 'expected': exp, 'impl': repr(r)[:160]})
    for (i, route, delivery), r in list(zip(jobs, routed))[-3:]:
        ctx.sample({'input': cases[i][1], 'config': cases[i][0].to_json(), 'route': route, 'delivery': delivery,
                    'expected': cases[i][2], 'impl': repr(r)[:160]})
    runner_cases = pairs[:200]
    chk = [runner.expand(s, c) for c, s in runner_cases]
    runner.selfcheck(ctx, runner_cases, chk, rate=0.1)
    if not ok:
        return
    res = su.coq_expand(ctx, pairs, tag='c05')
    if res is not None:
        dis = 0
        for (cfg, s, exp, tag), r, m in zip(cases, impl, res):
            if m != r:
                dis += 1
                if dis <= 5:
                    ctx.say('DISAGREE css expand %r under %s\n  impl  %r\n  model %r' % (s, cfg.to_json(), r, m))
                    if not c05_oracle(s, cfg, exp, r):
                        ctx.broken.append({'kind': 'correspondence', 'file': 'css-expand', 'input': s, 'config': cfg.to_json(),
                                           'impl': repr(r)[:300], 'model': repr(m)[:300]})
        ctx.cov['correspondence']['css_expand_full_model'] = {'cases': len(cases), 'disagreements': dis}


def replay(ctx, obj):
    rp = obj.get('replay', obj)
    s = rp.get('input')
    if s is None or 'expected' not in rp:
        print('replay names a broken obligation, no input: %s' % rp)
        return 1
    cfg = cfg_from_json(rp.get('config', {}))
    route, delivery = rp.get('route', 'expand-dict'), rp.get('delivery', 'call')
    if route not in ROUTES or delivery not in DELIVERIES:
        print('replay names an unknown route/delivery: %s' % rp)
        return 1
    rr = RouteRunner()
    prelude = rp.get('prelude') or []
    for pj in prelude:
        rr.run(pj.get('route', 'expand-dict'), pj.get('delivery', 'call'), pj['input'], cfg_from_json(pj.get('config', {})))
    r = rr.run(route, delivery, s, cfg)
    bad = c05_oracle(s, cfg, rp['expected'], r)
    conf, glob = deliver(cfg, delivery)
    if prelude:
        print('after %d earlier call(s) in this process: %s' % (len(prelude), '; '.join(
            '%r via %s/%s under %s' % (pj['input'], pj.get('route', 'expand-dict'), pj.get('delivery', 'call'), pj.get('config')) for pj in prelude[:5])))
    print('css %r via route %s, options from %s (call config %r, global config %r) -> %r ; expected %r : %s'
          % (s, route, delivery, conf, glob, r, rp['expected'], bad or 'property holds'))
    return 1 if bad else 0
