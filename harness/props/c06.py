"""C06 -- A stylesheet snippet is always reachable by its own key.

Obligations: coq/props/C06.v (complete vm_compute sweeps over the regenerated built-in table: every key, every
letters-only keyword in five letter cases; for ALL tables: exact key wins, score is case-invariant, user snippets
override, scope filter).

Search (property oracle, independent of the model; works on the RAW snippet text of Config(...).snippets):
  * key of a property snippet -> `<property><between><first listed alternative | a tabstop><after>` (the value is
    compared with the listed text with tabstop wrappers removed and white space ignored: how tokens are spaced is
    the formatter's business, C05); key of a raw snippet -> its body, tabstops included;
  * `<key>:<KEYWORD>` / `<key>-<KEYWORD>` for every dash-free keyword listed by the snippet, in lower / UPPER /
    mixed case -> `<property><between><keyword as listed><after>` (a listed function: the call as listed);
  * scopes: @@section may only produce raw snippets, @@property only property lines;
  * random user tables: overriding and new keys (near-collisions made of repeated letters) reach the user's text;
  * user VALUE snippets (harness/cssvalues_gen.py): `prop:alt1|alt2|..` whose first alternative has 1-5 tokens (keywords,
    numbers with units, colours, strings, calls with 0-3 arguments nested once), with and without explicit fields, under
    every syntax and both field callbacks.  The oracle reads only the snippet's SOURCE STRING with a tokenizer of its own:
    the line is `<property><between><tokens separated by single blanks, call arguments by ", "><after>`, every leaf token
    wrapped in a tabstop numbered 1..k in document order iff >= 2 alternatives and no explicit field; the
    (index, placeholder) pairs handed to output.field are checked too (the only observable of the wrapping under the
    library's default callback);
  * user RAW snippets print their body, every line break included.  Known finding
    c06:raw-linebreak-before-field-or-end: a line break immediately before a tabstop / at the end of the body is lost
    (exactly that class, and only when the output is the body without those breaks; anything else is a violation).
  * AS LISTED (as_listed): wherever the oracle's own tokenizer can read the snippet, the line of a key is compared to the
    letter (built-in and user tables): a tabstop written close to the token before it stays close (`${1:inset }${2:hoff}`);
  * new user keys with upper-case letters (cased_key), property and raw bodies, and the user's keywords typed after them;
  * user tables supplied through the GLOBAL config (type section, syntax section, call config, every combination; see
    layered_stream): oracle only, the model is compared on the merged table for a few configurations.
  * PROPERTY NAMES IN EVERY SHAPE (DASHED_PROPS): a quarter of the user property snippets (random user tables, value tables,
    global-config layers, config shapes, call sequences) are written under a vendor-prefixed (`-webkit-appearance`), custom
    (`--gap`), one-dash (`-x`), double-dash-inside (`x--y`) or one-letter property name: the key must print
    `<that name><between><first value><after>`, its keywords resolve, @@section must not reach it;
  * RAW PLACEHOLDERS THAT ARE CSS FRAGMENTS (rand_raw_body): raw bodies of 1-4 tabstops (numbers 0..100, repeated numbers)
    whose placeholders begin / end with the delimiter `:` (`:hover`, `::before`, a lone `:`, `a:`), with other punctuation
    (`-x`, `--a`, `#fff`, `.item`, `@media`, `!important`, `$var`, `x;`, `a|`), with blanks, or contain brackets / quotes /
    `${`; both callbacks (the tabstop callback shows `${n:<placeholder>}` exactly as written, the identity callback the
    placeholder itself);
  * MINIMAL DEFINITIONS (MINIMAL_BODIES, minimal_stream): the empty string (raw, empty body: the key prints nothing), blanks
    only, one character, a single tabstop, `a:` / `x: ` / `x:;`, a lone line break -- under overriding keys, new keys next to
    built-in keys and unrelated new keys, in tables holding all of them and in tables holding nothing else, every scope; 10% of
    the user snippets of every other stream that draws them;
  * HOW THE LIBRARY IS CALLED (harness/c06_calls.py), oracle only:
    CONFIG SHAPES (shape_stream, layered_stream): optional keys of the config left out vs. written out with their default
    (`syntax` for the default stylesheet syntax css, `options`, `snippets`, `context`), global config left out / {} /
    given, routes expand(abbr, dict[, global]) / expand(abbr, Config(..)) / expand_stylesheet(abbr, Config(..));
    CALL SEQUENCES (sequence_stream): one reused Config object (with / without `cache`) or config dicts sharing one
    cache dict; earlier calls type every kind of value after a key (keyword prefixes, listed function keywords with
    explicit arguments, numbers, colours, strings, `!`, several properties, malformed abbreviations), then the checked call
    must satisfy the statement exactly as it does on its own.  A failing sequence is minimised (delta debugging over the
    earlier calls) and written to the replay file.
Tie: every case also goes through the Coq model of the whole pipeline (output string compared; for the value stream the
callback events -- text and field invocations with offset, line, column -- of run/StyleEvents.v)."""
import glob
import json
import os
import re

import common
import style_util as su
import css_stream_util as cu
import cssvalues_gen as vg
import c06_calls as cc
from style_util import Cfg

RE_PROP = re.compile(r'^([a-z-]+)(?:\s*:\s*([^\n\r;]+?);*)?$')
BETWEEN_AFTER = {'css': (': ', ';'), 'scss': (': ', ';'), 'less': (': ', ';'), 'sass': (': ', ''), 'sss': (': ', ';'),
                 'stylus': (' ', '')}
SCOPES = [None, '@@global', '@@section', '@@property']
KEY_DIGIT_KW = 'c06:keyword-with-digit'
KEY_RAW_LB = 'c06:raw-linebreak-before-field-or-end'


# ---------------------------------------------------------------- reading the raw snippet text
def classify(value):
    """('prop', property, [alternatives]) | ('raw', body)"""
    m = RE_PROP.match(value)
    if not m:
        return ('raw', value)
    return ('prop', m.group(1), m.group(2).split('|') if m.group(2) else [])


def plain(text):
    """remove tabstop wrappers: ${n} -> '', ${n:ph} -> ph (nested wrappers too)"""
    out = []
    i = 0
    stack = 0
    while i < len(text):
        m = re.match(r'\$\{\d+(:?)', text[i:])
        if m:
            rest = text[i + m.end():]
            if m.group(1) == ':':
                stack += 1
                i += m.end()
                continue
            if rest.startswith('}'):
                i += m.end() + 1
                continue
        if text[i] == '}' and stack:
            stack -= 1
            i += 1
            continue
        out.append(text[i])
        i += 1
    return ''.join(out)


def squash(text):
    return re.sub(r'\s+', '', text)


def listed_keywords(alts):
    """dash-free keywords listed by a property snippet: maximal runs of word characters and dashes outside quotes,
    not starting with a digit, not part of a #colour, containing no dash.  -> [(keyword, is_function, listed text)]"""
    out = []
    seen = set()
    for alt in alts:
        body = re.sub(r'"[^"]*"|\'[^\']*\'', lambda m: ' ' * len(m.group(0)), alt)
        for m in re.finditer(r'[A-Za-z0-9_-]+', body):
            w = m.group(0)
            if '-' in w or w[0].isdigit() or not re.match(r'[A-Za-z_]', w):
                continue
            pre = body[:m.start()]
            if pre.count('(') > pre.count(')'):
                continue          # inside the parentheses of a listed function: an argument, not a keyword of the property
            if pre.endswith('#') or re.search(r'#\$\{\d+:$', pre) or pre.endswith('\\'):
                continue
            if re.search(r'\$\{$', pre):
                continue
            is_fn = body[m.end():m.end() + 1] == '('
            if w.lower() in seen:
                continue
            seen.add(w.lower())
            listed = w
            if is_fn:
                depth = 0
                j = m.end()
                while j < len(alt):
                    if alt[j] == '(':
                        depth += 1
                    elif alt[j] == ')':
                        depth -= 1
                        if depth == 0:
                            break
                    j += 1
                listed = alt[m.start():j + 1]
            out.append((w, is_fn, listed))
    return out


def case_variants(kw):
    alt1 = ''.join(c.upper() if i % 2 else c.lower() for i, c in enumerate(kw))
    alt2 = ''.join(c.lower() if i % 2 else c.upper() for i, c in enumerate(kw))
    out = []
    for v in (kw, kw.lower(), kw.upper(), alt1, alt2):
        if v not in out:
            out.append(v)
    return out


# ---------------------------------------------------------------- the statement on one result
def split_line(out, prop, between, after):
    if not out.startswith(prop + between):
        return None
    body = out[len(prop + between):]
    if after:
        if not body.endswith(after):
            return None
        body = body[:-len(after)]
    return body


def raw_text(body, tabstop=True):
    """what a raw body must print: line breaks (CR, LF, CRLF) become the configured newline (default "\\n", no base
    indent), every one of them; tabstops go through the field callback"""
    return vg.raw_expected(body, tabstop)


def raw_text_lossy(body, tabstop=True):
    """what the implementation prints for the listed finding: a literal segment loses the line break it ends with"""
    return vg.raw_expected(body, tabstop, lossy=True)


class Finding:
    """an oracle verdict that belongs to a listed finding class (key) -- reported through ctx.property_failure(key, ..)"""

    def __init__(self, key, why):
        self.key = key
        self.why = why

    def __str__(self):
        return self.why


def raw_oracle(body, out, tabstop):
    want = raw_text(body, tabstop)
    if out == want:
        return None
    why = 'raw snippet: expected its body %r, got %r' % (want, out)
    if vg.raw_in_finding_class(body) and out == raw_text_lossy(body, tabstop):
        return Finding(KEY_RAW_LB, why)
    return why


def key_oracle(table, key, cfg, r):
    """expand(key) under cfg against the raw text of table[key]; None, a description, or a Finding"""
    if r[0] != 'ok':
        return 'expand raised %r' % (r,)
    out = r[1]
    between, after = BETWEEN_AFTER[cfg.syntax]
    kind = classify(table[key])
    raws = [f(v, cfg.tabstop) for v in table.values() if classify(v)[0] == 'raw' for f in (raw_text, raw_text_lossy)]
    scope = cfg.context
    if scope == '@@section':
        if kind[0] == 'raw':
            return raw_oracle(kind[1], out, cfg.tabstop)
        if out == '' or out in raws:
            return None
        return '@@section scope produced %r, which is not a raw snippet' % (out,)
    if scope == '@@property':
        if kind[0] == 'raw':
            if out == '' or (out not in raws and re.match(r'^[a-z-]+' + re.escape(between), out) and out.endswith(after)):
                return None
            return '@@property scope produced %r, which is not a property line' % (out,)
    if kind[0] == 'raw':
        return raw_oracle(kind[1], out, cfg.tabstop)
    _, prop, alts = kind
    val = split_line(out, prop, between, after)
    if val is None:
        return 'expected a line %r...%r, got %r' % (prop + between, after, out)
    if not alts:
        if re.fullmatch(r'\$\{\d+\}', val) if cfg.tabstop else val == '':
            return None
        return 'no value listed: expected a tabstop, got %r' % (val,)
    if squash(plain(val)) != squash(plain(alts[0])):
        return 'expected the first listed value %r, got %r' % (alts[0], val)
    return as_listed(table[key], key, cfg, out)


GRADIENT_KEY = 'lg'
OVERRIDE_GRADIENT_KEY = True
"""ON, listed finding c06:user-override-of-gradient-key: a user snippet under the key `lg` does NOT replace the built-in one -- the gradient shortcut is resolved before the
table is consulted (expand('lg', {'type': 'stylesheet', 'snippets': {'lg': 'foo-bar:alpha|beta'}}) gives
'background-image: linear-gradient();').  rand_value_table has always left `lg` out; rand_user_table drew its overriding
keys from the whole table and so alarmed on the clean tree whenever the draw hit `lg` (about 1 table in 100)."""


KEY_GRADIENT = 'c06:user-override-of-gradient-key'
KEY_AFTER_CALL = 'c06:tabstop-directly-after-call'
KEY_LEADING_DASH = 'c06:leading-dash-of-value-dropped'


def listed_class(cfg_json, typed, src=None, tables=()):
    """The listed finding class a failing case belongs to, or None: the user's table defines the gradient key and
    that key was typed; the snippet source writes a tabstop directly after the `)` of a call."""
    sn = dict(cfg_json.get('snippets') or {})
    for t in tables:
        sn.update(t or {})
    # the key typed alone or with a keyword / value after it (`lg-unset`, `lg:INHERIT`): the table's `lg` is the snippet addressed
    if GRADIENT_KEY in sn and isinstance(typed, str) and re.match(re.escape(GRADIENT_KEY) + r'(?:$|[-:])', typed):
        return KEY_GRADIENT
    src = src if src is not None else sn.get(typed)
    if isinstance(src, str) and re.search(r'\)\$\{', src):
        return KEY_AFTER_CALL
    if isinstance(src, str) and classify(src)[0] == 'prop' and re.search(r'(?:^[^:]*:|[\s|(,])\s*-(?:[A-Za-z_]|\$\{)', src):
        return KEY_LEADING_DASH              # a VALUE token (of a property snippet) written with a leading dash before a letter / tabstop
    return None


def as_listed(source, key, cfg, out):
    """`<its property>: <its first listed value>` to the letter, for every snippet the oracle's own tokenizer
    (cssvalues_gen.read_tokens, the snippet's SOURCE STRING only) can read: tokens separated by single blanks, call
    arguments and comma-separated values by ", ", a tabstop written close to the token before it (`#${1:fff}`,
    `${1:inset }${2:hoff}`) stays close, the first value wrapped in tabstops iff >= 2 alternatives and no tabstop of its
    own.  Snippets it cannot read (several comma-separated values to be wrapped) keep the white-space-blind comparison
    above; so does `lg`: the documented gradient shortcut is resolved apart from the table (its tabstop is numbered 0,
    the table's text says 1 -- a tabstop either way)."""
    if key == GRADIENT_KEY:
        return None
    between, after = BETWEEN_AFTER[cfg.syntax]
    try:
        want = vg.expected_line(source, between, after, cfg.tabstop, cfg.options.get('stylesheet.shortHex', True))
    except vg.Unreadable:
        return None
    if out != want:
        return 'snippet %r: expected the line %r as listed, got %r' % (source, want, out)
    return None


def value_oracle(source, cfg, final, events):
    """a user VALUE snippet: exact line and exact output.field invocations, both read off the source string"""
    between, after = BETWEEN_AFTER[cfg.syntax]
    short_hex = cfg.options.get('stylesheet.shortHex', True)
    try:
        want = vg.expected_line(source, between, after, cfg.tabstop, short_hex)
        want_fields = vg.expected_fields(source, short_hex)
    except vg.Unreadable as e:
        return 'oracle cannot read the snippet %r: %s' % (source, e)
    if final != want:
        return 'snippet %r: expected %r, got %r' % (source, want, final)
    if events is not None:
        got = [(e[1], e[2]) for e in events if e[0] == 'field']
        if got != want_fields:
            return 'snippet %r: output.field must be called with %r, was called with %r' % (source, want_fields, got)
    return None


def keyword_oracle(prop, kw, is_fn, listed, cfg, r):
    if r[0] != 'ok':
        return 'expand raised %r' % (r,)
    between, after = BETWEEN_AFTER[cfg.syntax]
    val = split_line(r[1], prop, between, after)
    if val is None:
        return 'expected a line %r...%r, got %r' % (prop + between, after, r[1])
    want = squash(plain(listed))
    if squash(plain(val)) != want:
        return 'expected the listed keyword %r, got %r' % (listed, val)
    if plain(val) != plain(val).strip():
        return 'the keyword is written with surrounding blanks: %r (between %r and %r)' % (val, prop + between, after)
    return None


# ---------------------------------------------------------------- user tables
USER_PROPS = ['margin', 'foo-bar', 'x-y-z', 'color', 'grid-area', 'my-prop']
DASHED_PROPS = ['-webkit-appearance', '-moz-user-select', '-ms-flex', '-o-transition', '-webkit-box-shadow', '--gap', '--my-var', '--x',
                '-x', 'x--y', 'q']
"""PROPERTY NAMES IN EVERY SHAPE a stylesheet property name takes (CSS: an identifier may begin with one dash -- vendor
prefixes -webkit- / -moz- / -ms- / -o- -- or with two -- custom properties `--gap` --, may have two dashes inside, may be
one letter).  `<name>:<values>` with such a name is a property snippet like any other (the rule the oracle's classify
hard-codes: lower-case letters and dashes up to the `:`)."""
P_DASHED_PROP = 0.25
USER_VALUES = ['', 'auto', 'a|b|c', '${1:x} ${2:y}', 'none|${1:some}', 'url(${0})', 'f(${1:a}, ${2:b})|g()', '10px', '#${1:fff}',
               '"q r"', 'a b c|d', 'inherit|initial|unset', 'Arial|Verdana|sansSerif', 'currentColor|red', '${1:a }${2:b} ${3:c}|none',
               'alpha|beta|gamma', 'none|button|textfield']
USER_BODIES = ['x ${1} y ${2:z}', '@rule ${1:name} {\n\t${0}\n}', '/* ${0} */', 'foo(${1:a}) bar', 'plain text', '${1:only}',
               'form\x0cfeed ${1}', 'ls\u2028ps\u2029 ${1:x}\x0b\x85y', 'cr\rlf\r\nend']
KEY_WORDS = ['zquux', 'mycenterawesome', 'zq', 'qv', 'xfoo', 'zedprop', 'bdx', 'posq', 'mmq', 'kq', 'zzr', 'ab', 'q']

# RAW BODIES WHOSE TABSTOP PLACEHOLDERS ARE CSS FRAGMENTS.  A tabstop of a raw snippet is `${n}` or `${n:<placeholder>}`:
# ONE colon separates the number from the placeholder, everything up to the closing brace is the placeholder (TextMate /
# editor snippet notation, the one the README uses for snippets).  A placeholder is any text without `}`: it may itself
# begin or end with the delimiter character (pseudo-classes `:hover`, pseudo-elements `::before`, a lone `:`), with
# other punctuation (`-x`, `--a`, `#fff`, `.cls`, `@media`, `!important`, `$var`), with blanks, and may contain `:` `|`
# `;` `,` `(` `{` `$` quotes inside.
RAW_PLACEHOLDERS = {
    'word': ['x', 'name', 'li', 'sel', 'value'],
    'leading-colon': [':hover', ':focus', ':not(.active)', ': detail', ':nth-child(2n+1)', ':x'],
    'leading-colons': ['::before', '::after', ':::x', '::'],
    'lone-colon': [':'],
    'trailing-colon': ['a:', 'x::', 'color:', 'k: '],
    'inner-colon': ['a:b', 'a:hover', 'x: y', 'a::b:c'],
    'leading-punctuation': ['-x', '--a', '-', '#fff', '.item', '@media', '!important', '$var', '&', '*', '~', '>', '+ li', '/', '\\', '?', '='],
    'trailing-punctuation': ['x-', 'a--', 'x;', 'a,', 'a.', 'x!', 'a|', 'x$', 'a#', 'x/', 'a='],
    'blanks-around': [' x', 'x ', ' x ', '  a  b  ', '\ta'],
    'brackets-and-quotes': ['(', ')', 'f(a)', '{', '{y', 'a${b', '$', '${', '[x]', '"q"', "'", '"', "it's", 'a|b|c', 'a;b', 'a,b'],
    'number-like': ['0', '10px', '1.5', '-1', '#0', '50%'],
}
RAW_LITERALS = ['a', 'li', '.item', '&', ' {', '}', ' ', '\n\t', '\n}', '/* ', ' */', "content: '", "';", '@media ', '(', ')', ': ', ';', ':', '::',
                ' > ', ', ', 'x', 'border: ', '\r\n\t', '[', ']', '#', '.']
RAW_INDICES = [0, 1, 1, 2, 2, 3, 4, 5, 9, 10, 12, 100]


def rand_raw_body(rng):
    """a raw body of 1-4 tabstops (about a quarter without placeholder) between / next to literal pieces; no literal piece
    ends with a line break (that is the listed finding class c06:raw-linebreak-before-field-or-end, explored by
    cssvalues_gen.RAW_BODIES)."""
    while True:
        parts = []
        if rng.random() < 0.6:
            parts.append(rng.choice(RAW_LITERALS))
        for _ in range(rng.randint(1, 4)):
            n = rng.choice(RAW_INDICES)
            if rng.random() < 0.25:
                parts.append('${%d}' % n)
            else:
                cls = rng.choice(sorted(RAW_PLACEHOLDERS))
                parts.append('${%d:%s}' % (n, rng.choice(RAW_PLACEHOLDERS[cls])))
            for _ in range(rng.choice([0, 1, 1, 2])):
                parts.append(rng.choice(RAW_LITERALS))
        body = ''.join(parts)
        if classify(body)[0] == 'raw' and not vg.raw_in_finding_class(body):
            return body


PLACEHOLDER_CLASS = {ph: cls for cls, phs in RAW_PLACEHOLDERS.items() for ph in phs}


def cover_snippet(ctx, src):
    """evidence: the shape of the property name / the classes of the raw placeholders of a user snippet that was typed"""
    kind = classify(src)
    if src in MINIMAL_CLASS:
        ctx.cover('c06:minimal-definition:' + MINIMAL_CLASS[src])
    if kind[0] == 'prop':
        ctx.cover('c06:user-prop-name:' + prop_name_shape(kind[1]))
        return
    for seg in vg.raw_segments(src):
        if seg[0] == 'field':
            ctx.cover('c06:raw-placeholder:' + ('none' if not seg[2] else PLACEHOLDER_CLASS.get(seg[2], 'word')))


def rand_prop_name(rng):
    return rng.choice(DASHED_PROPS) if rng.random() < P_DASHED_PROP else rng.choice(USER_PROPS)


def prop_name_shape(p):
    return ('custom-property(--x)' if p.startswith('--') else 'vendor-prefix(-x)' if p.startswith('-') else 'one-letter' if len(p) == 1 else
            'double-dash-inside' if '--' in p else 'dashed' if '-' in p else 'word')


# MINIMAL DEFINITIONS.  A snippet definition is any string (README "snippets": a map from a key to the text it stands
# for); the statement makes no exception for short ones.  The shortest definitions of each kind, read with the rule the
# oracle's classify hard-codes: the EMPTY string (a raw snippet with the empty body: the key prints nothing -- the way a
# user switches a built-in snippet off), blanks only, one character that cannot be a property name (a digit, punctuation,
# an upper-case letter: raw), one lower-case letter or a dash (a property name without values: `x: <tabstop>`), a single
# tabstop and nothing else, a property name with its colon and no value (`a:` is raw, `x: ` a property without value),
# a lone line break (the listed finding class c06:raw-linebreak-before-field-or-end: a break at the end of the body).
MINIMAL_BODIES = {
    'empty': [''],
    'blanks-only': [' ', '  ', '\t'],
    'one-character-raw': ['0', '1', ';', ':', '.', '#', '!', '*', '_', 'A', '{}'],
    'one-character-property': ['x', 'q', '-', '--'],
    'single-tabstop': ['${0}', '${1}', '${1:}', '${0:x}', '${2:a b}'],
    'name-and-colon': ['a:', 'x: ', 'x:;', 'x:0', 'x;', 'x:a;;'],
    'line-break-only': ['\n', '\r\n'],
}
MINIMAL_CLASS = {b: cls for cls, bs in MINIMAL_BODIES.items() for b in bs}
MINIMAL_ALL = [b for cls in MINIMAL_BODIES for b in MINIMAL_BODIES[cls]]
P_MINIMAL = 0.1
"""share of the user snippets of every stream that draws them (random user tables, global-config layers, config shapes,
call sequences; half that share in the value tables) whose definition is a minimal one; the EMPTY definition is half of
them (it is the one a user writes on purpose)."""


def rand_minimal(rng, raw_only=False):
    """raw_only: for the value tables, whose property snippets are judged by the value oracle (it reads `name:values`)"""
    while True:
        b = '' if rng.random() < 0.5 else rng.choice(MINIMAL_ALL)
        if not raw_only or classify(b)[0] == 'raw':
            return b


def rand_snip(rng):
    if rng.random() < P_MINIMAL:
        return rand_minimal(rng)
    if rng.random() < 0.7:
        p = rand_prop_name(rng)
        v = rng.choice(USER_VALUES)
        return p + (':' + v if v else '')
    if rng.random() < 0.5:
        return rand_raw_body(rng)
    return rng.choice(USER_BODIES)


def cased_key(rng, word=None):
    """a NEW key written with upper-case letters: camelCase, Capitalised, UPPER, alternating, one letter raised, with an
    underscore, with the `@` / `$` a name may begin with.  Only what the abbreviation grammar reads as ONE name: ASCII
    letters and `_` (a digit, a dash or any other character ends the name; a non-ASCII letter is a scanner error)."""
    w = word or rng.choice(KEY_WORDS + [''.join(rng.choice('abcdmpxzqvkw') for _ in range(rng.randint(2, 7)))])
    style = rng.randrange(7)
    if style == 0:
        i = rng.randrange(len(w))
        w = w[:i] + w[i].upper() + w[i + 1:]                     # one letter raised (zQuux, Zquux, zquuX)
    elif style == 1:
        w = w.upper()
    elif style == 2:
        w = w[0].upper() + w[1:]
    elif style == 3:
        w = ''.join(c.upper() if i % 2 else c for i, c in enumerate(w))
    elif style == 4:
        step = rng.randint(2, 4)
        w = ''.join(c.upper() if i and i % step == 0 else c for i, c in enumerate(w))       # camelCase (myCenterAwesome)
    elif style == 5:
        i = rng.randrange(len(w) + 1)
        w = w[:i] + '_' + w[i:].capitalize()
    else:
        w = ''.join(c.upper() if rng.random() < 0.5 else c for c in w)
    if rng.random() < 0.12:
        w = rng.choice('@$') + w
    return w


def rand_user_table(rng, base):
    """(table, [(key, kind)]) : overriding keys, new keys, near-collisions of repeated letters, new keys with upper-case
    letters"""
    t = {}
    keys = list(base)
    lows = {k.lower() for k in keys}
    for _ in range(rng.randint(1, 3)):        # overrides
        k = rng.choice(keys)
        if k == GRADIENT_KEY and not OVERRIDE_GRADIENT_KEY:
            continue
        t[k] = rand_snip(rng)
    for _ in range(rng.randint(2, 6)):        # new keys
        k = rng.random()
        if k < 0.4:
            base_k = rng.choice(keys)
            i = rng.choice([j for j, ch in enumerate(base_k) if ch.isalpha()])
            nk = base_k[:i] + base_k[i] * rng.randint(1, 3) + base_k[i:]          # repeated letters
            # (only letters are repeated: a key must be something the abbreviation grammar reads as ONE name;
            #  `@@kf` is two tokens, the statement does not speak about such keys)
        elif k < 0.6:
            nk = rng.choice(['annii', 'acddd', 'abcd', 'aab', 'aabb', 'zzz', 'pp', 'mmm', 'posi', 'bdd'])
        elif k < 0.8:
            nk = rng.choice(keys) + rng.choice('abcdxyz')
        else:
            nk = ''.join(rng.choice('abcdmpxz') for _ in range(rng.randint(2, 6)))
        if nk.lower() in lows and nk not in base:
            continue
        lows.add(nk.lower())
        t[nk] = rand_snip(rng)
    for _ in range(rng.randint(2, 4)):        # new keys with upper-case letters; property bodies more often than raw ones
        nk = cased_key(rng)
        if nk.lower() in lows:
            continue          # the same name in another letter case: names not distinct (matching ignores case)
        lows.add(nk.lower())
        t[nk] = rand_snip(rng)
    return t


def key_shape(k):
    core = k.lstrip('@$')
    return ('sigil+' if core != k else '') + ('lower' if core == core.lower() else 'UPPER' if core == core.upper() else 'Mixed') + (
        '+underscore' if '_' in core else '')


def corpus(ctx):
    out = []
    for p in sorted(glob.glob(os.path.join(common.VERIF, 'corpus', 'C06', '*.json'))):
        try:
            with open(p) as f:
                o = json.load(f)
        except Exception:
            continue
        if isinstance(o.get('key'), str):
            out.append(o)
    return out


# ---------------------------------------------------------------- run
def live_table(syntax, user=None):
    from emmet.config import Config
    c = {'type': 'stylesheet', 'syntax': syntax}
    if user:
        c['snippets'] = dict(user)
    return dict(Config(c).snippets)


def gen(ctx):
    """cases: (cfg, abbr, check) where check(r) -> None | description ; plus a tag and a finding key (or None)"""
    rng = ctx.rng
    quick = ctx.tier == 'quick'
    cases = []
    tables = {syn: live_table(syn) for syn in su.SYNTAXES}
    # corpus: keys with their table
    for o in corpus(ctx):
        cfg = Cfg.from_json(o.get('config', {}))
        cfg.tabstop = True
        t = live_table(cfg.syntax, cfg.snippets)
        k = o['key']
        if k in t:
            cases.append((cfg, k, ('key', t, k), 'corpus', None))
    # every key x syntax x scope
    for syn in su.SYNTAXES:
        t = tables[syn]
        for scope in SCOPES:
            cfg = Cfg(syntax=syn, context=scope, tabstop=True)
            for k in t:
                cases.append((cfg, k, ('key', t, k), 'key', None))
    # every keyword x letter case; css with both connectors, the other syntaxes rotate
    for si, syn in enumerate(su.SYNTAXES):
        t = tables[syn]
        for scope in (None, '@@property'):
            if scope and quick and syn != 'css':
                continue
            cfg = Cfg(syntax=syn, context=scope, tabstop=False)
            n = 0
            for k, v in t.items():
                kind = classify(v)
                if kind[0] != 'prop':
                    continue
                for kw, is_fn, listed in listed_keywords(kind[2]):
                    fk = KEY_DIGIT_KW if re.search(r'\d', kw) else None
                    variants = case_variants(kw)
                    for vi, var in enumerate(variants):
                        n += 1
                        if syn != 'css' and quick and (n + si) % 5:
                            continue
                        for conn in (':', '-'):
                            if syn != 'css' and conn == '-' and vi:
                                continue
                            cases.append((cfg, k + conn + var, ('kw', kind[1], kw, is_fn, listed), 'keyword', fk))
    # tie only (no oracle: the statement is silent about inexact abbreviations, the theorems are not): fuzzy
    # abbreviations that exercise the scorer -- a key with a character dropped / doubled / appended, key + the
    # first letters of a keyword, keyword prefixes and acronyms of dashed keywords after the delimiter
    t = tables['css']
    fz = []
    for k, v in t.items():
        kind = classify(v)
        if len(k) > 1:
            i = rng.randrange(len(k))
            fz.append(k[:i] + k[i + 1:])
        fz.append(k + rng.choice('abcdefghilmnoprstuvwxyz'))
        if kind[0] == 'prop':
            for ai, alt in enumerate(kind[2]):
                w = re.match(r'[a-z-]+', alt)
                if not w:
                    continue
                w = w.group(0)
                acr = ''.join(p[0] for p in w.split('-') if p)
                if '-' in w:
                    fz.append(k + ':' + acr)          # acronym of a dashed keyword: the scorer's acronym bonus
                if ai >= (3 if quick else 12):
                    continue
                fz.append(k + acr)
                if '-' not in w:
                    fz.append(k + ':' + acr)
                fz.append(k + ':' + w[:rng.randint(1, max(1, len(w) - 1))])
                if len(w) > 3:
                    j = rng.randrange(1, len(w))
                    fz.append(k + '-' + w[:j] + w[j + 1:])
    cfgs = [Cfg(tabstop=True), Cfg(options={'stylesheet.fuzzySearchMinScore': 0.3}), Cfg(context='@@property'),
            Cfg(syntax='stylus', options={'stylesheet.fuzzySearchMinScore': 0.7, 'stylesheet.skipUnmatched': False})]
    for i, a in enumerate(fz):
        cases.append((cfgs[0] if quick and i % 3 else cfgs[i % len(cfgs)], a, None, 'fuzzy-tie-only', None))
    # user tables
    n_tab = 6 if quick else 40
    for _ in range(n_tab):
        syn = rng.choice(su.SYNTAXES)
        user = rand_user_table(rng, tables[syn])
        t = live_table(syn, user)
        for scope in (None, rng.choice(SCOPES)):
            cfg = Cfg(syntax=syn, snippets=user, context=scope, tabstop=True)
            for k in user:
                cases.append((cfg, k, ('key', t, k), 'user-key', None))
                ctx.cover('c06:user-key:' + key_shape(k))
                cover_snippet(ctx, user[k])
                kind = classify(user[k])
                if scope is not None or kind[0] != 'prop':
                    continue
                # the dash-free keywords the user's snippet lists (alternatives written without tabstops), typed in full
                # after the user's key, in the listed / UPPER / alternating case
                for kw, is_fn, listed in listed_keywords([a for a in kind[2] if '$' not in a]):
                    if re.search(r'\d', kw):
                        continue
                    for var in case_variants(kw)[:1] + case_variants(kw)[2:4]:
                        cases.append((cfg, k + rng.choice(':-') + var, ('kw', kind[1], kw, is_fn, listed), 'user-keyword', None))
            for k in rng.sample(sorted(tables[syn]), 12 if quick else 40):
                if k.lower() in {u.lower() for u in user if u != k}:
                    continue          # the user added the same name in another letter case: names not distinct
                cases.append((cfg, k, ('key', t, k), 'user-table-builtin-key', None))
    return cases


def apply_check(check, cfg, r):
    if check is None:
        return None
    if check[0] == 'key':
        return key_oracle(check[1], check[2], cfg, r)
    return keyword_oracle(check[1], check[2], check[3], check[4], cfg, r)


def shared_cache_run(s, cfg, s1):
    """expand(s) under cfg through a cache dict that a call under scope s1 has used before"""
    from emmet import expand
    cache = {}
    first = Cfg(syntax='css', context=s1, tabstop=cfg.tabstop).impl_config()
    first['cache'] = cache
    second = cfg.impl_config()
    second['cache'] = cache
    try:
        expand('m10' if s1 != '@@section' else '@m', first)
    except Exception:
        pass
    try:
        return ('ok', expand(s, second))
    except Exception as e:
        return su.classify_exc(e, len(s))


def shared_cache_scopes(ctx, cases):
    """`A context scope restricts matching to the permitted kind of snippet` also when one `cache` dict is shared by
    configurations that differ in their scope: first a call under scope s1 fills the cache, then the case's own
    configuration (scope s2) uses it; the case's check must still hold."""
    sample = [(cfg, s, check, fkey) for cfg, s, check, tag, fkey in cases
              if cfg.syntax == 'css' and not cfg.snippets and not cfg.options and s in SHARED_CACHE_KEYS and check and check[0] == 'key']
    n = 0
    for cfg, s, check, fkey in sample:
        for s1 in [None] + list(SCOPES):
            if s1 == cfg.context:
                continue
            r = shared_cache_run(s, cfg, s1)
            n += 1
            ctx.count_eval()
            ctx.cover('c06:shared-cache-across-scopes')
            bad = apply_check(check, cfg, r)
            if isinstance(bad, Finding):
                ctx.property_failure(bad.key, str(bad), {'input': s, 'config': cfg.to_json(), 'check': list(check[:1])})
                continue
            if bad and not (fkey and ctx.match_known(fkey)):
                ctx.property_failure('c06:shared-cache:%s:%s:%s' % (s1, cfg.context, s),
                                     'stylesheet expand(%r) under scope %r through a cache dict first used under scope %r: %s' % (s, cfg.context, s1, bad),
                                     {'input': s, 'config': cfg.to_json(), 'shared_cache_first_scope': s1, 'check': list(check[:1]), 'impl': repr(r)[:300], 'why': bad})
    ctx.cov['shared_cache_scope_sequences'] = n


SHARED_CACHE_KEYS = ('m', 'p', 'bd', 'pos', '@m', '@f', '@kf', 'c', 'fz', 'd')


def run(ctx):
    ok = ctx.build(['props/C06.vo', 'run/StyleShow.vo'])
    if ok:
        su.obligations(ctx, 'props/C06.v')
    ctx.cov['rule'] = (
        'EXHAUSTIVE over Config({type: stylesheet, syntax: s}).snippets: every key x 6 syntaxes x scopes {none, @@global, @@section, '
        '@@property}; every dash-free keyword listed by a property snippet (read from the raw snippet text) after `:` and `-` in '
        'listed/lower/UPPER/two alternating cases (all for css, a rotating fifth for the other syntaxes in the quick tier); random user '
        'tables (1-3 overriding keys, 2-6 new keys incl. built-in keys with repeated letters and known score-1.0 collisions) with every '
        'user key and a sample of built-in keys; fuzzy abbreviations (character dropped/appended, keyword prefixes and acronyms) '
        'under 4 configurations for the model tie only; user VALUE snippets (cssvalues_gen: 1-4 alternatives, first of 1-5 tokens over '
        'keywords / numbers with units / #colours / strings / calls with 0-3 arguments nested once, with and without explicit fields, '
        'irregular blanks) and RAW bodies with line breaks around tabstops, 40 (quick) / 400 (thorough) tables x {tabstop, identity} '
        'callback, syntaxes css/scss/sass/less/stylus in rotation, scopes none/@@global/@@property, shortHex off in 15%%: exact line and '
        'exact output.field invocations expected from the SOURCE STRING by the oracle\'s own tokenizer.  '
        'AS LISTED: every key whose snippet that tokenizer can read (built-in and user tables alike; all but `lg` and lists of '
        'comma-separated values that are to be wrapped) must print `<property><between><first listed value><after>` to the letter -- '
        'single blanks between tokens, ", " between arguments / comma-separated values, a tabstop written close to the token before '
        'it stays close.  TABSTOPS CLOSE TO THE TOKEN BEFORE THEM: value snippets (15%% of the value tables\' entries) of 1-4 groups '
        '<keyword | number | #colour | string | tabstop> followed by 0-3 tabstops without a blank, also inside call arguments, '
        'placeholders with leading/trailing blanks (after the `)` of a call: generator class off, '
        'cssvalues_gen.FIELD_GLUED_AFTER_CALL).  KEYS WITH UPPER-CASE LETTERS: 2-4 new keys per random user table and 20%% of the '
        'value tables\' keys are written camelCase / Capitalised / UPPER / alternating / one letter raised / with `_` / with a leading '
        '`@` or `$` (only ASCII letters and `_` make ONE name in the abbreviation grammar), with property and raw bodies; for the '
        'unscoped configuration of every random user table every dash-free keyword of the user\'s property snippets is typed after '
        'the user\'s key (`:` or `-`) in listed / UPPER / alternating case.  GLOBAL CONFIG LAYERS: user tables supplied through '
        'expand(abbr, config, global_config): all 7 non-empty subsets of {global[stylesheet], global[<syntax>], call config} x 6 '
        'syntaxes (x 6 rounds thorough), 1-2 overriding and 1-3 new keys per layer, a key of a less specific layer redefined by a '
        'more specific one in 60%%, sections of other syntaxes / markup / html / pug with the same kind of tables as noise, sections '
        'that do not mention snippets; every user key, every built-in key only the noise overrides and 4 built-in keys are typed; '
        'the expected table is the built-in one updated in the documented order type section < syntax section < call.  The Coq model '
        'has no global layers: these cases are judged by the oracle, and for 4 (quick) / 21 (thorough) multi-layer configurations '
        'the model is run on the merged table as its user table and compared.  Every layered configuration is written in a random '
        'CONFIG SHAPE (see below); for css (the default stylesheet syntax) each of the 7 layer subsets runs twice: `syntax` written '
        'and `syntax` left out.  '
        'CONFIG SHAPES (oracle only; the model sees the resolved configuration, which is the same): optional config keys left out '
        'vs. written with their default -- `syntax` (css may be left out), `options`, `snippets` ({}), `context` (None) --, global '
        'config left out / {} / given, routes expand(abbr, dict[, global]) / expand(abbr, Config(dict, global)) / '
        'expand_stylesheet(abbr, Config(dict, global)): the bare config {type: stylesheet} with every built-in key and the listed '
        'keywords (a rotating third quick / all thorough); the three routes x 4 scopes with `syntax` left out: every built-in key and '
        'keywords in rotation; 4 (quick) / 30 (thorough) random user tables in random shapes (3 of 4 without `syntax`) with every '
        'user key, the user\'s keywords and 6 built-in keys.  '
        'CALL SEQUENCES (oracle only; the model is a function of (configuration, abbreviation)): sessions = ONE Config object reused '
        '(with a cache dict / without) or config dicts (syntax, scope, callback varied) sharing one cache dict.  Sweep session(s) '
        '(quick: config-object css; thorough: + shared-cache css/scss, config-object stylus, config-object without cache): EARLIER '
        'calls = for every built-in key one typed value of a random class {number, numbers, colour, !important, string, unlisted '
        'call, keyword prefix, keyword in full, several keywords, several properties, malformed (raises), bare key} plus, for every '
        'function keyword a snippet lists, one call giving it EXPLICIT ARGUMENTS (name typed in full / as a prefix / first letter / '
        'other case, 1-4 arguments of 1-3 tokens); THEN every key and every listed dash-free keyword after `:` and `-` (one letter '
        'case in rotation quick, all five thorough) is checked.  12 (quick) / 120 (thorough) random sessions of 25-60 calls focused '
        'on 3-9 keys (user keys, keys listing function keywords, random keys), earlier and checked calls mixed, 40%% with a random '
        'user table, scopes none/@@global/@@property/@@section, both callbacks, shared-cache sessions with a call under ANOTHER '
        'user table in between.  A checked call that fails only after earlier calls is reported with the earlier calls minimised by '
        'delta debugging (replay re-runs the sequence in a fresh session).  '
        'PROPERTY NAMES IN EVERY SHAPE: 25%% of the user property snippets of every stream that draws user snippets (random user '
        'tables, value tables, global-config layers, config shapes, call sequences) carry a vendor-prefixed (-webkit-appearance, '
        '-moz-user-select, -ms-flex, -o-transition), custom (--gap, --my-var, --x), one-dash (-x), double-dash-inside (x--y) or '
        'one-letter (q) property name; key, keywords after the key and all four scopes are checked as for any property snippet '
        '(buckets c06:user-prop-name:*).  RAW PLACEHOLDERS THAT ARE CSS FRAGMENTS: half of the raw bodies of those streams and 10%% '
        'of the value tables\' entries are generated bodies of 1-4 tabstops (numbers from {0,1,2,3,4,5,9,10,12,100}, repeats '
        'allowed, a quarter without placeholder) between literal pieces; placeholders drawn from 11 classes: word, leading colon '
        '(:hover), leading colons (::before, ::), a lone colon, trailing colon, inner colon, leading punctuation (-x --a #fff .item '
        '@media !important $var & * ~ > / \\ ? =), trailing punctuation, blanks around, brackets and quotes (( ) { ${ [x] " \' a|b '
        'a;b a,b), number-like; expected = the body itself with each tabstop through the callback (ONE colon separates number and '
        'placeholder), both callbacks (buckets c06:raw-placeholder:*); no literal piece ends with a line break (that listed '
        'finding class stays with cssvalues_gen.RAW_BODIES).  '
        'MINIMAL DEFINITIONS (a definition is any string): the empty string (a raw snippet with the empty body: the key prints '
        'nothing), blanks only, one character that is no property name (digit, punctuation, upper-case letter: raw), one lower-case '
        'letter / a dash (a property without values), a single tabstop and nothing else, a name with its colon and no value (`a:`, '
        '`x: `, `x:;`), a lone line break -- 32 definitions in 7 classes (buckets c06:minimal-definition:*).  10%% of the user '
        'snippets of every stream that draws them (random user tables, global-config layers, config shapes, call sequences; 5%% in '
        'the value tables, raw ones only) are minimal, half of those the empty string.  Dedicated stream (minimal_stream): per syntax 2 (quick) / 6 '
        '(thorough) tables that hold EVERY minimal definition once, definition i of table j under a key of class (i+j) mod 3 of '
        '{overriding a built-in key, new key next to built-in keys (proper prefix of one / a letter repeated / a letter appended), '
        'unrelated new key}, scopes none + one other in rotation (quick) / all four (thorough), callbacks alternating: every user key '
        'and 6 built-in keys the table leaves alone are typed; plus one table per definition that holds NOTHING ELSE (key class and '
        'syntax in rotation, random scope) with its key and 2 built-in keys.  Judged by the oracle; the unscoped first table of 3 '
        '(quick) / 12 (thorough) configurations also goes through the Coq model.  Not explored: an EMPTY FIRST ALTERNATIVE (`x:|a`), '
        'on which the statement is silent.  '
        'Oracle: raw snippet text vs output (see module docstring).  Tie: output string of the Coq model; callback events for the '
        'value stream.  Non-trivial: every case; distinct by (configuration, abbreviation).')
    cases = gen(ctx)
    pairs = [(c, s) for c, s, _, _, _ in cases]
    impl = su.impl_expand_many(pairs)
    for (cfg, s, check, tag, fkey), r in zip(cases, impl):
        ctx.count_eval()
        ctx.nontrivial((cfg.key(), s))
        ctx.cover('c06:' + tag)
        ctx.cover('c06:scope:' + str(cfg.context))
        ctx.cover('c06:syntax:' + cfg.syntax)
        bad = apply_check(check, cfg, r)
        if bad:
            r2 = su.impl_expand(s, cfg)          # fresh configuration, no shared cache
            bad = apply_check(check, cfg, r2)
            if bad:
                key = bad.key if isinstance(bad, Finding) else fkey if fkey else listed_class(cfg.to_json(), s) or 'c06:%s:%s' % (cfg.key(), s)
                bad = str(bad)
                ctx.property_failure(key, 'stylesheet expand(%r) under %s: %s' % (s, cfg.to_json(), bad),
                                     {'input': s, 'config': cfg.to_json(), 'check': list(check[:1]) + [c for c in check[1:] if not isinstance(c, dict)],  # noqa
                                      'impl': repr(r2)[:300], 'why': bad})
    shared_cache_scopes(ctx, cases)
    value_stream(ctx, ok, {syn: live_table(syn) for syn in VALUE_SYNTAXES})
    layered_stream(ctx, ok, {syn: live_table(syn) for syn in su.SYNTAXES})
    minimal_stream(ctx, ok, {syn: live_table(syn) for syn in su.SYNTAXES})
    shape_stream(ctx, {syn: live_table(syn) for syn in su.SYNTAXES})
    sequence_stream(ctx, {syn: live_table(syn) for syn in su.SYNTAXES})
    for (cfg, s, check, tag, fkey), r in list(zip(cases, impl))[-5:]:
        ctx.sample({'input': s, 'config': cfg.to_json(), 'impl': repr(r)[:160]})
    runner = su.ImplRunner()
    chk_cases = pairs[:150] + pairs[-150:]
    chk = [runner.expand(s, c) for c, s in chk_cases]
    runner.selfcheck(ctx, chk_cases, chk, rate=0.1)
    if not ok:
        return
    res = su.coq_expand(ctx, pairs, tag='c06')
    if res is not None:
        dis = 0
        for (cfg, s, check, tag, fkey), r, m in zip(cases, impl, res):
            if m != r:
                dis += 1
                if dis <= 5:
                    ctx.say('DISAGREE css expand %r under %s\n  impl  %r\n  model %r' % (s, cfg.to_json(), r, m))
                    v = apply_check(check, cfg, r)
                    if not v or isinstance(v, Finding):
                        ctx.broken.append({'kind': 'correspondence', 'file': 'css-expand', 'input': s, 'config': cfg.to_json(),
                                           'impl': repr(r)[:300], 'model': repr(m)[:300]})
        ctx.cov['correspondence']['css_expand_full_model'] = {'cases': len(cases), 'disagreements': dis}


# ---------------------------------------------------------------- user VALUE / RAW snippets
VALUE_SYNTAXES = ['css', 'scss', 'sass', 'less', 'stylus']
OVERRIDE_KEYS = ['m', 'p', 'bd', 'c', 'bg', 'trs', 'ff', 'd', 'pos', 'w', 'fz', 'bxsh']


def rand_value_table(rng, base, size=None):
    """a user table of value snippets (and a few raw bodies) under overriding and new keys -> {key: source}"""
    t = {}
    lows = set()
    base_low = {k.lower() for k in base}
    n = size or rng.randint(6, 10)
    while len(t) < n:
        r = rng.random()
        if r < 0.2:
            k = rng.choice(OVERRIDE_KEYS)
        elif r < 0.35:
            b = rng.choice(OVERRIDE_KEYS)
            i = rng.randrange(len(b))
            k = b[:i] + b[i] * rng.randint(1, 2) + b[i:]
        elif r < 0.8:
            k = ''.join(rng.choice('abcdmpxzqv') for _ in range(rng.randint(2, 6)))
        else:
            k = cased_key(rng)
        if k.lower() in lows or k == 'lg' or (k.lower() in base_low and k not in base):
            continue
        lows.add(k.lower())
        r = rng.random()
        if rng.random() < P_MINIMAL / 2:
            t[k] = rand_minimal(rng, raw_only=True)          # the empty definition, blanks only, one character, a single tabstop, `a:`
        elif r < 0.1:
            t[k] = rng.choice(vg.RAW_BODIES)
        elif r < 0.2:
            t[k] = rand_raw_body(rng)          # placeholders that are CSS fragments (`:hover`, `::before`, `:`, `-x`, ..)
        elif r < 0.33:
            t[k] = vg.gen_glued_snippet(rng)          # tabstops written close to the token before them
        else:
            t[k] = vg.gen_snippet(rng, canonical=rng.random() < 0.85)[0]
        if classify(t[k])[0] == 'prop' and rng.random() < P_DASHED_PROP:
            # the same value under a vendor-prefixed / custom / one-letter property name
            t[k] = rng.choice(DASHED_PROPS) + t[k][re.match(r'[a-z-]+', t[k]).end():]
    return t


def close_pairs(toks):
    """kinds of the tokens that have a tabstop written close after them (arguments of calls included)"""
    out = [a[0] for a, b in zip(toks, toks[1:]) if b[0] == 'field' and b[3]]
    for t in toks:
        if t[0] == 'call':
            for a in t[2]:
                out += close_pairs(a)
    return out


def value_cases(ctx, tables):
    """[(cfg, key, source, kind, through the model?)]: the corpus and the first (large) tables also go through the model"""
    rng = ctx.rng
    quick = ctx.tier == 'quick'
    cases = []
    # corpus: user value/raw snippets of past failures, both callbacks
    for o in corpus(ctx):
        c0 = Cfg.from_json(o.get('config', {}))
        if o['key'] in c0.snippets:
            for tab in (True, False):
                cfg = Cfg(c0.syntax, c0.options, c0.snippets, c0.context, tab)
                src = c0.snippets[o['key']]
                cases.append((cfg, o['key'], src, classify(src)[0], True))
    n_model = 8 if quick else 40          # one conversion of the whole table inside Coq per configuration (2 per table)
    n_tab = n_model + (32 if quick else 400)
    for ti in range(n_tab):
        syn = VALUE_SYNTAXES[ti % len(VALUE_SYNTAXES)]
        user = rand_value_table(rng, tables[syn], 28 if ti < n_model else None)
        opts = {}
        if rng.random() < 0.15:
            opts['stylesheet.shortHex'] = False
        scope = rng.choice([None, None, None, '@@global', '@@property'])
        for tab in (True, False):
            cfg = Cfg(syntax=syn, options=opts, snippets=user, context=scope, tabstop=tab)
            for k, src in user.items():
                kind = classify(src)[0]
                if kind == 'raw' and scope == '@@property':
                    continue
                cases.append((cfg, k, src, kind, ti < n_model))
    return cases


def value_stream(ctx, ok, tables):
    quick = ctx.tier == 'quick'
    cases = value_cases(ctx, tables)
    caches = {}
    results = []
    for cfg, k, src, kind, _ in cases:
        ck = cfg.key()
        r = cu.impl_run(k, cu.cfg_user_config(cfg), cfg.tabstop, caches.setdefault(ck, {}))
        results.append(r)
        ctx.count_eval()
        ctx.nontrivial((ck, k))
        ctx.cover('c06:user-%s-snippet' % ('value' if kind == 'prop' else 'raw'))
        cover_snippet(ctx, src)
        ctx.cover('c06:syntax:' + cfg.syntax)
        ctx.cover('c06:callback:' + ('tabstop' if cfg.tabstop else 'identity'))
        if kind == 'prop':
            try:
                alts = vg.split_alts(vg.RE_SNIPPET.match(src).group(2))
                toks = [t for part in vg.read_value_list(alts[0]) for t in part] if alts[0].strip() else []
                ctx.cover('c06:value:alts=%d' % min(len(alts), 4))
                ctx.cover('c06:value:' + vg.shape(toks) + (',fields' if vg.toks_have_field(toks) else ''))
                for a in close_pairs(toks):
                    ctx.cover('c06:value:tabstop-close-after-' + a)
                ctx.cover('c06:user-key:' + key_shape(k))
            except Exception:
                ctx.cover('c06:value:unreadable')
        bad = value_verdict(cfg, k, src, kind, r)
        if bad:
            fresh = cu.impl_run(k, cu.cfg_user_config(cfg), cfg.tabstop, None)
            bad = value_verdict(cfg, k, src, kind, fresh)
            if bad:
                key = bad.key if isinstance(bad, Finding) else listed_class(cfg.to_json(), k, src) or 'c06:value:%s:%s' % (ck, k)
                ctx.property_failure(key, 'stylesheet expand(%r) under %s: %s' % (k, cfg.to_json(), bad),
                                     {'input': k, 'config': cfg.to_json(), 'check': ['value'], 'impl': repr(fresh[:2])[:300],
                                      'why': str(bad)})
    for (cfg, k, src, kind, _), r in list(zip(cases, results))[-3:]:
        ctx.sample({'input': k, 'snippet': src, 'config': {'syntax': cfg.syntax, 'tabstop': cfg.tabstop}, 'impl': repr(r[1])[:160] if r[0] == 'ok' else repr(r)[:160]})
    if not ok:
        return
    # the tie: callback events (hence the full string) of the model of the whole pipeline
    chosen = [i for i, c in enumerate(cases) if c[4]]
    seen = {cases[i][0].key() for i in chosen}
    res = cu.coq_events(ctx, [(cases[i][0], cases[i][1]) for i in chosen], tag='c06-ev')
    if res is None:
        return
    dis = 0
    for i, mo in zip(chosen, res):
        cfg, k, src, kind, _ = cases[i]
        r = results[i]
        if r[0] == 'ok':
            same = mo == ('ok', cu.canon_events(r[2])) and ''.join(e[1] if e[0] == 'text' else e[2] for e in mo[1]) == r[1]
        else:
            same = r[0] == 'err' and mo[0] == 'err' and tuple(mo[1:]) == tuple(r[1:])
        if not same:
            dis += 1
            if dis <= 5:
                ctx.say('DISAGREE css events %r (snippet %r) under %s\n  impl  %r\n  model %r' % (
                    k, src, cfg.to_json(), (r[1], cu.canon_events(r[2])[:12]) if r[0] == 'ok' else r, mo[1][:12] if mo[0] == 'ok' else mo))
                v = value_verdict(cfg, k, src, kind, r)
                if not v or isinstance(v, Finding):
                    ctx.broken.append({'kind': 'correspondence', 'file': 'css-expand-events', 'input': k, 'config': cfg.to_json(),
                                       'impl': repr(r[1:3])[:400], 'model': repr(mo)[:400]})
    ctx.cov['correspondence']['css_value_snippets_events_model'] = {'cases': len(chosen), 'configurations': len(seen), 'disagreements': dis}


# ---------------------------------------------------------------- user snippets given through the GLOBAL config
# "A user-defined snippet replaces a built-in one under the same key, is reachable under a new key" -- wherever the user
# table is supplied.  expand(abbr, config, global_config) / Config(config, global_config) take user tables from three
# places: global_config[<type>] (here 'stylesheet'), global_config[<syntax>] and the call's own config.  The documented
# order (README "global config", the statement of C20): type section, then syntax section, then the call's config; a more
# specific layer replaces a key of a less specific one, keys it does not mention stay.  Sections of OTHER syntaxes and of
# the markup type define nothing for this call.
LAYERS = ('type', 'syntax', 'call')
LAYER_SUBSETS = [('type',), ('syntax',), ('call',), ('type', 'syntax'), ('type', 'call'), ('syntax', 'call'), ('type', 'syntax', 'call')]
N_LAYER_MODEL = {'quick': 4, 'thorough': 21}


def rand_layers(rng, syn, base, subset):
    """-> (layers {'type'|'syntax'|'call': table}, noise {section name: table}, keys that only the noise overrides)"""
    lows = {k.lower() for k in base}
    used = set()

    def new_key():
        for _ in range(50):
            r = rng.random()
            if r < 0.5:
                k = ''.join(rng.choice('abcdmpxzqvkw') for _ in range(rng.randint(2, 6)))
            elif r < 0.75:
                k = rng.choice(KEY_WORDS)
            else:
                k = cased_key(rng)
            if k.lower() not in lows:
                lows.add(k.lower())
                return k
        return None

    def table(avoid_overrides):
        t = {}
        for _ in range(rng.randint(1, 2)):
            k = rng.choice([k for k in OVERRIDE_KEYS if k in base])
            if k not in avoid_overrides:
                t[k] = rand_snip(rng)
        for _ in range(rng.randint(1, 3)):
            k = new_key()
            if k:
                t[k] = rand_snip(rng)
        return t

    layers = {}
    for name in subset:
        t = table(())
        # a key of a less specific layer defined again, with another text
        earlier = [k for n in subset[:subset.index(name)] for k in layers[n]]
        if earlier and rng.random() < 0.6:
            k = rng.choice(earlier)
            body = rand_snip(rng)
            if all(layers[n].get(k) != body for n in layers):
                t[k] = body
        layers[name] = t
        used.update(t)
    noise = {}
    others = [x for x in su.SYNTAXES if x != syn]
    for sec in rng.sample(others, rng.randint(1, 2)) + rng.sample(['markup', 'html', 'pug'], rng.randint(0, 2)):
        noise[sec] = table(used)
    noise_only = sorted({k for t in noise.values() for k in t if k in base and k not in used})
    return layers, noise, noise_only


def layered_global(rng, syn, layers, noise):
    g = {}
    for sec, t in noise.items():
        g[sec] = {'snippets': dict(t)}
    for name, sec in (('type', 'stylesheet'), ('syntax', syn)):
        if name in layers:
            g[sec] = {'snippets': dict(layers[name])}
            if rng.random() < 0.3:
                g[sec]['options'] = {}
        elif rng.random() < 0.5:
            g[sec] = rng.choice([{}, {'options': {}}, {'variables': {'zz': 'y'}}])          # a section that does not mention snippets
    return g


def layered_effective(base, layers):
    eff = dict(base)
    merged = {}
    for name in LAYERS:
        eff.update(layers.get(name, {}))
        merged.update(layers.get(name, {}))
    return eff, merged


def impl_layered(abbr, cfg, glob, call_snippets, cache=None, shape=None):
    """expand(abbr, <call config written in `shape`>, global config) through the route the shape names (default: every
    key spelled out, expand(abbr, dict, global))"""
    return cc.call_shaped(abbr, Cfg(cfg.syntax, cfg.options, {}, cfg.context, cfg.tabstop), shape or cc.DEFAULT_SHAPE, glob,
                          dict(call_snippets or {}), cache)


def layered_stream(ctx, ok, tables):
    rng = ctx.rng
    quick = ctx.tier == 'quick'
    rounds = 1 if quick else 6
    cases = []          # (cfg of the merged table, abbr, check, global config, call snippets, config number)
    ci = 0
    for rnd in range(rounds):
        for si, syn in enumerate(su.SYNTAXES):
            base = tables[syn]
            # the call config written out in full, and -- for the default stylesheet syntax, which a config need not name --
            # with the `syntax` key left out (cc.DEFAULT_STYLESHEET_SYNTAX); the other optional keys and the call route
            # (expand with a dict / with a Config object / expand_stylesheet) are drawn per configuration
            syntax_shapes = ('explicit', 'omitted') if syn == cc.DEFAULT_STYLESHEET_SYNTAX else ('explicit',)
            for subset in LAYER_SUBSETS:
                for syntax_shape in syntax_shapes:
                    layers, noise, noise_only = rand_layers(rng, syn, base, subset)
                    glob = layered_global(rng, syn, layers, noise)
                    eff, merged = layered_effective(base, layers)
                    scope = None if rng.random() < 0.7 else rng.choice(SCOPES)
                    cfg = Cfg(syntax=syn, snippets=merged, context=scope, tabstop=rng.random() < 0.7)
                    how = cc.rand_shape(rng, cfg, syntax=syntax_shape,
                                        route=None if syntax_shape == 'omitted' or rng.random() < 0.4 else 'dict')
                    keys = list(merged) + noise_only + rng.sample(sorted(base), 4)
                    for k in dict.fromkeys(keys):
                        cases.append((cfg, k, ('key', eff, k), glob, layers.get('call', {}), ci, '+'.join(subset), how))
                    ci += 1
    caches = {}
    results = []
    for cfg, k, check, glob, call, n, shape, how in cases:
        r = impl_layered(k, cfg, glob, call, caches.setdefault(n, {}), how)
        results.append(r)
        ctx.count_eval()
        ctx.nontrivial(('layers', n, cfg.key(), k))
        ctx.cover('c06:global-config-layers:' + shape)
        ctx.cover('c06:global-config-layers:config-shape:' + cc.shape_name(how))
        ctx.cover('c06:syntax:' + cfg.syntax)
        bad = apply_check(check, cfg, r)
        if bad:
            r2 = impl_layered(k, cfg, glob, call, None, how)
            bad = apply_check(check, cfg, r2)
            if bad:
                key = bad.key if isinstance(bad, Finding) else listed_class(cfg.to_json(), k, None, [call] + [v.get('snippets') for v in (glob or {}).values() if isinstance(v, dict)]) or 'c06:layers:%s:%s:%s' % (shape, cfg.key(), k)
                written = cc.shape_config(Cfg(cfg.syntax, cfg.options, {}, cfg.context, cfg.tabstop), how, call)
                ctx.property_failure(key, 'stylesheet %s with abbr=%r, config=%s, global_config=%r: %s' % (
                    cc.ROUTE_TEXT[how['route']], k, {x: ('<tabstop callback>' if x == 'options' and cfg.tabstop else y) for x, y in written.items()}, glob, bad),
                    {'input': k, 'config': dict(cfg.to_json(), snippets=call), 'global_config': glob, 'check': ['layered'], 'shape': how,
                     'impl': repr(r2)[:300], 'why': str(bad)})
    ctx.cov['global_config_layer_cases'] = {'configurations': ci, 'cases': len(cases)}
    if cases:
        cfg, k, check, glob, call, n, shape, how = cases[-1]
        ctx.sample({'input': k, 'config': dict(cfg.to_json(), snippets=call), 'global_config': glob, 'shape': how, 'impl': repr(results[-1])[:160]})
    if not ok:
        return
    # the tie: the model has no global layers; it is given the table merged in the documented order as ITS user table
    multi = sorted({c[5] for c in cases if '+' in c[6]})
    step = max(1, len(multi) // N_LAYER_MODEL[ctx.tier])
    picked = set(multi[::step][:N_LAYER_MODEL[ctx.tier]])          # configurations with >= 2 layers, spread over the syntaxes
    chosen = [i for i, c in enumerate(cases) if c[5] in picked]
    nconf = len(picked)
    res = su.coq_expand(ctx, [(cases[i][0], cases[i][1]) for i in chosen], tag='c06-layers')
    if res is None:
        return
    dis = 0
    for i, m in zip(chosen, res):
        if m != results[i]:
            dis += 1
            if dis <= 5:
                cfg, k, check, glob, call, n, shape, how = cases[i]
                ctx.say('DISAGREE css expand %r with global config %r, call snippets %r\n  impl  %r\n  model (merged table) %r' % (k, glob, call, results[i], m))
                v = apply_check(check, cfg, results[i])
                if not v or isinstance(v, Finding):
                    ctx.broken.append({'kind': 'correspondence', 'file': 'css-expand-global-layers', 'input': k, 'config': cfg.to_json(),
                                       'global_config': glob, 'impl': repr(results[i])[:300], 'model': repr(m)[:300]})
    ctx.cov['correspondence']['css_expand_global_layers_model'] = {'cases': len(chosen), 'configurations': nconf, 'disagreements': dis}


# ---------------------------------------------------------------- MINIMAL definitions in user tables
# "A user-defined snippet replaces a built-in one under the same key, is reachable under a new key" whatever the user's
# text is -- the shortest texts included (MINIMAL_BODIES): EVERY minimal definition under an overriding key, under a new
# key NEXT TO built-in keys (a proper prefix of one, one with a letter repeated or appended: where the fuzzy search would
# look if the exact key were not there) and under an unrelated new key; in tables that hold all of them and in tables that
# hold nothing else; the built-in keys the table does not mention stay reachable.
MINIMAL_KEY_CLASSES = ('override', 'next-to-built-in', 'unrelated')
N_MINIMAL_MODEL = {'quick': 3, 'thorough': 12}
N_MINIMAL_REPORT = 10


def minimal_key(rng, base, keys, lows, used, cls):
    for _ in range(80):
        if cls == 'override':
            k = rng.choice(keys)
            if k == GRADIENT_KEY or k in used:
                continue
            used.add(k)
            return k
        if cls == 'next-to-built-in':
            b = rng.choice(keys)
            r = rng.random()
            if r < 0.45:
                if len(b) < 3:
                    continue
                k = b[:rng.randint(2, len(b) - 1)]
            elif r < 0.75:
                i = rng.choice([j for j, ch in enumerate(b) if ch.isalpha()])
                k = b[:i] + b[i] * rng.randint(1, 2) + b[i:]
            else:
                k = b + rng.choice('abcdxyz')
            if not k[-1].isalpha():
                continue
        else:
            k = 'z' + ''.join(rng.choice('qvkwxz') for _ in range(rng.randint(1, 4)))
        if k.lower() in lows:
            continue
        lows.add(k.lower())
        return k
    return None


def minimal_tables(rng, base, n_tables):
    """tables holding EVERY minimal definition once: definition i of table j sits under a key of class (i + j) mod 3
    -> [({key: definition}, {key: key class})]"""
    keys = sorted(base)
    out = []
    for j in range(n_tables):
        lows = {k.lower() for k in base}
        used = set()
        t, cls_of = {}, {}
        order = list(MINIMAL_ALL)
        rng.shuffle(order)
        for i, body in enumerate(order):
            cls = MINIMAL_KEY_CLASSES[(i + j) % 3]
            k = minimal_key(rng, base, keys, lows, used, cls)
            if k is not None:
                t[k] = body
                cls_of[k] = cls
        out.append((t, cls_of))
    return out


def minimal_stream(ctx, ok, tables):
    rng = ctx.rng
    quick = ctx.tier == 'quick'
    cases = []          # (cfg, abbr, check, key class | 'built-in', table kind, configuration number)
    ci = 0
    model_cfgs = []
    for si, syn in enumerate(su.SYNTAXES):
        base = tables[syn]
        for j, (user, cls_of) in enumerate(minimal_tables(rng, base, 2 if quick else 6)):
            eff = dict(base)
            eff.update(user)
            scopes = [None, SCOPES[1 + (si + j) % 3]] if quick else SCOPES
            for sc in scopes:
                cfg = Cfg(syntax=syn, snippets=user, context=sc, tabstop=bool((si + j + SCOPES.index(sc)) % 2))
                if sc is None and j < (1 if quick else 2):
                    model_cfgs.append(ci)
                for k in user:
                    cases.append((cfg, k, ('key', eff, k), cls_of[k], 'all-minimal', ci))
                lows = {u.lower() for u in user}
                for k in rng.sample(sorted(base), 6):
                    if k.lower() not in lows:
                        cases.append((cfg, k, ('key', eff, k), 'built-in', 'all-minimal', ci))
                ci += 1
    # tables whose ONLY definition is a minimal one: every definition x key class in rotation, syntaxes in rotation
    for rnd in range(1 if quick else 3):
        for i, body in enumerate(MINIMAL_ALL):
            syn = su.SYNTAXES[(i + rnd) % len(su.SYNTAXES)]
            base = tables[syn]
            cls = MINIMAL_KEY_CLASSES[(i + rnd) % 3]
            k = minimal_key(rng, base, sorted(base), {x.lower() for x in base}, set(), cls)
            if k is None:
                continue
            user = {k: body}
            eff = dict(base)
            eff.update(user)
            cfg = Cfg(syntax=syn, snippets=user, context=rng.choice([None, None, None, '@@global', '@@section', '@@property']), tabstop=bool((i + rnd) % 2))
            cases.append((cfg, k, ('key', eff, k), cls, 'single-definition', ci))
            for b in rng.sample(sorted(base), 2):
                if b != k:
                    cases.append((cfg, b, ('key', eff, b), 'built-in', 'single-definition', ci))
            ci += 1
    results = su.impl_expand_many([(c[0], c[1]) for c in cases])
    nbad = 0
    for (cfg, k, check, kcls, tkind, n), r in zip(cases, results):
        ctx.count_eval()
        ctx.nontrivial(('minimal', n, cfg.key(), k))
        ctx.cover('c06:minimal-key:' + kcls)
        ctx.cover('c06:minimal-table:' + tkind)
        ctx.cover('c06:scope:' + str(cfg.context))
        ctx.cover('c06:syntax:' + cfg.syntax)
        if k in cfg.snippets:
            cover_snippet(ctx, cfg.snippets[k])
        bad = apply_check(check, cfg, r)
        if bad:
            r2 = su.impl_expand(k, cfg)          # fresh configuration
            bad = apply_check(check, cfg, r2)
            if bad:
                nbad += 1
                if nbad <= N_MINIMAL_REPORT or isinstance(bad, Finding):
                    report_plain(ctx, cfg, k, check, None, r2, bad)
    ctx.cov['minimal_definition_cases'] = {'configurations': ci, 'cases': len(cases), 'definitions': len(MINIMAL_ALL)}
    if cases:
        cfg, k, check, kcls, tkind, n = cases[-1]
        ctx.sample({'input': k, 'config': cfg.to_json(), 'impl': repr(results[-1])[:160]})
    if not ok:
        return
    # the tie: the unscoped all-minimal table of N syntaxes through the Coq model (one conversion of the table each)
    picked = set(model_cfgs[:N_MINIMAL_MODEL[ctx.tier]])
    chosen = [i for i, c in enumerate(cases) if c[5] in picked]
    res = su.coq_expand(ctx, [(cases[i][0], cases[i][1]) for i in chosen], tag='c06-minimal')
    if res is None:
        return
    dis = 0
    for i, m in zip(chosen, res):
        if m != results[i]:
            dis += 1
            if dis <= 5:
                cfg, k, check = cases[i][:3]
                ctx.say('DISAGREE css expand %r under %s\n  impl  %r\n  model %r' % (k, cfg.to_json(), results[i], m))
                v = apply_check(check, cfg, results[i])
                if not v or isinstance(v, Finding):
                    ctx.broken.append({'kind': 'correspondence', 'file': 'css-expand-minimal-definitions', 'input': k, 'config': cfg.to_json(),
                                       'impl': repr(results[i])[:300], 'model': repr(m)[:300]})
    ctx.cov['correspondence']['css_expand_minimal_definitions_model'] = {'cases': len(chosen), 'configurations': len(picked), 'disagreements': dis}


# ---------------------------------------------------------------- HOW the library is called: the shape of the config
# "Typing the key of a stylesheet snippet ..." does not depend on how much of the config the caller spells out: a config
# that leaves `syntax` to its documented default (css), has no `options` / `snippets` / `context` key, is handed over as
# a Config object or goes through expand_stylesheet describes the same configuration as the fully written dict.
BARE_SHAPE = {'syntax': 'omitted', 'options': 'omitted', 'snippets': 'omitted', 'context': 'omitted', 'global': 'auto', 'route': 'dict'}


def keyword_checks(table, k, rot=None, variants=(0,)):
    """[(typed keyword, check, finding key)] for the dash-free keywords the snippet of `k` lists"""
    kind = classify(table[k])
    if kind[0] != 'prop':
        return []
    out = []
    for kw, is_fn, listed in listed_keywords(kind[2]):
        fk = KEY_DIGIT_KW if re.search(r'\d', kw) else None
        vs = case_variants(kw)
        for vi in variants:
            v = vs[((rot or 0) + vi) % len(vs)]
            out.append((v, ('kw', kind[1], kw, is_fn, listed), fk))
    return out


def report_plain(ctx, cfg, s, check, fkey, r, bad, extra=None, label='stylesheet expand'):
    """a failing call that does not depend on anything but (configuration, abbreviation)"""
    key = bad.key if isinstance(bad, Finding) else fkey if fkey else listed_class(cfg.to_json(), s) or 'c06:%s:%s' % (cfg.key(), s)
    rp = {'input': s, 'config': cfg.to_json(), 'check': list(check[:1]) + [c for c in check[1:] if not isinstance(c, dict)],
          'impl': repr(r)[:300], 'why': str(bad)}
    rp.update(extra or {})
    written = ''
    if extra and 'shape' in extra:
        written = ' written as %r' % ({k: ('<tabstop callback>' if k == 'options' and cfg.tabstop else v) for k, v in cc.shape_config(cfg, extra['shape']).items()},)
    ctx.property_failure(key, '%s(%r) under %s%s: %s' % (label, s, cfg.to_json(), written, bad), rp)


def shape_stream(ctx, tables):
    rng = ctx.rng
    quick = ctx.tier == 'quick'
    syn = cc.DEFAULT_STYLESHEET_SYNTAX
    t = tables[syn]
    cases = []          # (cfg, shape, abbr, check, finding key, cache id)
    # {'type': 'stylesheet'} and nothing else: every key, the listed keywords (a rotating third in the quick tier)
    bare = Cfg(syntax=syn, tabstop=False)
    n = 0
    for k in t:
        cases.append((bare, BARE_SHAPE, k, ('key', t, k), None, None))
        for v, check, fk in keyword_checks(t, k, rot=n):
            n += 1
            if quick and n % 3:
                continue
            cases.append((bare, BARE_SHAPE, k + ':-'[n % 2] + v, check, fk, None))
    # the other routes, syntax left out, every scope: every key, keywords in rotation
    for ri, route in enumerate(cc.ROUTES):
        for si, scope in enumerate(SCOPES):
            if quick and route == 'dict' and scope is not None:
                continue
            cfg = Cfg(syntax=syn, context=scope, tabstop=bool((ri + si) % 2))
            shape = dict(BARE_SHAPE, route=route, options='explicit' if cfg.tabstop else 'omitted',
                         **{'global': rng.choice(['auto', 'empty']), 'context': 'none' if scope is None and rng.random() < 0.5 else 'omitted',
                            'snippets': rng.choice(['omitted', 'empty'])})
            cid = ('shape', route, scope)
            for k in t:
                cases.append((cfg, shape, k, ('key', t, k), None, cid))
                if scope in (None, '@@property'):
                    for v, check, fk in keyword_checks(t, k, rot=n):
                        n += 1
                        if n % (7 if quick else 2):
                            continue
                        cases.append((cfg, shape, k + ':-'[n % 2] + v, check, fk, cid))
    # user tables in the call config, syntax left out / written, random other keys and routes
    for ti in range(4 if quick else 30):
        user = rand_user_table(rng, t)
        tu = live_table(syn, user)
        cfg = Cfg(syntax=syn, snippets=user, context=rng.choice([None, None] + SCOPES), tabstop=rng.random() < 0.5)
        shape = cc.rand_shape(rng, cfg, syntax='omitted' if ti % 4 != 3 else 'explicit')
        cid = ('shape-user', ti)
        for k in user:
            cases.append((cfg, shape, k, ('key', tu, k), None, cid))
            if cfg.context is None and classify(user[k])[0] == 'prop':
                kind = classify(user[k])
                for kw, is_fn, listed in listed_keywords([a for a in kind[2] if '$' not in a]):
                    if not re.search(r'\d', kw):
                        cases.append((cfg, shape, k + rng.choice(':-') + rng.choice(case_variants(kw)), ('kw', kind[1], kw, is_fn, listed), None, cid))
        for k in rng.sample(sorted(t), 6):
            if k.lower() not in {u.lower() for u in user if u != k}:
                cases.append((cfg, shape, k, ('key', tu, k), None, cid))
    caches = {}
    nbad = 0
    for cfg, shape, s, check, fkey, cid in cases:
        r = cc.call_shaped(s, cfg, shape, cache=None if cid is None else caches.setdefault(cid, {}))
        ctx.count_eval()
        ctx.nontrivial(('shape', json.dumps(shape, sort_keys=True), cfg.key(), s))
        ctx.cover('c06:config-shape:' + cc.shape_name(shape))
        ctx.cover('c06:config-shape:' + ('bare {type: stylesheet}' if cid is None else 'user-table' if cid[0] == 'shape-user' else 'built-in table'))
        bad = apply_check(check, cfg, r)
        if bad and cid is not None:
            r = cc.call_shaped(s, cfg, shape)          # without the shared cache
            bad = apply_check(check, cfg, r)
        if bad:
            nbad += 1
            if nbad <= 40 or isinstance(bad, Finding) or fkey:
                report_plain(ctx, cfg, s, check, fkey, r, bad, {'shape': shape}, 'stylesheet %s with abbr=' % cc.ROUTE_TEXT[shape['route']])
    ctx.cov['config_shape_cases'] = len(cases)
    if cases:
        cfg, shape, s, check, fkey, cid = cases[-1]
        ctx.sample({'input': s, 'config': cfg.to_json(), 'shape': shape})


# ---------------------------------------------------------------- HOW the library is called: what was called before
# The statement holds for EVERY call: whatever the same Config object, or another configuration sharing the caller's
# `cache` dict, has expanded before.  A sequence is [earlier calls] + one checked call; the verdict on the checked call
# is the one the oracle gives that call on its own.
N_SEQ_REPORT = 4          # sequence-dependent failures that are minimised and reported per run
SEQ_FAILS_PER_SESSION = 3


def seq_json(kind, base, before):
    bj = base.to_json()
    return {'kind': kind, 'base': bj, 'before': [[a, None if c.to_json() == bj else c.to_json()] for a, c in before]}


def seq_from_json(o):
    base = Cfg.from_json(o.get('base', {}))
    return o.get('kind', 'config-object'), base, [(a, base if c is None else Cfg.from_json(c)) for a, c in o.get('before', [])]


class SeqState:
    def __init__(self):
        self.reported = 0
        self.sessions = 0
        self.calls = 0
        self.checked = 0
        self.dependent = 0


def seq_failure(ctx, st, kind, base, history, s, cfg, check, fkey, r, bad):
    """the checked call (s, cfg) failed after `history`; -> True when it is a failure of the sequence (not of the call alone)"""
    fresh = su.impl_expand(s, cfg)
    bad_fresh = apply_check(check, cfg, fresh)
    if bad_fresh:
        report_plain(ctx, cfg, s, check, fkey, fresh, bad_fresh)          # fails on its own: the sequence is not needed
        return False
    st.dependent += 1
    if st.reported >= N_SEQ_REPORT:
        return True
    st.reported += 1

    def fails(before):
        return bool(apply_check(check, cfg, cc.run_sequence(kind, base, before, s, cfg)))
    before = list(history)
    if fails(before):
        before = cc.minimise(before, fails)
    r_min = cc.run_sequence(kind, base, before, s, cfg)
    calls = ' ; '.join('expand(%r)' % a for a, _ in before[:6]) + (' ; ...' if len(before) > 6 else '')
    ctx.property_failure(
        'c06:sequence:%s:%s:%s' % (kind, cfg.key(), s),
        'stylesheet expand(%r) under %s AFTER %d earlier call(s) [%s] through %s: %s -- the same call on a fresh configuration is right (%r)' % (
            s, cfg.to_json(), len(before), calls,
            'the same Config object' if kind != 'shared-cache' else 'configurations sharing one cache dict', bad, fresh),
        {'input': s, 'config': cfg.to_json(), 'check': list(check[:1]) + [c for c in check[1:] if not isinstance(c, dict)],
         'sequence': seq_json(kind, base, before), 'impl': repr(r_min)[:300], 'fresh': repr(fresh)[:300], 'why': str(bad)})
    return True


def snippet_keywords(v):
    kind = classify(v)
    return cc.keyword_names(kind[2]) if kind[0] == 'prop' else []


def run_session(ctx, st, kind, base, steps):
    """steps: iterable of ('noise', abbr, cfg, class) | ('check', abbr, cfg, check, finding key)"""
    sess = cc.Session(kind, base)
    history = []
    fails = 0
    st.sessions += 1
    ctx.cover('c06:sequence:' + kind)
    for step in steps:
        what, s, cfg = step[0], step[1], step[2]
        if kind != 'shared-cache':
            cfg = base
        r = sess.call(s, cfg)
        st.calls += 1
        if what == 'noise':
            ctx.cover('c06:sequence-earlier-call:' + step[3])
        else:
            check, fkey = step[3], step[4]
            st.checked += 1
            ctx.count_eval()
            ctx.nontrivial(('seq', st.sessions, len(history), s))
            ctx.cover('c06:sequence-checked-call:' + ('key' if check[0] == 'key' else 'keyword'))
            bad = apply_check(check, cfg, r)
            if bad and seq_failure(ctx, st, kind, base, history, s, cfg, check, fkey, r, bad):
                fails += 1
                if fails >= SEQ_FAILS_PER_SESSION:
                    break          # the session's state is spoilt; what follows adds nothing
        history.append((s, cfg))
    return history


def sweep_steps(rng, table, cfgs, all_variants):
    """EARLIER: for every key one typed value of a random kind and, for every function keyword its snippet lists, one call
    that gives that keyword explicit arguments.  THEN: every key and every listed dash-free keyword after `:` and `-`."""
    pick = lambda: rng.choice(cfgs)          # noqa
    for k, v in table.items():
        kws = snippet_keywords(v)
        a, cls = cc.typed_values(rng, k, kws)
        yield ('noise', a, pick(), cls)
        for name, is_fn in kws:
            if is_fn:
                yield ('noise', cc.fn_call_typed(rng, k, name), pick(), 'listed-call-with-arguments')
    n = 0
    for k in table:
        cfg = pick()
        yield ('check', k, cfg, ('key', table, k), None)
        n += 1
        for vi in (range(5) if all_variants else (0,)):
            for typed, check, fk in keyword_checks(table, k, rot=n, variants=(vi,)):
                cfg = pick()
                if cfg.context in (None, '@@property'):
                    for conn in ':-':
                        yield ('check', k + conn + typed, cfg, check, fk)


def random_steps(rng, table, user, cfgs, length):
    """focus on a few keys (so that earlier and checked calls meet in the same snippets), earlier and checked calls mixed"""
    with_fn = [k for k, v in table.items() if any(f for _, f in snippet_keywords(v))]
    focus = list(user)[:3] + rng.sample(with_fn, min(len(with_fn), rng.randint(1, 3))) + rng.sample(sorted(table), rng.randint(1, 3))
    focus = [k for k in dict.fromkeys(focus) if k.lower() not in {u.lower() for u in user if u != k}]
    for _ in range(length):
        k = rng.choice(focus)
        cfg = rng.choice(cfgs)
        if rng.random() < 0.5:
            a, cls = cc.typed_values(rng, k, snippet_keywords(table[k]))
            yield ('noise', a, cfg, cls)
            continue
        kind = classify(table[k])
        if kind[0] == 'prop' and cfg.context in (None, '@@property') and rng.random() < 0.7:
            alts = kind[2] if k not in user else [a for a in kind[2] if '$' not in a]
            kws = [x for x in listed_keywords(alts) if k not in user or not re.search(r'\d', x[0])]
            if kws:
                kw, is_fn, listed = rng.choice(kws)
                yield ('check', k + rng.choice(':-') + rng.choice(case_variants(kw)), cfg, ('kw', kind[1], kw, is_fn, listed),
                       KEY_DIGIT_KW if re.search(r'\d', kw) else None)
                continue
        yield ('check', k, cfg, ('key', table, k), None)


def sequence_stream(ctx, tables):
    rng = ctx.rng
    quick = ctx.tier == 'quick'
    st = SeqState()
    # 1. sweeps over the whole built-in table
    plan = [('config-object', 'css')] if quick else [('config-object', 'css'), ('shared-cache', 'css'), ('config-object', 'stylus'),
                                                     ('config-object-no-cache', 'css'), ('shared-cache', 'scss')]
    for kind, syn in plan:
        base = Cfg(syntax=syn, tabstop=True)
        cfgs = [base]
        if kind == 'shared-cache':
            cfgs = [Cfg(syntax=x, context=sc, tabstop=tb) for x in su.SYNTAXES if tables[x] == tables[syn]
                    for sc in (None, None, '@@property', '@@global') for tb in (True, False)]
        if kind == 'config-object-no-cache' and quick:
            continue
        run_session(ctx, st, kind, base, sweep_steps(rng, tables[syn], cfgs, not quick))
    # 2. random sessions: every kind, user tables, scopes, callbacks
    for i in range(12 if quick else 120):
        kind = cc.SESSION_KINDS[i % 3] if i % 4 else 'shared-cache'
        syn = rng.choice(su.SYNTAXES)
        user = rand_user_table(rng, tables[syn]) if rng.random() < 0.4 else {}
        user.pop(GRADIENT_KEY, None)
        table = live_table(syn, user)
        base = Cfg(syntax=syn, snippets=user, context=rng.choice([None, None, None, '@@property', '@@global', '@@section']), tabstop=rng.random() < 0.5)
        cfgs = [base]
        if kind == 'shared-cache':
            # the same user table under other syntaxes / scopes / callbacks (the built-in part of the table is the same for
            # every stylesheet syntax: checked here, not assumed)
            for _ in range(3):
                x = rng.choice(su.SYNTAXES)
                if live_table(x, user) == table:
                    cfgs.append(Cfg(syntax=x, snippets=user, context=rng.choice([None, None, '@@property', '@@global']), tabstop=rng.random() < 0.5))
        steps = list(random_steps(rng, table, user, cfgs, rng.randint(25, 60) if kind != 'config-object-no-cache' else rng.randint(10, 20)))
        if kind == 'shared-cache' and rng.random() < 0.5:
            # a call with ANOTHER table through the same cache in between (the cache is rebuilt for it and for the next call)
            other = Cfg(syntax=rng.choice(su.SYNTAXES), snippets=rand_user_table(rng, tables[syn]), tabstop=True)
            for _ in range(rng.randint(1, 3)):
                k = rng.choice(sorted(tables[syn]))
                steps.insert(rng.randrange(len(steps) + 1), ('noise', cc.typed_values(rng, k, snippet_keywords(tables[syn][k]))[0], other, 'other-table-through-the-same-cache'))
        run_session(ctx, st, kind, base, steps)
    ctx.cov['call_sequences'] = {'sessions': st.sessions, 'calls': st.calls, 'checked_calls': st.checked, 'sequence_dependent_failures': st.dependent}


def value_verdict(cfg, k, src, kind, r):
    if r[0] != 'ok':
        return 'expand raised %r' % (r,)
    if kind == 'prop':
        return value_oracle(src, cfg, r[1], r[2])
    return raw_oracle(src, r[1], cfg.tabstop)


def replay(ctx, obj):
    rp = obj.get('replay', obj)
    s = rp.get('input')
    if s is None:
        print('replay names a broken obligation, no input: %s' % rp)
        return 1
    cfg = Cfg.from_json(rp.get('config', {}))
    if rp.get('check', [''])[0] == 'layered':
        glob = rp.get('global_config', {})
        layers = {'type': glob.get('stylesheet', {}).get('snippets', {}), 'syntax': glob.get(cfg.syntax, {}).get('snippets', {}),
                  'call': cfg.snippets}
        eff, merged = layered_effective(live_table(cfg.syntax), layers)
        r = impl_layered(s, cfg, glob, cfg.snippets, None, rp.get('shape'))
        bad = apply_check(('key', eff, s), cfg, r)
        known = isinstance(bad, Finding) and ctx.match_known(bad.key)
        print('css expand(%r, %s, global_config=%r)%s -> %r : %s%s' % (s, cfg.to_json(), glob, ' written as %s' % rp['shape'] if rp.get('shape') else '',
                                                                         r, bad or 'property holds', ' (listed finding %s)' % bad.key if known else ''))
        return 1 if bad and not known else 0
    if rp.get('check', [''])[0] == 'value':
        src = cfg.snippets.get(s, '')
        kind = classify(src)[0]
        r = cu.impl_run(s, cu.cfg_user_config(cfg), cfg.tabstop, None)
        bad = value_verdict(cfg, s, src, kind, r)
        known = isinstance(bad, Finding) and ctx.match_known(bad.key)
        print('css expand(%r) with snippet %r under %s -> %r : %s%s' % (s, src, {'syntax': cfg.syntax, 'tabstop': cfg.tabstop, 'context': cfg.context}, r[1] if r[0] == 'ok' else r,
                                                                    bad or 'property holds', ' (listed finding %s)' % bad.key if known else ''))
        return 1 if bad and not known else 0
    t = live_table(cfg.syntax, cfg.snippets)
    chk = rp.get('check', ['key'])
    if chk[0] == 'key':
        key = chk[1] if len(chk) > 1 and isinstance(chk[1], str) else s
        check = ('key', t, key)
    else:
        check = tuple(chk)
    if 'shared_cache_first_scope' in rp:
        r = shared_cache_run(s, cfg, rp['shared_cache_first_scope'])
        print('one cache dict first used under scope %r, then:' % (rp['shared_cache_first_scope'],))
    elif 'sequence' in rp:
        kind, base, before = seq_from_json(rp['sequence'])
        r = cc.run_sequence(kind, base, before, s, cfg)
        print('%s; earlier calls: %s; then:' % ('one Config object %s reused' % base.to_json() if kind != 'shared-cache' else 'config dicts sharing one cache dict',
                                                ', '.join('expand(%r)' % a for a, _ in before)))
    elif 'shape' in rp:
        r = cc.call_shaped(s, cfg, rp['shape'])
        print('config written as %s (%r):' % (rp['shape'], {k: v for k, v in cc.shape_config(cfg, rp['shape']).items() if k != 'options'}))
    else:
        r = su.impl_expand(s, cfg)
    bad = apply_check(check, cfg, r)
    known = isinstance(bad, Finding) and ctx.match_known(bad.key)
    print('css expand(%r) under %s -> %r : %s%s' % (s, cfg.to_json(), r, bad or 'property holds', ' (listed finding %s)' % bad.key if known else ''))
    return 1 if bad and not known else 0
