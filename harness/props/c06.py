"""C06 -- A stylesheet snippet is always reachable by its own key.

Obligations: coq/props/C06.v (complete vm_compute sweeps over the regenerated built-in table: every key, every
letters-only keyword in five letter cases; for ALL tables: exact key wins, score is case-invariant, user snippets
override, scope filter).

Search (property oracle, independent of the model; works on the RAW snippet text of Config(...).snippets):
  * key of a property snippet -> `<property><between><first listed alternative | a tabstop><after>` (the value is
    compared with the listed text with tabstop wrappers removed and white space ignored: how tokens are spaced is
    the formatter's business, C05); key of a raw snippet -> its body, tabstops included;
  * `<key>:<KEYWORD>` / `<key>-<KEYWORD>` for every dash-free keyword listed by the snippet, in lower / UPPER /
    mixed case -> `<property><between><keyword as listed><after>` (a listed function: the call as listed);
  * scopes: @@section may only produce raw snippets, @@property only property lines;
  * random user tables: overriding and new keys (near-collisions made of repeated letters) reach the user's text;
  * user VALUE snippets (harness/cssvalues_gen.py): `prop:alt1|alt2|..` whose first alternative has 1-5 tokens (keywords,
    numbers with units, colours, strings, calls with 0-3 arguments nested once), with and without explicit fields, under
    every syntax and both field callbacks.  The oracle reads only the snippet's SOURCE STRING with a tokenizer of its own:
    the line is `<property><between><tokens separated by single blanks, call arguments by ", "><after>`, every leaf token
    wrapped in a tabstop numbered 1..k in document order iff >= 2 alternatives and no explicit field; the
    (index, placeholder) pairs handed to output.field are checked too (the only observable of the wrapping under the
    library's default callback);
  * user RAW snippets print their body, every line break included.  Known finding
    c06:raw-linebreak-before-field-or-end: a line break immediately before a tabstop / at the end of the body is lost
    (exactly that class, and only when the output is the body without those breaks; anything else is a violation).
Tie: every case also goes through the Coq model of the whole pipeline (output string compared; for the value stream the
callback events -- text and field invocations with offset, line, column -- of run/StyleEvents.v)."""
import glob
import json
import os
import re

import common
import style_util as su
import css_stream_util as cu
import cssvalues_gen as vg
from style_util import Cfg

RE_PROP = re.compile(r'^([a-z-]+)(?:\s*:\s*([^\n\r;]+?);*)?$')
BETWEEN_AFTER = {'css': (': ', ';'), 'scss': (': ', ';'), 'less': (': ', ';'), 'sass': (': ', ''), 'sss': (': ', ';'),
                 'stylus': (' ', '')}
SCOPES = [None, '@@global', '@@section', '@@property']
KEY_DIGIT_KW = 'c06:keyword-with-digit'
KEY_RAW_LB = 'c06:raw-linebreak-before-field-or-end'


# ---------------------------------------------------------------- reading the raw snippet text
def classify(value):
    """('prop', property, [alternatives]) | ('raw', body)"""
    m = RE_PROP.match(value)
    if not m:
        return ('raw', value)
    return ('prop', m.group(1), m.group(2).split('|') if m.group(2) else [])


def plain(text):
    """remove tabstop wrappers: ${n} -> '', ${n:ph} -> ph (nested wrappers too)"""
    out = []
    i = 0
    stack = 0
    while i < len(text):
        m = re.match(r'\$\{\d+(:?)', text[i:])
        if m:
            rest = text[i + m.end():]
            if m.group(1) == ':':
                stack += 1
                i += m.end()
                continue
            if rest.startswith('}'):
                i += m.end() + 1
                continue
        if text[i] == '}' and stack:
            stack -= 1
            i += 1
            continue
        out.append(text[i])
        i += 1
    return ''.join(out)


def squash(text):
    return re.sub(r'\s+', '', text)


def listed_keywords(alts):
    """dash-free keywords listed by a property snippet: maximal runs of word characters and dashes outside quotes,
    not starting with a digit, not part of a #colour, containing no dash.  -> [(keyword, is_function, listed text)]"""
    out = []
    seen = set()
    for alt in alts:
        body = re.sub(r'"[^"]*"|\'[^\']*\'', lambda m: ' ' * len(m.group(0)), alt)
        for m in re.finditer(r'[A-Za-z0-9_-]+', body):
            w = m.group(0)
            if '-' in w or w[0].isdigit() or not re.match(r'[A-Za-z_]', w):
                continue
            pre = body[:m.start()]
            if pre.count('(') > pre.count(')'):
                continue          # inside the parentheses of a listed function: an argument, not a keyword of the property
            if pre.endswith('#') or re.search(r'#\$\{\d+:$', pre) or pre.endswith('\\'):
                continue
            if re.search(r'\$\{$', pre):
                continue
            is_fn = body[m.end():m.end() + 1] == '('
            if w.lower() in seen:
                continue
            seen.add(w.lower())
            listed = w
            if is_fn:
                depth = 0
                j = m.end()
                while j < len(alt):
                    if alt[j] == '(':
                        depth += 1
                    elif alt[j] == ')':
                        depth -= 1
                        if depth == 0:
                            break
                    j += 1
                listed = alt[m.start():j + 1]
            out.append((w, is_fn, listed))
    return out


def case_variants(kw):
    alt1 = ''.join(c.upper() if i % 2 else c.lower() for i, c in enumerate(kw))
    alt2 = ''.join(c.lower() if i % 2 else c.upper() for i, c in enumerate(kw))
    out = []
    for v in (kw, kw.lower(), kw.upper(), alt1, alt2):
        if v not in out:
            out.append(v)
    return out


# ---------------------------------------------------------------- the statement on one result
def split_line(out, prop, between, after):
    if not out.startswith(prop + between):
        return None
    body = out[len(prop + between):]
    if after:
        if not body.endswith(after):
            return None
        body = body[:-len(after)]
    return body


def raw_text(body, tabstop=True):
    """what a raw body must print: line breaks (CR, LF, CRLF) become the configured newline (default "\\n", no base
    indent), every one of them; tabstops go through the field callback"""
    return vg.raw_expected(body, tabstop)


def raw_text_lossy(body, tabstop=True):
    """what the implementation prints for the listed finding: a literal segment loses the line break it ends with"""
    return vg.raw_expected(body, tabstop, lossy=True)


class Finding:
    """an oracle verdict that belongs to a listed finding class (key) -- reported through ctx.property_failure(key, ..)"""

    def __init__(self, key, why):
        self.key = key
        self.why = why

    def __str__(self):
        return self.why


def raw_oracle(body, out, tabstop):
    want = raw_text(body, tabstop)
    if out == want:
        return None
    why = 'raw snippet: expected its body %r, got %r' % (want, out)
    if vg.raw_in_finding_class(body) and out == raw_text_lossy(body, tabstop):
        return Finding(KEY_RAW_LB, why)
    return why


def key_oracle(table, key, cfg, r):
    """expand(key) under cfg against the raw text of table[key]; None, a description, or a Finding"""
    if r[0] != 'ok':
        return 'expand raised %r' % (r,)
    out = r[1]
    between, after = BETWEEN_AFTER[cfg.syntax]
    kind = classify(table[key])
    raws = [f(v, cfg.tabstop) for v in table.values() if classify(v)[0] == 'raw' for f in (raw_text, raw_text_lossy)]
    scope = cfg.context
    if scope == '@@section':
        if kind[0] == 'raw':
            return raw_oracle(kind[1], out, cfg.tabstop)
        if out == '' or out in raws:
            return None
        return '@@section scope produced %r, which is not a raw snippet' % (out,)
    if scope == '@@property':
        if kind[0] == 'raw':
            if out == '' or (out not in raws and re.match(r'^[a-z-]+' + re.escape(between), out) and out.endswith(after)):
                return None
            return '@@property scope produced %r, which is not a property line' % (out,)
    if kind[0] == 'raw':
        return raw_oracle(kind[1], out, cfg.tabstop)
    _, prop, alts = kind
    val = split_line(out, prop, between, after)
    if val is None:
        return 'expected a line %r...%r, got %r' % (prop + between, after, out)
    if not alts:
        if re.fullmatch(r'\$\{\d+\}', val) if cfg.tabstop else val == '':
            return None
        return 'no value listed: expected a tabstop, got %r' % (val,)
    if squash(plain(val)) != squash(plain(alts[0])):
        return 'expected the first listed value %r, got %r' % (alts[0], val)
    return None


def value_oracle(source, cfg, final, events):
    """a user VALUE snippet: exact line and exact output.field invocations, both read off the source string"""
    between, after = BETWEEN_AFTER[cfg.syntax]
    short_hex = cfg.options.get('stylesheet.shortHex', True)
    try:
        want = vg.expected_line(source, between, after, cfg.tabstop, short_hex)
        want_fields = vg.expected_fields(source, short_hex)
    except vg.Unreadable as e:
        return 'oracle cannot read the snippet %r: %s' % (source, e)
    if final != want:
        return 'snippet %r: expected %r, got %r' % (source, want, final)
    if events is not None:
        got = [(e[1], e[2]) for e in events if e[0] == 'field']
        if got != want_fields:
            return 'snippet %r: output.field must be called with %r, was called with %r' % (source, want_fields, got)
    return None


def keyword_oracle(prop, kw, is_fn, listed, cfg, r):
    if r[0] != 'ok':
        return 'expand raised %r' % (r,)
    between, after = BETWEEN_AFTER[cfg.syntax]
    val = split_line(r[1], prop, between, after)
    if val is None:
        return 'expected a line %r...%r, got %r' % (prop + between, after, r[1])
    want = squash(plain(listed))
    if squash(plain(val)) != want:
        return 'expected the listed keyword %r, got %r' % (listed, val)
    if plain(val) != plain(val).strip():
        return 'the keyword is written with surrounding blanks: %r (between %r and %r)' % (val, prop + between, after)
    return None


# ---------------------------------------------------------------- user tables
def rand_user_table(rng, base):
    """(table, [(key, kind)]) : overriding keys, new keys, near-collisions of repeated letters"""
    t = {}
    props = ['margin', 'foo-bar', 'x-y-z', 'color', 'grid-area', 'my-prop']
    values = ['', 'auto', 'a|b|c', '${1:x} ${2:y}', 'none|${1:some}', 'url(${0})', 'f(${1:a}, ${2:b})|g()', '10px', '#${1:fff}',
              '"q r"', 'a b c|d', 'inherit|initial|unset']
    bodies = ['x ${1} y ${2:z}', '@rule ${1:name} {\n\t${0}\n}', '/* ${0} */', 'foo(${1:a}) bar', 'plain text', '${1:only}',
              'form\x0cfeed ${1}', 'ls\u2028ps\u2029 ${1:x}\x0b\x85y', 'cr\rlf\r\nend']
    keys = list(base)

    def rand_snip():
        if rng.random() < 0.7:
            p = rng.choice(props)
            v = rng.choice(values)
            return p + (':' + v if v else '')
        return rng.choice(bodies)

    lows = {k.lower() for k in keys}
    for _ in range(rng.randint(1, 3)):        # overrides
        t[rng.choice(keys)] = rand_snip()
    for _ in range(rng.randint(2, 6)):        # new keys
        k = rng.random()
        if k < 0.4:
            base_k = rng.choice(keys)
            i = rng.choice([j for j, ch in enumerate(base_k) if ch.isalpha()])
            nk = base_k[:i] + base_k[i] * rng.randint(1, 3) + base_k[i:]          # repeated letters
            # (only letters are repeated: a key must be something the abbreviation grammar reads as ONE name;
            #  `@@kf` is two tokens, the statement does not speak about such keys)
        elif k < 0.6:
            nk = rng.choice(['annii', 'acddd', 'abcd', 'aab', 'aabb', 'zzz', 'pp', 'mmm', 'posi', 'bdd'])
        elif k < 0.8:
            nk = rng.choice(keys) + rng.choice('abcdxyz')
        else:
            nk = ''.join(rng.choice('abcdmpxz') for _ in range(rng.randint(2, 6)))
        if nk.lower() in lows and nk not in base:
            continue
        lows.add(nk.lower())
        t[nk] = rand_snip()
    return t


def corpus(ctx):
    out = []
    for p in sorted(glob.glob(os.path.join(common.VERIF, 'corpus', 'C06', '*.json'))):
        try:
            with open(p) as f:
                o = json.load(f)
        except Exception:
            continue
        if isinstance(o.get('key'), str):
            out.append(o)
    return out


# ---------------------------------------------------------------- run
def live_table(syntax, user=None):
    from emmet.config import Config
    c = {'type': 'stylesheet', 'syntax': syntax}
    if user:
        c['snippets'] = dict(user)
    return dict(Config(c).snippets)


def gen(ctx):
    """cases: (cfg, abbr, check) where check(r) -> None | description ; plus a tag and a finding key (or None)"""
    rng = ctx.rng
    quick = ctx.tier == 'quick'
    cases = []
    tables = {syn: live_table(syn) for syn in su.SYNTAXES}
    # corpus: keys with their table
    for o in corpus(ctx):
        cfg = Cfg.from_json(o.get('config', {}))
        cfg.tabstop = True
        t = live_table(cfg.syntax, cfg.snippets)
        k = o['key']
        if k in t:
            cases.append((cfg, k, ('key', t, k), 'corpus', None))
    # every key x syntax x scope
    for syn in su.SYNTAXES:
        t = tables[syn]
        for scope in SCOPES:
            cfg = Cfg(syntax=syn, context=scope, tabstop=True)
            for k in t:
                cases.append((cfg, k, ('key', t, k), 'key', None))
    # every keyword x letter case; css with both connectors, the other syntaxes rotate
    for si, syn in enumerate(su.SYNTAXES):
        t = tables[syn]
        for scope in (None, '@@property'):
            if scope and quick and syn != 'css':
                continue
            cfg = Cfg(syntax=syn, context=scope, tabstop=False)
            n = 0
            for k, v in t.items():
                kind = classify(v)
                if kind[0] != 'prop':
                    continue
                for kw, is_fn, listed in listed_keywords(kind[2]):
                    fk = KEY_DIGIT_KW if re.search(r'\d', kw) else None
                    variants = case_variants(kw)
                    for vi, var in enumerate(variants):
                        n += 1
                        if syn != 'css' and quick and (n + si) % 5:
                            continue
                        for conn in (':', '-'):
                            if syn != 'css' and conn == '-' and vi:
                                continue
                            cases.append((cfg, k + conn + var, ('kw', kind[1], kw, is_fn, listed), 'keyword', fk))
    # tie only (no oracle: the statement is silent about inexact abbreviations, the theorems are not): fuzzy
    # abbreviations that exercise the scorer -- a key with a character dropped / doubled / appended, key + the
    # first letters of a keyword, keyword prefixes and acronyms of dashed keywords after the delimiter
    t = tables['css']
    fz = []
    for k, v in t.items():
        kind = classify(v)
        if len(k) > 1:
            i = rng.randrange(len(k))
            fz.append(k[:i] + k[i + 1:])
        fz.append(k + rng.choice('abcdefghilmnoprstuvwxyz'))
        if kind[0] == 'prop':
            for ai, alt in enumerate(kind[2]):
                w = re.match(r'[a-z-]+', alt)
                if not w:
                    continue
                w = w.group(0)
                acr = ''.join(p[0] for p in w.split('-') if p)
                if '-' in w:
                    fz.append(k + ':' + acr)          # acronym of a dashed keyword: the scorer's acronym bonus
                if ai >= (3 if quick else 12):
                    continue
                fz.append(k + acr)
                if '-' not in w:
                    fz.append(k + ':' + acr)
                fz.append(k + ':' + w[:rng.randint(1, max(1, len(w) - 1))])
                if len(w) > 3:
                    j = rng.randrange(1, len(w))
                    fz.append(k + '-' + w[:j] + w[j + 1:])
    cfgs = [Cfg(tabstop=True), Cfg(options={'stylesheet.fuzzySearchMinScore': 0.3}), Cfg(context='@@property'),
            Cfg(syntax='stylus', options={'stylesheet.fuzzySearchMinScore': 0.7, 'stylesheet.skipUnmatched': False})]
    for i, a in enumerate(fz):
        cases.append((cfgs[0] if quick and i % 3 else cfgs[i % len(cfgs)], a, None, 'fuzzy-tie-only', None))
    # user tables
    n_tab = 6 if quick else 40
    for _ in range(n_tab):
        syn = rng.choice(su.SYNTAXES)
        user = rand_user_table(rng, tables[syn])
        t = live_table(syn, user)
        for scope in (None, rng.choice(SCOPES)):
            cfg = Cfg(syntax=syn, snippets=user, context=scope, tabstop=True)
            for k in user:
                cases.append((cfg, k, ('key', t, k), 'user-key', None))
            for k in rng.sample(sorted(tables[syn]), 12 if quick else 40):
                if k.lower() in {u.lower() for u in user if u != k}:
                    continue          # the user added the same name in another letter case: names not distinct
                cases.append((cfg, k, ('key', t, k), 'user-table-builtin-key', None))
    return cases


def apply_check(check, cfg, r):
    if check is None:
        return None
    if check[0] == 'key':
        return key_oracle(check[1], check[2], cfg, r)
    return keyword_oracle(check[1], check[2], check[3], check[4], cfg, r)


def shared_cache_scopes(ctx, cases):
    """`A context scope restricts matching to the permitted kind of snippet` also when one `cache` dict is shared by
    configurations that differ in their scope: first a call under scope s1 fills the cache, then the case's own
    configuration (scope s2) uses it; the case's check must still hold."""
    from emmet import expand
    sample = [(cfg, s, check, fkey) for cfg, s, check, tag, fkey in cases
              if cfg.syntax == 'css' and not cfg.snippets and not cfg.options and s in SHARED_CACHE_KEYS and check and check[0] == 'key']
    n = 0
    for cfg, s, check, fkey in sample:
        for s1 in [None] + list(SCOPES):
            if s1 == cfg.context:
                continue
            cache = {}
            first = Cfg(syntax='css', context=s1, tabstop=cfg.tabstop).impl_config()
            first['cache'] = cache
            second = cfg.impl_config()
            second['cache'] = cache
            try:
                expand('m10' if s1 != '@@section' else '@m', first)
            except Exception:
                pass
            try:
                r = ('ok', expand(s, second))
            except Exception as e:
                r = su.classify_exc(e, len(s))
            n += 1
            ctx.count_eval()
            ctx.cover('c06:shared-cache-across-scopes')
            bad = apply_check(check, cfg, r)
            if isinstance(bad, Finding):
                ctx.property_failure(bad.key, str(bad), {'input': s, 'config': cfg.to_json(), 'check': list(check[:1])})
                continue
            if bad and not (fkey and ctx.match_known(fkey)):
                ctx.property_failure('c06:shared-cache:%s:%s:%s' % (s1, cfg.context, s),
                                     'stylesheet expand(%r) under scope %r through a cache dict first used under scope %r: %s' % (s, cfg.context, s1, bad),
                                     {'input': s, 'config': cfg.to_json(), 'shared_cache_first_scope': s1, 'check': list(check[:1]), 'impl': repr(r)[:300], 'why': bad})
    ctx.cov['shared_cache_scope_sequences'] = n


SHARED_CACHE_KEYS = ('m', 'p', 'bd', 'pos', '@m', '@f', '@kf', 'c', 'fz', 'd')


def run(ctx):
    ok = ctx.build(['props/C06.vo', 'run/StyleShow.vo'])
    if ok:
        su.obligations(ctx, 'props/C06.v')
    ctx.cov['rule'] = (
        'EXHAUSTIVE over Config({type: stylesheet, syntax: s}).snippets: every key x 6 syntaxes x scopes {none, @@global, @@section, '
        '@@property}; every dash-free keyword listed by a property snippet (read from the raw snippet text) after `:` and `-` in '
        'listed/lower/UPPER/two alternating cases (all for css, a rotating fifth for the other syntaxes in the quick tier); random user '
        'tables (1-3 overriding keys, 2-6 new keys incl. built-in keys with repeated letters and known score-1.0 collisions) with every '
        'user key and a sample of built-in keys; fuzzy abbreviations (character dropped/appended, keyword prefixes and acronyms) '
        'under 4 configurations for the model tie only; user VALUE snippets (cssvalues_gen: 1-4 alternatives, first of 1-5 tokens over '
        'keywords / numbers with units / #colours / strings / calls with 0-3 arguments nested once, with and without explicit fields, '
        'irregular blanks) and RAW bodies with line breaks around tabstops, 40 (quick) / 400 (thorough) tables x {tabstop, identity} '
        'callback, syntaxes css/scss/sass/less/stylus in rotation, scopes none/@@global/@@property, shortHex off in 15%%: exact line and '
        'exact output.field invocations expected from the SOURCE STRING by the oracle\'s own tokenizer.  Oracle: raw snippet text vs '
        'output (see module docstring).  Tie: output string of the Coq model; callback events for the value stream.  Non-trivial: every '
        'case; distinct by (configuration, abbreviation).')
    cases = gen(ctx)
    pairs = [(c, s) for c, s, _, _, _ in cases]
    impl = su.impl_expand_many(pairs)
    for (cfg, s, check, tag, fkey), r in zip(cases, impl):
        ctx.count_eval()
        ctx.nontrivial((cfg.key(), s))
        ctx.cover('c06:' + tag)
        ctx.cover('c06:scope:' + str(cfg.context))
        ctx.cover('c06:syntax:' + cfg.syntax)
        bad = apply_check(check, cfg, r)
        if bad:
            r2 = su.impl_expand(s, cfg)          # fresh configuration, no shared cache
            bad = apply_check(check, cfg, r2)
            if bad:
                key = bad.key if isinstance(bad, Finding) else fkey if fkey else 'c06:%s:%s' % (cfg.key(), s)
                bad = str(bad)
                ctx.property_failure(key, 'stylesheet expand(%r) under %s: %s' % (s, cfg.to_json(), bad),
                                     {'input': s, 'config': cfg.to_json(), 'check': list(check[:1]) + [c for c in check[1:] if not isinstance(c, dict)],  # noqa
                                      'impl': repr(r2)[:300], 'why': bad})
    shared_cache_scopes(ctx, cases)
    value_stream(ctx, ok, {syn: live_table(syn) for syn in VALUE_SYNTAXES})
    for (cfg, s, check, tag, fkey), r in list(zip(cases, impl))[-5:]:
        ctx.sample({'input': s, 'config': cfg.to_json(), 'impl': repr(r)[:160]})
    runner = su.ImplRunner()
    chk_cases = pairs[:150] + pairs[-150:]
    chk = [runner.expand(s, c) for c, s in chk_cases]
    runner.selfcheck(ctx, chk_cases, chk, rate=0.1)
    if not ok:
        return
    res = su.coq_expand(ctx, pairs, tag='c06')
    if res is not None:
        dis = 0
        for (cfg, s, check, tag, fkey), r, m in zip(cases, impl, res):
            if m != r:
                dis += 1
                if dis <= 5:
                    ctx.say('DISAGREE css expand %r under %s\n  impl  %r\n  model %r' % (s, cfg.to_json(), r, m))
                    v = apply_check(check, cfg, r)
                    if not v or isinstance(v, Finding):
                        ctx.broken.append({'kind': 'correspondence', 'file': 'css-expand', 'input': s, 'config': cfg.to_json(),
                                           'impl': repr(r)[:300], 'model': repr(m)[:300]})
        ctx.cov['correspondence']['css_expand_full_model'] = {'cases': len(cases), 'disagreements': dis}


# ---------------------------------------------------------------- user VALUE / RAW snippets
VALUE_SYNTAXES = ['css', 'scss', 'sass', 'less', 'stylus']
OVERRIDE_KEYS = ['m', 'p', 'bd', 'c', 'bg', 'trs', 'ff', 'd', 'pos', 'w', 'fz', 'bxsh']


def rand_value_table(rng, base, size=None):
    """a user table of value snippets (and a few raw bodies) under overriding and new keys -> {key: source}"""
    t = {}
    lows = set()
    base_low = {k.lower() for k in base}
    n = size or rng.randint(6, 10)
    while len(t) < n:
        r = rng.random()
        if r < 0.2:
            k = rng.choice(OVERRIDE_KEYS)
        elif r < 0.35:
            b = rng.choice(OVERRIDE_KEYS)
            i = rng.randrange(len(b))
            k = b[:i] + b[i] * rng.randint(1, 2) + b[i:]
        else:
            k = ''.join(rng.choice('abcdmpxzqv') for _ in range(rng.randint(2, 6)))
        if k.lower() in lows or k == 'lg' or (k.lower() in base_low and k not in base):
            continue
        lows.add(k.lower())
        if rng.random() < 0.15:
            t[k] = rng.choice(vg.RAW_BODIES)
        else:
            t[k] = vg.gen_snippet(rng, canonical=rng.random() < 0.85)[0]
    return t


def value_cases(ctx, tables):
    """[(cfg, key, source, kind, through the model?)]: the corpus and the first (large) tables also go through the model"""
    rng = ctx.rng
    quick = ctx.tier == 'quick'
    cases = []
    # corpus: user value/raw snippets of past failures, both callbacks
    for o in corpus(ctx):
        c0 = Cfg.from_json(o.get('config', {}))
        if o['key'] in c0.snippets:
            for tab in (True, False):
                cfg = Cfg(c0.syntax, c0.options, c0.snippets, c0.context, tab)
                src = c0.snippets[o['key']]
                cases.append((cfg, o['key'], src, classify(src)[0], True))
    n_model = 8 if quick else 40          # one conversion of the whole table inside Coq per configuration (2 per table)
    n_tab = n_model + (32 if quick else 400)
    for ti in range(n_tab):
        syn = VALUE_SYNTAXES[ti % len(VALUE_SYNTAXES)]
        user = rand_value_table(rng, tables[syn], 28 if ti < n_model else None)
        opts = {}
        if rng.random() < 0.15:
            opts['stylesheet.shortHex'] = False
        scope = rng.choice([None, None, None, '@@global', '@@property'])
        for tab in (True, False):
            cfg = Cfg(syntax=syn, options=opts, snippets=user, context=scope, tabstop=tab)
            for k, src in user.items():
                kind = classify(src)[0]
                if kind == 'raw' and scope == '@@property':
                    continue
                cases.append((cfg, k, src, kind, ti < n_model))
    return cases


def value_stream(ctx, ok, tables):
    quick = ctx.tier == 'quick'
    cases = value_cases(ctx, tables)
    caches = {}
    results = []
    for cfg, k, src, kind, _ in cases:
        ck = cfg.key()
        r = cu.impl_run(k, cu.cfg_user_config(cfg), cfg.tabstop, caches.setdefault(ck, {}))
        results.append(r)
        ctx.count_eval()
        ctx.nontrivial((ck, k))
        ctx.cover('c06:user-%s-snippet' % ('value' if kind == 'prop' else 'raw'))
        ctx.cover('c06:syntax:' + cfg.syntax)
        ctx.cover('c06:callback:' + ('tabstop' if cfg.tabstop else 'identity'))
        if kind == 'prop':
            try:
                alts = vg.split_alts(vg.RE_SNIPPET.match(src).group(2))
                toks = vg.read_tokens(alts[0], 0, '')[0] if alts[0].strip() else []
                ctx.cover('c06:value:alts=%d' % min(len(alts), 4))
                ctx.cover('c06:value:' + vg.shape(toks) + (',fields' if vg.toks_have_field(toks) else ''))
            except Exception:
                ctx.cover('c06:value:unreadable')
        bad = value_verdict(cfg, k, src, kind, r)
        if bad:
            fresh = cu.impl_run(k, cu.cfg_user_config(cfg), cfg.tabstop, None)
            bad = value_verdict(cfg, k, src, kind, fresh)
            if bad:
                key = bad.key if isinstance(bad, Finding) else 'c06:value:%s:%s' % (ck, k)
                ctx.property_failure(key, 'stylesheet expand(%r) under %s: %s' % (k, cfg.to_json(), bad),
                                     {'input': k, 'config': cfg.to_json(), 'check': ['value'], 'impl': repr(fresh[:2])[:300],
                                      'why': str(bad)})
    for (cfg, k, src, kind, _), r in list(zip(cases, results))[-3:]:
        ctx.sample({'input': k, 'snippet': src, 'config': {'syntax': cfg.syntax, 'tabstop': cfg.tabstop}, 'impl': repr(r[1])[:160] if r[0] == 'ok' else repr(r)[:160]})
    if not ok:
        return
    # the tie: callback events (hence the full string) of the model of the whole pipeline
    chosen = [i for i, c in enumerate(cases) if c[4]]
    seen = {cases[i][0].key() for i in chosen}
    res = cu.coq_events(ctx, [(cases[i][0], cases[i][1]) for i in chosen], tag='c06-ev')
    if res is None:
        return
    dis = 0
    for i, mo in zip(chosen, res):
        cfg, k, src, kind, _ = cases[i]
        r = results[i]
        if r[0] == 'ok':
            same = mo == ('ok', cu.canon_events(r[2])) and ''.join(e[1] if e[0] == 'text' else e[2] for e in mo[1]) == r[1]
        else:
            same = r[0] == 'err' and mo[0] == 'err' and tuple(mo[1:]) == tuple(r[1:])
        if not same:
            dis += 1
            if dis <= 5:
                ctx.say('DISAGREE css events %r (snippet %r) under %s\n  impl  %r\n  model %r' % (
                    k, src, cfg.to_json(), (r[1], cu.canon_events(r[2])[:12]) if r[0] == 'ok' else r, mo[1][:12] if mo[0] == 'ok' else mo))
                v = value_verdict(cfg, k, src, kind, r)
                if not v or isinstance(v, Finding):
                    ctx.broken.append({'kind': 'correspondence', 'file': 'css-expand-events', 'input': k, 'config': cfg.to_json(),
                                       'impl': repr(r[1:3])[:400], 'model': repr(mo)[:400]})
    ctx.cov['correspondence']['css_value_snippets_events_model'] = {'cases': len(chosen), 'configurations': len(seen), 'disagreements': dis}


def value_verdict(cfg, k, src, kind, r):
    if r[0] != 'ok':
        return 'expand raised %r' % (r,)
    if kind == 'prop':
        return value_oracle(src, cfg, r[1], r[2])
    return raw_oracle(src, r[1], cfg.tabstop)


def replay(ctx, obj):
    rp = obj.get('replay', obj)
    s = rp.get('input')
    if s is None:
        print('replay names a broken obligation, no input: %s' % rp)
        return 1
    cfg = Cfg.from_json(rp.get('config', {}))
    if rp.get('check', [''])[0] == 'value':
        src = cfg.snippets.get(s, '')
        kind = classify(src)[0]
        r = cu.impl_run(s, cu.cfg_user_config(cfg), cfg.tabstop, None)
        bad = value_verdict(cfg, s, src, kind, r)
        known = isinstance(bad, Finding) and ctx.match_known(bad.key)
        print('css expand(%r) with snippet %r under %s -> %r : %s%s' % (s, src, {'syntax': cfg.syntax, 'tabstop': cfg.tabstop, 'context': cfg.context}, r[1] if r[0] == 'ok' else r,
                                                                    bad or 'property holds', ' (listed finding %s)' % bad.key if known else ''))
        return 1 if bad and not known else 0
    t = live_table(cfg.syntax, cfg.snippets)
    chk = rp.get('check', ['key'])
    if chk[0] == 'key':
        key = chk[1] if len(chk) > 1 and isinstance(chk[1], str) else s
        check = ('key', t, key)
    else:
        check = tuple(chk)
    r = su.impl_expand(s, cfg)
    bad = apply_check(check, cfg, r)
    known = isinstance(bad, Finding) and ctx.match_known(bad.key)
    print('css expand(%r) under %s -> %r : %s%s' % (s, cfg.to_json(), r, bad or 'property holds', ' (listed finding %s)' % bad.key if known else ''))
    return 1 if bad and not known else 0
