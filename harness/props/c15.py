"""C15 -- HAML, Pug and Slim output has one line per element at its depth.

Three parts, every generated case goes through all of them:
  ORACLE (independent of the Coq model): the abbreviation is generated as an AST; its own denotation
    (abbr_gen.denote_stmt/unroll) gives the expected lines `indent^depth ++ head ++ value`, multi-line text as
    one line per text line one level deeper with the syntax's marks; the output must be exactly these lines.
    The tree recovered from the indentation of the output must equal the tree recovered (tag parser) from the
    HTML output of the same abbreviation.
  TIE: the whole output string (and, on a subset, every output.text/output.field callback event with offset,
    line, column) of emmet.expand is compared with the extracted Coq model (coq/model/FormatIndent.v on top of
    the markup pipeline model).
  THEOREMS: coq/props/C15.v.
  LAYERS (stream C15layers): the same oracle with the indent string given through the layers of a configuration (call
    options, global entry of the type `markup`, global entry of the syntax), expand(abbr, config, global_config) and
    expand(abbr, Config(config, global_config)); the precedence is restated in this file (effective_config).
  REPLAYS: a reported input is re-run in a fresh process; when it fails only after earlier calls of the stream, those
    calls are stored with it (settle_replays) and replay() performs them first.
"""
import json
import os
import re

import abbr_gen as g
from common import enc_str
from markup_util import run_cases, impl_expand, canon_cfg, enc_config, decode_res, NotModelled, mentions_lorem

HERE = os.path.dirname(os.path.abspath(__file__))
VERIF = os.path.dirname(os.path.dirname(HERE))

# per-syntax punctuation, restated from the HAML / Pug / Slim syntaxes (not read from the implementation)
SYN = {
    'haml': dict(before_name='%', before_attr='(', after_attr=')', glue=' ', before_text='', after_text=' |',
                 boolean='true', self_close='/'),
    'pug': dict(before_name='', before_attr='(', after_attr=')', glue=', ', before_text='| ', after_text='',
                boolean='', self_close=''),
    'slim': dict(before_name='', before_attr=' ', after_attr='', glue=' ', before_text='| ', after_text='',
                 boolean='', self_close='/'),
}
SYNTAXES = ['haml', 'pug', 'slim']
INDENTS = ['\t', '  ', '    ', '--', ' \t', '\t\t', '~~~', ' ']
BOOLEAN_NAMES = {'disabled', 'checked', 'hidden', 'required', 'readonly', 'selected', 'multiple'}
NAME_RE = re.compile(r'[A-Za-z0-9_:\-]+')
LINE_SPLIT = re.compile(r'\r\n|\r|\n')


def cfg_of(syntax, indent):
    return {'syntax': syntax, 'options': {'output.indent': indent}}


# ---------------------------------------------------------------- denotation of one element line
def attr_text(a, S):
    n, v, q = a
    if n.endswith('.') or (v is None and n.lower() in BOOLEAN_NAMES):
        n = n[:-1] if n.endswith('.') else n
        return n + ('=' + S['boolean'] if S['boolean'] else '')
    if v is None:
        return n + '=""'
    if q == '{':
        return n + '={' + v + '}'
    return n + '="' + v + '"'


def head_of(name, el, S):
    """`name#id.class.class` + attribute list; `div` omitted iff an id or a class is present."""
    has_primary = el.id is not None or bool(el.classes)
    h = ''
    if not (name == 'div' and has_primary):
        h += S['before_name'] + name
    if el.id is not None:
        h += '#' + el.id
    for c in el.classes:
        h += '.' + c
    # a class/id attribute written without a value carries no class/id: it is not part of the line
    parts = [attr_text(a, S) for a in el.attrs if not (a[0] in ('class', 'id') and a[1] is None)]
    if parts:
        h += S['before_attr'] + S['glue'].join(parts) + S['after_attr']
    return h


def text_lines_of(text):
    """the lines of a text: split at line breaks; a trailing line break does not open another line"""
    tl = LINE_SPLIT.split(text)
    if len(tl) > 1 and tl[-1] == '':
        tl.pop()
    return tl


def expected_lines(tree, syntax, indent, d=0):
    S = SYN[syntax]
    out = []
    for name, el, cs, kids in tree:
        head = indent * d + head_of(name, el, S)
        if el.self_close and el.text is None and not kids:
            out.append(head + S['self_close'])
        elif el.text is None:
            out.append(head if kids else head + ' ')
        else:
            tl = text_lines_of(el.text)
            if len(tl) == 1:
                out.append(head + ' ' + tl[0])
            else:
                out.append(head)
                width = max(len(t) for t in tl)
                for t in tl:
                    ln = indent * (d + 1) + S['before_text'] + t
                    if S['after_text']:
                        ln += ' ' * (width - len(t)) + S['after_text']
                    out.append(ln)
        out.extend(expected_lines(kids, syntax, indent, d + 1))
    return out


# ---------------------------------------------------------------- observers of the output
def recover_tree(out, syntax, indent):
    """(depth, name) of every element line, read off the indentation; text lines (haml: `... |`,
    pug/slim: `| ...`) are skipped.  Returns (list, error)."""
    res = []
    for line in out.split('\n'):
        d = 0
        if syntax == 'haml' and line.endswith(' |'):
            continue
        while indent and line.startswith(indent):
            line = line[len(indent):]
            d += 1
        if syntax == 'haml':
            if line[:1] == '%':
                m = NAME_RE.match(line, 1)
                if not m:
                    return res, 'no element name in line %r' % line
                res.append((d, m.group(0)))
            elif line[:1] in ('#', '.'):
                res.append((d, 'div'))
            else:
                return res, 'line %r is not an element line' % line
        else:
            if line[:1] == '|':
                continue
            m = NAME_RE.match(line)
            if m:
                res.append((d, m.group(0)))
            elif line[:1] in ('#', '.'):
                res.append((d, 'div'))
            else:
                return res, 'line %r is not an element line' % line
    return res, None


def oracle(abbr, cfg, meta, r):
    if r[0] != 'ok':
        return 'expand did not return a string: %r' % (r,)
    out = r[1]
    syntax = cfg['syntax']
    indent = cfg.get('options', {}).get('output.indent', '\t')
    exp = meta.get('lines') if meta else None
    if exp is not None:
        got = out.split('\n')
        if meta.get('ci_names'):
            # output.tagCase: whether the indent formats apply it to names is not part of the statement; the line
            # structure and the omission of `div` are -- compare without regard to letter case
            got = [x.lower() for x in got]
            exp = [x.lower() for x in exp]
        if got != exp:
            k = 0
            while k < min(len(got), len(exp)) and got[k] == exp[k]:
                k += 1
            return 'lines differ from the denoted lines at line %d: got %r, denoted %r (of %d/%d lines)' % (
                k, got[k] if k < len(got) else None, exp[k] if k < len(exp) else None, len(got), len(exp))
    if meta and meta.get('elem_depths') is not None and indent:
        # abbreviations with text-only nodes (whose own layout the statement does not define): every ELEMENT still
        # stands on its own line at its depth in the tree
        pre = '%' if syntax == 'haml' else ''
        got = []
        for line in out.split('\n'):
            d = 0
            while line.startswith(indent):
                line = line[len(indent):]
                d += 1
            for nm in ELEM_VOCAB:
                if line.startswith(pre + nm) and (len(line) == len(pre + nm) or not (line[len(pre + nm)].isalnum() or line[len(pre + nm)] in '-_:')):
                    got.append((d, nm))
                    break
        if got != [tuple(x) for x in meta['elem_depths']]:
            return 'element lines (depth, name) %r differ from the tree %r' % (got, meta['elem_depths'])
    if meta and meta.get('tree') and indent:
        tree, err = recover_tree(out, syntax, indent)
        if err:
            return 'cannot read the tree off the indentation: ' + err
        # xhtml style so that a self-closed element is written `<x />` (the tag parser's leaf criterion)
        hcfg = {'syntax': 'html', 'options': dict(cfg['options'], **{'output.selfClosingStyle': 'xhtml'})}
        h = impl_expand(abbr, hcfg)
        if h[0] != 'ok':
            return 'html expand failed: %r' % (h,)
        htree, depth = g.html_preorder(h[1])
        if depth != 0:
            return 'unbalanced tags in HTML output %r' % h[1]
        if tree != htree:
            return 'tree from indentation %r differs from tree of the HTML output %r' % (tree[:12], htree[:12])
    return None


# ---------------------------------------------------------------- HTML side: tag chunks (format_events)
def chunk_tags(events):
    """open/close events read off the chunks pushed by the formatter (one chunk = one output.text call)."""
    out = []
    for e in events:
        if e[0] == 'text':
            s = e[1]
            if len(s) >= 2 and s[0] == '<':
                if s[1] == '/':
                    out.append(('close', s[2:-1]))
                elif s[1] != '!':
                    out.append(('open', s[1:]))
    return out


def denoted_events(tree):
    out = []
    for name, el, cs, kids in tree:
        out.append(('open', name))
        if not (el.self_close and el.text is None and not kids):
            out.extend(denoted_events(kids))
            out.append(('close', name))
    return out


def oracle_html(abbr, cfg, meta, r):
    if r[0] != 'ok':
        return 'expand did not return a string: %r' % (r,)
    got = chunk_tags(r[2])
    if got != meta['events']:
        k = 0
        while k < min(len(got), len(meta['events'])) and got[k] == meta['events'][k]:
            k += 1
        return 'tag chunks of the HTML output differ from the open/close events of the denoted tree at %d: got %r, denoted %r' % (
            k, got[k:k + 3], meta['events'][k:k + 3])
    return None


def check_chunks(ctx, hsub):
    from markup_util import impl_events
    bad = 0
    for abbr, cfg, meta in hsub:
        r = impl_events(abbr, cfg)
        why = oracle_html(abbr, cfg, meta, r)
        if why:
            bad += 1
            if bad <= 3:
                ctx.say('CHUNKS %r %s: %s' % (abbr, canon_cfg(cfg), why))
                ctx.broken.append({'kind': 'correspondence', 'file': 'html-tag-chunks', 'input': abbr, 'config': canon_cfg(cfg), 'why': why})
    c = ctx.cov['correspondence'].setdefault('html_tag_chunks_vs_denotation', {'cases': 0, 'disagreements': 0})
    c['cases'] += len(hsub)
    c['disagreements'] += bad


HTML_OPTS = [{}, {'output.format': False}, {'output.selfClosingStyle': 'xhtml'}, {'output.selfClosingStyle': 'xml', 'output.indent': '  '},
             {'output.formatLeafNode': True, 'output.newline': '\r\n'}, {'output.inlineBreak': 1, 'output.baseIndent': '  '},
             {'output.formatSkip': ['section', 'p'], 'output.formatForce': ['em', 'span']}, {'output.inlineBreak': 0, 'output.indent': ''},
             {'output.attributeQuotes': 'single', 'output.compactBoolean': True, 'output.reverseAttributes': True}]


# ---------------------------------------------------------------- generators
TEXT_FIRST = 'abcxyzTQ09é日'
TEXT_REST = TEXT_FIRST + '      ,;:!?-_()\'"@&*+=/~[].#%'
VAL_UNQ = 'abcxyz019-_'
VAL_Q = VAL_UNQ + '   .:/,;é'
IDENT = ['a', 'b1', 'main', 'x-y', 'item', 'c_d', 'Q', 'nav2', 'z9-']
ATTR_NAMES = ['title', 'data-x', 'href', 'for', 'role', 'x:y', 'aria-label', 'T', 'd', 's', 'a', 'i', 'c', 'as', 'l', 'si', 'classes', 'ids']


def rand_word(rng, first, rest, lo, hi):
    n = rng.randint(lo, hi)
    return rng.choice(first) + ''.join(rng.choice(rest) for _ in range(n - 1))


# characters str.splitlines() breaks at but the formatter must not (fixes 8453eaf / eb70875): ordinary characters
ODD_BREAKS = ['\f', '\v', '\u2028', '\u0085', '\x1c', '\u2029']


def rand_line(rng):
    s = rand_word(rng, TEXT_FIRST, TEXT_REST, 1, 12)
    if rng.random() < 0.12:
        k = rng.randint(1, len(s))
        s = s[:k] + rng.choice(ODD_BREAKS) + s[k:]
    return s


def rand_text(rng, multiline):
    if not multiline:
        return rand_line(rng) + ('\n' if rng.random() < 0.05 else '')
    k = rng.choice([2, 2, 3, 4, 6])
    seps = rng.choice([['\n'], ['\n'], ['\r\n'], ['\r'], ['\n', '\r\n', '\r']])
    s = rand_line(rng)
    for _ in range(k - 1):
        nxt = rand_line(rng) if rng.random() < 0.9 else ''
        s += rng.choice(seps) + nxt
    if LINE_SPLIT.split(s)[-1] == '' and rng.random() < 0.8:
        s += 'z'          # mostly no trailing line break
    return s


def rand_attrs(rng):
    k = rng.choice([1, 1, 2, 3])
    names = rng.sample(ATTR_NAMES, k)
    out = []
    for n in names:
        c = rng.random()
        if c < 0.3:
            out.append((n, rand_word(rng, VAL_UNQ, VAL_UNQ, 1, 6), ''))
        elif c < 0.6:
            out.append((n, rand_word(rng, VAL_UNQ, VAL_Q, 1, 9), rng.choice(['"', "'"])))
        elif c < 0.7:
            out.append((n, rand_word(rng, 'abc', 'abc.1', 1, 5), '{'))
        elif c < 0.8:
            out.append((n, None, ''))
        elif c < 0.9:
            out.append((rng.choice(['disabled', 'checked', 'hidden']), None, ''))
        else:
            out.append((n + '.', None, ''))
    # attribute names must be distinct (merging is C03's subject)
    seen = set()
    res = []
    for a in out:
        key = a[0].rstrip('.')
        if key not in seen:
            seen.add(key)
            res.append(a)
    return res


def decorate_el(rng, el, has_child, p=1.0):
    """ids, classes, attributes, text, self-closing on one element."""
    if rng.random() < 0.35 * p:
        el.classes = rng.sample(IDENT, rng.choice([1, 1, 2, 3]))
        if rng.random() < 0.3:
            el.name = None
    if rng.random() < 0.2 * p:
        el.id = rng.choice(IDENT)
        if not el.classes and rng.random() < 0.2:
            el.name = None
    if rng.random() < 0.1 * p and el.name is not None:
        el.name = 'div'
    if rng.random() < 0.3 * p:
        el.attrs = rand_attrs(rng)
        # a class / id attribute without a value (only where no class / id is written: merging is C03's subject)
        if rng.random() < 0.06:
            if not el.classes and rng.random() < 0.5:
                el.attrs.append(('class', None, ''))
            elif el.id is None:
                el.attrs.append(('id', None, ''))
    c = rng.random()
    if c < 0.2 * p:
        el.text = rand_text(rng, False)
    elif c < 0.32 * p:
        el.text = rand_text(rng, True)
    elif c < 0.42 * p and not has_child and el.name is not None:
        el.self_close = True


def decorate_stmt(rng, stmt, p=1.0):
    for unit, op in stmt:
        if isinstance(unit, g.Group):
            decorate_stmt(rng, unit.items, p)
        else:
            decorate_el(rng, unit, op == '>', p)


def has_multiline(stmt):
    for unit, _ in stmt:
        if isinstance(unit, g.Group):
            if has_multiline(unit.items):
                return True
        elif unit.text is not None and len(text_lines_of(unit.text)) > 1:
            return True
    return False


def deep_stmt(rng, names, budget, depth=0):
    """Like abbr_gen.rand_stmt but biased towards nesting: `>` most of the time, short climbs."""
    stmt = []
    i = 0
    n = max(1, budget)
    while i < n:
        if depth < 3 and n - i >= 2 and rng.random() < 0.15:
            k = rng.randint(1, min(4, n - i))
            unit = g.Group(deep_stmt(rng, names, k, depth + 1), repeat=rng.choice([None, None, 2]))
            i += k
        else:
            unit = g.El(name=rng.choice(names), repeat=rng.choice([None, None, None, None, 2, 3]))
            i += 1
        if i >= n:
            op = ''
        elif isinstance(unit, g.Group):
            op = rng.choice(['+', '+', '^'])
        else:
            op = rng.choice(['>', '>', '>', '>', '>', '+', '+', '^', '^^'])
        stmt.append((unit, op))
    return stmt


def load_corpus():
    d = os.path.join(VERIF, 'corpus', 'C15')
    out = []
    if os.path.isdir(d):
        for fn in sorted(os.listdir(d)):
            if fn.endswith('.json'):
                with open(os.path.join(d, fn)) as f:
                    o = json.load(f)
                out.append(o)
    return out


ELEM_VOCAB = ['section', 'div', 'ul', 'li', 'em', 'p', 'i']
TEXT_NODE_CASES = [
    ('div>{a\nb}+p>i', [(0, 'div'), (1, 'p'), (2, 'i')]),
    ('{a\nb}+ul>li', [(0, 'ul'), (1, 'li')]),
    ('div>{a\nb}+ul>li*2', [(0, 'div'), (1, 'ul'), (2, 'li'), (2, 'li')]),
    ('section>p>{x\ny\nz}+em^div>i', [(0, 'section'), (1, 'p'), (2, 'em'), (1, 'div'), (2, 'i')]),
    ('ul>li>{a\nb}^li>{c\nd}+p', [(0, 'ul'), (1, 'li'), (1, 'li'), (2, 'p')]),
    ('{a\nb}+{c\nd}+div>p', [(0, 'div'), (1, 'p')]),
]


def gen(ctx):
    names = g.safe_names()
    g.load_inline()
    rng = ctx.rng
    cases = []
    del POOL[:]

    def add(stmt, syntax, indent, bucket):
        abbr = g.render(stmt)
        tree = g.unroll(g.denote_stmt(stmt))
        lines = expected_lines(tree, syntax, indent)
        POOL.append((abbr, tree, bucket))
        cases.append((abbr, cfg_of(syntax, indent), {'lines': lines, 'tree': True, 'events': denoted_events(tree)}))
        ctx.cover('gen:' + bucket)
        ctx.cover('syntax:' + syntax)
        ctx.cover('indent:%r' % indent)
        if any(ch in abbr for ch in ODD_BREAKS):
            ctx.cover('text-with-\\f-\\v-U+2028-U+0085')
        ctx.cover('lines:%s' % ('1' if len(lines) == 1 else '2-5' if len(lines) <= 5 else '6-20' if len(lines) <= 20 else '21+'))
        if has_multiline(stmt):
            ctx.cover('multi-line-text')
        depth = max(d for d, _ in g.preorder(tree)) if tree else 0
        ctx.cover('depth:%s' % (depth if depth < 4 else '4+'))
        if len(lines) >= 2:
            ctx.nontrivial((abbr, syntax, indent))

    # 1. committed corpus (past failures), expected lines stored with the case
    for o in load_corpus():
        for syntax in o.get('syntaxes', SYNTAXES):
            exp = o['lines'][syntax]
            cases.append((o['abbr'], cfg_of(syntax, o.get('indent', '\t')), {'lines': exp, 'tree': o.get('tree', True)}))
            ctx.cover('gen:corpus')
    # 2. exhaustive operator skeletons (all mixes of > + ^ ^^, one level of groups, *2), decorations rotating
    max_units = 3 if ctx.tier == 'quick' else 4
    k = 0
    used = 0
    for n in range(1, max_units + 1):
        stmts = g.enum_stmts(n, names)
        for st in stmts:
            k += 1
            if n == 4 and k % 6 != ctx.seed % 6:
                continue
            if n == 3 and ctx.tier == 'quick' and k % 3 != ctx.seed % 3:
                continue
            decorate_stmt(rng, st, 0.7)
            used += 1
            add(st, SYNTAXES[used % 3], INDENTS[(used // 3) % len(INDENTS)], 'skeleton')
    # 3. every element shape x every syntax: the line of one element, as leaf / with a child / as a child
    shapes = []
    for name in ('div', 'p', None):
        for idv in (None, 'i1'):
            for classes in ([], ['c'], ['c', 'd-e']):
                if name is None and idv is None and not classes:
                    continue
                for attrs in ([], [('title', 'v', '')], [('title', 'a b', '"'), ('data-x', None, ''), ('k', 'e.f', '{')],
                              [('hidden', None, ''), ('t.', None, '')], [('class', None, '')]):
                    for text in (None, 'one line', 'two\nlines here', 'a\r\n\r\nc', 'a\fb\nc\u2028d\x0be', 'x\u0085y'):
                        shapes.append(dict(name=name, id=idv, classes=classes, attrs=attrs, text=text))
    for i, sh in enumerate(shapes):
        for syntax in SYNTAXES:
            ind = INDENTS[(i + len(syntax)) % len(INDENTS)]
            add([(g.El(**sh), '')], syntax, ind, 'shape-leaf')
            add([(g.El(name='section'), '>'), (g.El(**sh), '>'), (g.El(name='em'), '+'), (g.El(**sh), '')], syntax, ind, 'shape-nested')
    for syntax in SYNTAXES:
        for nm in ('p', 'div', 'custom'):
            add([(g.El(name=nm, self_close=True), '+'), (g.El(name='ul'), '>'), (g.El(name=nm, self_close=True, classes=['k']), '+'),
                 (g.El(name=None, classes=['x']), '')], syntax, '\t', 'self-close')
    # 3a. output.tagCase set: same lines (letter case of names aside), `div` still omitted when an id/class is present
    for syntax in SYNTAXES:
        for tc in ('upper', 'lower'):
            for st in ([(g.El(name='div', classes=['wrap']), '>'), (g.El(name='div', id='main'), '+'), (g.El(name='p', classes=['c']), '>'), (g.El(name='div'), '')],
                       [(g.El(name=None, classes=['x']), '>'), (g.El(name='section', id='s'), '>'), (g.El(name=None, id='k', classes=['y']), '')]):
                abbr = g.render(st)
                tree = g.unroll(g.denote_stmt(st))
                cfg = cfg_of(syntax, '\t')
                cfg['options']['output.tagCase'] = tc
                cases.append((abbr, cfg, {'lines': expected_lines(tree, syntax, '\t'), 'tree': False, 'ci_names': True}))
                ctx.cover('gen:tagCase-set')
    # 3b. text-only nodes with several lines between elements: the elements keep their lines and depths
    for abbr, depths in TEXT_NODE_CASES:
        for syntax in SYNTAXES:
            for ind in ('\t', '  '):
                cases.append((abbr, cfg_of(syntax, ind), {'lines': None, 'tree': False, 'elem_depths': depths}))
                ctx.cover('gen:text-node-between-elements')
    # 4. random statements: wide and deep, groups, repeaters
    n_rand = 2500 if ctx.tier == 'quick' else 40000
    for _ in range(n_rand):
        big = rng.random() < 0.2
        deep = rng.random() < 0.4
        if deep:
            st = deep_stmt(rng, names, rng.randint(2, 30 if big else 9))
        else:
            st = g.rand_stmt(rng, names, rng.randint(1, 40 if big else 9), max_depth=4)
        if g.total_copies(g.unroll(g.denote_stmt(st))) > 300:
            continue
        decorate_stmt(rng, st, rng.choice([0.3, 1.0, 1.0, 1.6]))
        add(st, rng.choice(SYNTAXES), rng.choice(INDENTS), ('random-deep' if deep else 'random') + ('-big' if big else ''))
    return cases


# ---------------------------------------------------------------- configurations given in layers
# "with any indent string" -- the indent string can reach the writer from three places: the options of the
# configuration passed with the call, and the two entries of the global configuration (third argument of
# emmet.expand / second of emmet.Config) that apply to the call: the entry of the syntax TYPE (`markup`) and the entry
# of the SYNTAX itself (`haml` / `pug` / `slim`).  Documented precedence (Emmet `resolveConfig` / `mergedData`:
# `{...defaultConfig[key], ...typeDefaults[key], ...syntaxDefaults[key], ...globals[type][key], ...globals[syntax][key]}`,
# then the user's own section on top): built-in default < global type entry < global syntax entry < the call's own
# options.  The documented built-in default of `output.indent` is one tab.  Entries of OTHER syntaxes and types never
# apply.  All of this is restated here, nothing is read from emmet/config.py.
POOL = []
LAYERS_ON = True
DEFAULT_INDENT = '\t'
LAYER_INDENTS = INDENTS + ['']
LAYER_NAMES = ('user', 'syntax', 'type')
SECTIONS = ('variables', 'snippets', 'options')
# what a layer that does NOT set the indent string may look like
ABSENT_FORMS = ['missing', 'missing', 'empty-entry', 'options-without-indent', 'other-sections-only', 'empty-options']
FOREIGN_KEYS = ['html', 'xml', 'stylesheet', 'css', 'jsx', 'xsl', 'scss', 'HAML', 'Markup', 'indent']


def layer_entry(form, indent):
    """one entry of the global configuration (or the user configuration's own sections)"""
    if form == 'sets-indent':
        return {'options': {'output.indent': indent}}
    if form == 'sets-indent-among-others':
        return {'variables': {'lang': 'de'}, 'options': {'output.selfClosingStyle': 'xhtml', 'output.indent': indent}}
    if form == 'empty-entry':
        return {}
    if form == 'options-without-indent':
        return {'options': {'output.selfClosingStyle': 'xhtml'}}
    if form == 'other-sections-only':
        return {'variables': {'lang': 'de'}, 'snippets': {'zzq': 'p'}}
    if form == 'empty-options':
        return {'options': {}}
    return None     # missing


def effective_config(user, glob):
    """The flat configuration a layered one stands for, by the documented precedence (see above)."""
    syntax = user['syntax']
    flat = {'syntax': syntax}
    for sec in SECTIONS:
        d = {}
        for src in (glob.get('markup') or {}, glob.get(syntax) or {}, user):
            d.update(src.get(sec) or {})
        if d:
            flat[sec] = d
    flat.setdefault('options', {}).setdefault('output.indent', DEFAULT_INDENT)
    return flat


def impl_expand_layers(abbr, user, glob, via):
    import copy
    from emmet import expand, Config
    from common import time_limit, Hang
    from markup_util import classify_exc, CALL_LIMIT_S
    try:
        with time_limit(CALL_LIMIT_S):
            if via == 'config-object':
                return ('ok', expand(abbr, Config(copy.deepcopy(user), copy.deepcopy(glob))))
            return ('ok', expand(abbr, copy.deepcopy(user), copy.deepcopy(glob)))
    except Hang:
        return ('hang', CALL_LIMIT_S)
    except Exception as e:  # noqa
        return classify_exc(e)


def make_layers(rng, syntax, mask, values, foreign=True):
    """mask: which of (user, syntax entry, type entry) set output.indent; values: their indent strings.
    Returns (user_config, global_config)."""
    user = {'syntax': syntax}
    if rng.random() < 0.3:
        user['type'] = 'markup'
    glob = {}
    for on, v, where in zip(mask, values, LAYER_NAMES):
        form = rng.choice(['sets-indent', 'sets-indent', 'sets-indent-among-others']) if on else rng.choice(ABSENT_FORMS)
        e = layer_entry(form, v)
        if e is None:
            continue
        if where == 'user':
            user.update(e)
        else:
            glob[syntax if where == 'syntax' else 'markup'] = e
    if foreign:
        # entries that do not apply to this call: other syntaxes (the other two indent syntaxes among them), the
        # stylesheet type, keys differing in letter case
        others = [s for s in SYNTAXES if s != syntax] + FOREIGN_KEYS
        for k in rng.sample(others, rng.choice([0, 1, 2, 3])):
            glob[k] = {'options': {'output.indent': rng.choice(LAYER_INDENTS + ['@@'])}}
    return user, glob


def gen_layers(ctx):
    rng = ctx.rng
    out = []
    masks = [(a, b, c) for a in (False, True) for b in (False, True) for c in (False, True)]

    def add(abbr, tree, syntax, mask, values, via, foreign, bucket):
        user, glob = make_layers(rng, syntax, mask, values, foreign)
        flat = effective_config(user, glob)
        indent = flat['options']['output.indent']
        lines = expected_lines(tree, syntax, indent)
        meta = {'lines': lines, 'tree': True}
        out.append((abbr, user, glob, via, flat, meta))
        on = [n for n, m in zip(LAYER_NAMES, mask) if m]
        ctx.cover('layers:gen:' + bucket)
        ctx.cover('layers:indent-set-in:' + ('+'.join(on) if on else 'nowhere(built-in default)'))
        ctx.cover('layers:indent-taken-from:' + (on[0] if on else 'built-in default'))
        ctx.cover('layers:call-form:' + via)
        ctx.cover('layers:effective-indent:%r' % indent)
        if len([k for k in glob if k not in ('markup', syntax)]):
            ctx.cover('layers:with-entries-of-other-syntaxes')
        if len(lines) >= 2 and (mask[1] or mask[2]):
            ctx.nontrivial((abbr, canon_cfg(user), canon_cfg(glob), via))

    # fixed trees (nesting, climbing, a group, multi-line text, a self-closing leaf): every presence mask x every
    # ORDERED pair/triple of distinct indent strings from a small set x syntax x call form
    def E(name, **kw):
        return g.El(name=name, **kw)
    fixed = [
        [(E('ul'), '>'), (E('li', repeat=2), '>'), (E('em'), '>'), (E('p'), '^^'), (E('section'), '>'), (E('div', classes=['k']), '')],
        [(E('section'), '>'), (E('p', text='one\ntwo'), '>'), (E('em'), '^'), (g.Group([(E('ul'), '>'), (E('li'), '')], repeat=2), '+'),
         (E('custom', self_close=True), '')],
    ]
    small = ['\t', '  ', '   ', '']
    k = 0
    for st in fixed:
        abbr = g.render(st)
        tree = g.unroll(g.denote_stmt(st))
        for syntax in SYNTAXES:
            for mask in masks:
                for a in small:
                    for b in small:
                        for c in small:
                            vals = (a, b, c)
                            used = [v for v, m in zip(vals, mask) if m]
                            if len(set(used)) != len(used):
                                continue
                            # values of layers that do not set the indent are not used: one representative
                            if any(v != small[0] for v, m in zip(vals, mask) if not m):
                                continue
                            k += 1
                            add(abbr, tree, syntax, mask, vals, 'config-object' if k % 4 == 0 else 'three-arguments', k % 3 == 0, 'fixed-trees-all-masks')
    # the generated abbreviations of the main stream under random layerings
    pool = [p for p in POOL if p[1]]
    n = 1200 if ctx.tier == 'quick' else 20000
    for _ in range(n):
        abbr, tree, bucket = rng.choice(pool)
        # two thirds without the call's own options setting it (then the global entries decide)
        mask = rng.choice([m for m in masks if not m[0]] if rng.random() < 0.66 else [m for m in masks if m[0]])
        if rng.random() < 0.85:
            vals = tuple(rng.sample(LAYER_INDENTS, 3))
        else:
            vals = tuple(rng.choice(LAYER_INDENTS) for _ in range(3))      # layers may agree
        add(abbr, tree, rng.choice(SYNTAXES), mask, vals, 'config-object' if rng.random() < 0.25 else 'three-arguments', True, 'generated-trees-random-layers')
    return out


def layers_key(abbr, user, glob, via):
    return 'C15layers:%s|%s|%s|%s' % (abbr, canon_cfg(user), canon_cfg(glob), via)


def layers_stage(ctx, model):
    """Oracle on every case; the model (which takes one flat configuration) is run on the flat configuration the
    layered one stands for and its text compared with the implementation's output under the layered one."""
    lcases = gen_layers(ctx)
    wires, idx, impl = [], [], []
    for k, (abbr, user, glob, via, flat, meta) in enumerate(lcases):
        r = impl_expand_layers(abbr, user, glob, via)
        impl.append(r)
        ctx.count_eval()
        ctx.cover('C15layers:%s' % (r[0] if r[0] != 'err' else 'err%d' % r[1]))
        bad = oracle(abbr, flat, meta, r)
        if bad:
            bad = 'indent string in force %r (layers: %s): %s' % (flat['options']['output.indent'], layers_text(user, glob), bad)
            ctx.property_failure(layers_key(abbr, user, glob, via),
                                 'C15layers expand(%r, %s, %s) [%s]: %s' % (abbr, canon_cfg(user), canon_cfg(glob), via, bad),
                                 {'component': 'C15layers', 'abbr': abbr, 'config': user, 'global': glob, 'via': via,
                                  'meta': meta, 'impl': repr(r)[:500], 'why': bad})
        if model is not None and not mentions_lorem(abbr, flat):
            try:
                wires.append([2] + enc_config(flat) + enc_str(abbr))
                idx.append(k)
            except NotModelled:
                ctx.cover('C15layers:not-modelled')
    dis = 0
    if wires:
        from markup_util import decode_expand
        for k, w in zip(idx, model.run(wires)):
            mo = decode_expand(w)
            if impl[k][0] == 'recursion':
                continue
            if mo != impl[k]:
                dis += 1
                if dis <= 5:
                    abbr, user, glob, via, flat, meta = lcases[k]
                    ctx.say('DISAGREE C15layers %r user=%s global=%s [%s]\n  impl  %r\n  model(flat) %r' % (
                        abbr, canon_cfg(user), canon_cfg(glob), via, str(impl[k])[:400], str(mo)[:400]))
                    ctx.broken.append({'kind': 'correspondence', 'file': 'markup-C15layers', 'input': abbr, 'config': canon_cfg(user),
                                       'global': canon_cfg(glob), 'impl': repr(impl[k])[:300], 'model': repr(mo)[:300]})
    c = ctx.cov['correspondence'].setdefault('markup_C15layers_model_on_flattened_config', {'cases': 0, 'disagreements': 0})
    c['cases'] += len(wires)
    c['disagreements'] += dis
    return lcases


def layers_text(user, glob):
    syntax = user['syntax']
    parts = []
    for nm, src in (('call options', user), ('global[%r]' % syntax, glob.get(syntax)), ("global['markup']", glob.get('markup'))):
        o = (src or {}).get('options') or {}
        if 'output.indent' in o:
            parts.append('%s=%r' % (nm, o['output.indent']))
    return ', '.join(parts) or 'none sets it'


# model/implementation correspondence outside the oracle's domain: text-only nodes, snippets, numbering, whitespace in
# class names, fields, and every output option the indent formatter reads
FRAGS = ['div', 'p', 'ul', 'li', 'span', 'a', 'em', 'img', 'br', 'input', 'x', 'h$', '>', '>', '+', '+', '^', '(', ')', '*2', '*3',
         '.c', '.c$', '#i', '[a=b]', '[a="b c"]', "[a='x']", '[a]', '[a.]', '[!a]', '[class="p  q\tr"]', '[class]', '[id]', '.d.e', '{t}',
         '{t $}', '$', '/', '{a\nb}', '{a\r\nbb\nc}', '{x\n}', '{\n}', '[t={x}]', '{${1:x}}', '{${2}}', '[a=${1}]', '[disabled]',
         '{a${1}\nb${2:q}}', '{a\fb\nc}', '{x\u2028y}', '[a="x\u0085y"]', '{p\x0bq\r\nr\x1cs}', 'label>input', 'input:t', '.', '#', '[class=""]', '{ }', '{ }', '[a="x\ny"]']
OPTS = [{}, {}, {'output.indent': '  '}, {'output.indent': '', 'output.newline': '\r\n'}, {'output.baseIndent': '>>', 'output.indent': '  '},
        {'output.tagCase': 'upper', 'output.attributeCase': 'upper'}, {'output.attributeQuotes': 'single', 'output.compactBoolean': True},
        {'output.selfClosingStyle': 'xml'}, {'output.selfClosingStyle': 'xhtml', 'output.newline': '\n\n'},
        {'output.booleanAttributes': ['a', 'x'], 'output.attributeCase': 'lower'}]
FIXED = ['div>{text}+p', '{text}>p', 'p>{a\nb}', 'p>{a\nb}+q', 'p>q{\nx}', 'p{x\n}', 'p{a}{b}', 'div[class]', 'div[id]>p', 'div.', '.', '#',
         'div[class.]', 'div.a.b#c.d#e', 'div[class=a]#b.c', 'p.a$$*2', 'p[a="x y" b=\'q\' c={e} d. e]', 'ul>.c', 'img/+br', 'a>b{t}>c',
         'input[disabled.]', 'p[class=x y]', 'ul>li.item$*3>{n $}', '(a>b)*2+c', 'p{${1:x}\n${2:yy}}']


def gen_tie(ctx):
    rng = ctx.rng
    cases = []
    for s in FIXED:
        for syntax in SYNTAXES:
            for o in OPTS:
                cases.append((s, {'syntax': syntax, 'options': dict(o)}, None))
    n = 1500 if ctx.tier == 'quick' else 25000
    for _ in range(n):
        s = ''.join(rng.choice(FRAGS) for _ in range(rng.randint(1, 7)))
        cases.append((s, {'syntax': rng.choice(SYNTAXES), 'options': dict(rng.choice(OPTS))}, None))
    return cases


RULE = ('abbreviations generated as an AST (elements with ids, classes, attributes of every value form, single- and multi-line text, '
        'self-closing, nameless elements, groups, repeaters), rendered to text; exhaustive operator skeletons up to the stated size, '
        'every element shape x syntax as leaf/parent/child, random wide and deep statements; x haml/pug/slim x 8 indent strings. '
        'Oracle: output lines = lines denoted by the AST (indent^depth ++ head ++ value; multi-line text one line per text line one '
        'level deeper with the syntax marks); tree read off the indentation = tree of the HTML output. Non-trivial = at least two '
        'lines; distinct by (abbreviation, syntax, indent). A second stream (text-only nodes, snippets, numbering, fields, all '
        'output options) is compared model vs implementation only. '
        'Layered configurations (stream C15layers): the indent string given in the call\'s own options, in the global '
        'configuration\'s entry of the syntax type (markup), in its entry of the syntax (haml/pug/slim), in any subset of the three '
        '(all 8 presence masks x all ordered choices of distinct strings from {tab, 2, 3 spaces, empty} on two fixed trees; random '
        'masks and 9 indent strings incl. the empty one on the generated abbreviations), layers that do not set it being missing / '
        'empty / holding other options or sections only, plus entries of syntaxes and types that do not apply; called as '
        'expand(abbr, config, global_config) and as expand(abbr, Config(config, global_config)). Oracle: the same denoted lines and '
        'tree comparison with the indent string in force by the documented precedence (built-in tab < global type entry < global '
        'syntax entry < call options), restated in the harness. The Coq model takes one flat configuration: for this stream it is '
        'run on the flat configuration the layered one stands for (computed by the harness) and compared with the '
        'implementation\'s output under the layered one; the layer merge itself is not modelled here.')


def spec_stage(ctx, spec, label, cases, impl):
    """The extracted SPEC (node_lines of proofs/IndentProofs.v, not the model of the code) as oracle: inside the
    theorem's domain its text must be the implementation's output; reports how many cases are in the domain."""
    wires, idx = [], []
    for k, (abbr, cfg, meta) in enumerate(cases):
        if impl[k][0] != 'ok' or mentions_lorem(abbr, cfg):
            continue
        try:
            wires.append([1] + enc_config(cfg) + enc_str(abbr))
            idx.append(k)
        except NotModelled:
            pass
    outs = spec.run(wires) if wires else []
    c = ctx.cov['correspondence'].setdefault('spec_node_lines_' + label, {'cases': 0, 'in_domain': 0, 'disagreements': 0})
    for k, w in zip(idx, outs):
        r = decode_res(w, lambda rd: (rd.bool(), rd.str()))
        c['cases'] += 1
        if r[0] != 'ok':
            c['disagreements'] += 1
            ctx.broken.append({'kind': 'correspondence', 'file': 'spec-C15', 'input': cases[k][0], 'spec': repr(r)[:200]})
            continue
        wf, text = r[1]
        if not wf:
            continue
        c['in_domain'] += 1
        if text != impl[k][1]:
            c['disagreements'] += 1
            if c['disagreements'] <= 5:
                ctx.say('SPEC DISAGREE %r cfg=%s\n  impl %r\n  spec %r' % (cases[k][0], canon_cfg(cases[k][1]), impl[k][1][:300], text[:300]))
                ctx.broken.append({'kind': 'correspondence', 'file': 'spec-C15', 'input': cases[k][0], 'config': canon_cfg(cases[k][1]),
                                   'impl': repr(impl[k][1])[:300], 'spec': repr(text)[:300]})


def nest_stage(ctx, spec, hsub):
    """nest(tree_events) of the SPEC vs the tree of the implementation's HTML output (tag parser)."""
    c = ctx.cov['correspondence'].setdefault('spec_nest_vs_html_output', {'cases': 0, 'in_domain': 0, 'disagreements': 0})
    wires, keep = [], []
    for abbr, cfg, meta in hsub:
        o = dict(cfg['options'])
        if o.get('output.selfClosingStyle', 'html') == 'html':
            o['output.selfClosingStyle'] = 'xhtml'      # a void element must be visible to the tag parser
        hc = {'syntax': 'html', 'options': o}
        try:
            wires.append([2] + enc_config(hc) + enc_str(abbr))
            keep.append((abbr, hc))
        except NotModelled:
            pass
    outs = spec.run(wires) if wires else []
    for (abbr, hc), w in zip(keep, outs):
        r = decode_res(w, lambda rd: (rd.bool(), rd.bool(), rd.list(lambda: (rd.int(), rd.str()))))
        h = impl_expand(abbr, hc)
        c['cases'] += 1
        if r[0] != 'ok' or h[0] != 'ok':
            continue
        named, clean, dl = r[1]
        if not (named and clean):
            continue
        c['in_domain'] += 1
        got, depth = g.html_preorder(h[1])
        if depth != 0 or got != dl:
            c['disagreements'] += 1
            if c['disagreements'] <= 5:
                ctx.say('NEST DISAGREE %r cfg=%s\n  html %r\n  spec %r' % (abbr, canon_cfg(hc), got[:10], dl[:10]))
                ctx.broken.append({'kind': 'correspondence', 'file': 'spec-C15-nest', 'input': abbr, 'config': canon_cfg(hc),
                                   'impl': repr(got)[:300], 'spec': repr(dl)[:300]})


def attach_meta(ctx, cases):
    """run_cases builds the replay objects; add what replay() needs to re-judge the input."""
    look = {(a, canon_cfg(c)): m for a, c, m in cases}
    for v in ctx.violations:
        rp = v.get('replay') or {}
        if rp.get('component') == 'C15' and 'abbr' in rp:
            m = look.get((rp['abbr'], canon_cfg(rp['config'])))
            if m is not None:
                rp['meta'] = m


# ---------------------------------------------------------------- replays that depend on earlier calls
# A failure found in the middle of a stream may depend on what earlier calls of the same process left behind (module
# level caches, shared default arguments).  A replay file must fail when re-run in a FRESH process: every concrete
# violation that is going to be reported is re-run that way (`./check C15 --replay`); when the input alone holds there,
# the calls that preceded it in the stream are recorded with it (`after`: the shortest tried suffix of the history
# that makes it fail again) and replay() performs them first.  Costs nothing when there is no violation.
HISTORY_TRIES = (1, 4, 16, 64, 400)


def call_of(case):
    if len(case) == 3:
        return {'abbr': case[0], 'config': case[1], 'meta': case[2]}
    abbr, user, glob, via, flat, meta = case
    return {'abbr': abbr, 'config': user, 'global': glob, 'via': via, 'meta': meta}


def judge_call(c):
    """(result, why-the-property-fails or None) of one recorded call"""
    meta = c.get('meta') or {'tree': True}
    if 'global' in c:
        r = impl_expand_layers(c['abbr'], c['config'], c['global'], c.get('via', 'three-arguments'))
        return r, oracle(c['abbr'], effective_config(c['config'], c['global']), meta, r)
    r = impl_expand(c['abbr'], c['config'])
    return r, oracle(c['abbr'], c['config'], meta, r)


def fresh_process_replay(rp):
    import subprocess
    import sys
    import tempfile
    with tempfile.NamedTemporaryFile('w', suffix='.json', delete=False) as f:
        json.dump({'property': 'C15', 'replay': rp}, f, default=str)
        path = f.name
    try:
        p = subprocess.run([sys.executable, os.path.join(VERIF, 'check'), 'C15', '--replay', path], cwd=VERIF,
                           stdout=subprocess.DEVNULL, stderr=subprocess.DEVNULL, timeout=300)
        return p.returncode
    except Exception:  # noqa
        return None
    finally:
        os.unlink(path)


def settle_replays(ctx, streams):
    conc = [v for v in ctx.violations if not v['no_input'] and (v.get('replay') or {}).get('component') in streams]
    conc.sort(key=lambda v: len(json.dumps(v['replay'], default=str)))
    first, seen = [], set()
    for v in conc:
        if v['key'] not in seen and len(first) < 10:
            seen.add(v['key'])
            first.append(v)
    changed = False
    for v in first:
        rp = v['replay']
        if fresh_process_replay(rp) != 0:
            continue            # fails on its own (or could not be re-run): nothing to add
        stream = streams[rp['component']]
        pos = None
        for k, case in enumerate(stream):
            c = call_of(case)
            if c['abbr'] == rp['abbr'] and canon_cfg(c['config']) == canon_cfg(rp['config']) and \
                    canon_cfg(c.get('global')) == canon_cfg(rp.get('global')) and c.get('via') == rp.get('via'):
                pos = k
                break
        if pos is None:
            continue
        for n in HISTORY_TRIES:
            hist = [call_of(c) for c in stream[max(0, pos - n):pos]]
            if fresh_process_replay(dict(rp, after=hist)) == 1:
                rp['after'] = hist
                changed = True
                v['what'] += ' [holds on this input in a fresh process; fails after the %d call(s) that preceded it in the stream, recorded in the replay]' % len(hist)
                ctx.cover('replay-needs-earlier-calls')
                break
            if n >= pos:
                break
        if 'after' not in rp:
            v['what'] += ' [not reproduced in a fresh process, not even after the preceding calls of the stream]'
    if changed:
        # the report lists the smallest replays first and a recorded history makes a replay longer: keep the ten that
        # were re-run in a fresh process, say how many other failing inputs there were
        rest = [v for v in conc if v not in first]
        if rest:
            ctx.say('C15: %d further failing inputs are not listed (the listed ones were re-run in a fresh process)' % len(rest))
            ctx.violations[:] = [v for v in ctx.violations if v not in rest]


def run(ctx):
    ok = ctx.build(['props/C15.vo', 'run/MarkupRun.vo', 'run/IndentRun.vo'])
    if ok:
        ctx.obligations('props/C15.v')
    model = ctx.model('markup') if ok else None
    spec = ctx.model('indent') if ok else None
    ctx.cov['rule'] = RULE
    ctx.cov['exhaustive_skeleton_units'] = '1-2 all, 3 one third (by seed)' if ctx.tier == 'quick' else '1-3 all, 4 one sixth (by seed)'
    cases = gen(ctx)
    impl = run_cases(ctx, model, cases, 'C15', oracle)
    # callback events (offset, line, column of every push) on a subset
    sub = cases[:: max(1, len(cases) // (800 if ctx.tier == 'quick' else 8000))]
    run_cases(ctx, model, sub, 'C15ev', None, mode='events')
    # HTML side of the last clause: chunk-exact model/implementation comparison under 9 option sets (ties
    # HtmlEvents.v's chunk model to the code); the tag chunks are also compared with the denoted events, as a
    # tie check only (how the output is cut into chunks is not part of the property)
    hsub = [(a, {'syntax': 'html', 'options': dict(HTML_OPTS[k % len(HTML_OPTS)])}, m)
            for k, (a, cf, m) in enumerate(cases[:: max(1, len(cases) // (1200 if ctx.tier == 'quick' else 12000))]) if 'events' in m]
    run_cases(ctx, model, hsub, 'C15html', None, mode='events')
    check_chunks(ctx, hsub)
    attach_meta(ctx, cases)
    lcases = layers_stage(ctx, model) if LAYERS_ON else []
    if ctx.violations:
        settle_replays(ctx, {'C15': cases, 'C15layers': lcases})
    tie = gen_tie(ctx)
    timpl = run_cases(ctx, model, tie, 'C15tie', None)
    if spec is not None:
        spec_stage(ctx, spec, 'generated', cases, impl)
        spec_stage(ctx, spec, 'tie_stream', tie, timpl)
        nest_stage(ctx, spec, hsub)
    shown = 0
    for (abbr, cfg, meta), r in zip(cases, impl):
        if shown < 6 and r[0] == 'ok' and len(meta['lines']) >= 4 and '\n' in abbr:
            ctx.sample({'abbr': abbr, 'config': cfg, 'output': r[1][:300]})
            shown += 1


def replay(ctx, obj):
    rp = obj.get('replay', {})
    if 'abbr' not in rp:
        print('replay names a broken obligation, no input: %s' % str(rp)[:300])
        return 1
    for c in rp.get('after') or []:
        judge_call(c)           # the earlier calls of the same process this failure depends on
    if rp.get('after'):
        print('after %d earlier call(s) in this process (first %r, last %r):' % (len(rp['after']), rp['after'][0]['abbr'], rp['after'][-1]['abbr']))
    if 'global' in rp:
        via = rp.get('via', 'three-arguments')
        r = impl_expand_layers(rp['abbr'], rp['config'], rp['global'], via)
        flat = effective_config(rp['config'], rp['global'])
        bad = oracle(rp['abbr'], flat, rp.get('meta') or {'tree': True}, r)
        print('%s: expand(%r, %r, %r) -> %r' % (via, rp['abbr'], rp['config'], rp['global'], r))
        print('indent string in force: %r (%s)' % (flat['options']['output.indent'], layers_text(rp['config'], rp['global'])))
        print('property %s' % ('FAILS: ' + bad if bad else 'holds on this input'))
        return 1 if bad else 0
    r = impl_expand(rp['abbr'], rp['config'])
    meta = rp.get('meta') or {'tree': True}
    bad = oracle(rp['abbr'], rp['config'], meta, r)
    print('expand(%r, %r) -> %r' % (rp['abbr'], rp['config'], r))
    print('property %s' % ('FAILS: ' + bad if bad else 'holds on this input'))
    return 1 if bad else 0
