"""C15 -- HAML, Pug and Slim output has one line per element at its depth.

Three parts, every generated case goes through all of them:
  ORACLE (independent of the Coq model): the abbreviation is generated as an AST; its own denotation
    (abbr_gen.denote_stmt/unroll) gives the expected lines `indent^depth ++ head ++ value`, multi-line text as
    one line per text line one level deeper with the syntax's marks; the output must be exactly these lines.
    The tree recovered from the indentation of the output must equal the tree recovered (tag parser) from the
    HTML output of the same abbreviation.
  TIE: the whole output string (and, on a subset, every output.text/output.field callback event with offset,
    line, column) of emmet.expand is compared with the extracted Coq model (coq/model/FormatIndent.v on top of
    the markup pipeline model).
  THEOREMS: coq/props/C15.v.
  SCALE / OPTIONS (gen:scale:*, gen:options:*): the same oracle on lines whose parts are repeated 8..100 times and under
    the output options that reach the line writer (their documented meaning is restated in writer_of) x every written
    form of an attribute.
  LAYERS (stream C15layers): the same oracle with the indent string given through the layers of a configuration (call
    options, global entry of the type `markup`, global entry of the syntax), expand(abbr, config, global_config) and
    expand(abbr, Config(config, global_config)); the precedence is restated in this file (effective_config).
  ROUTES (stream C15routes): the same oracle on the two-step interface -- the tree of an abbreviation obtained once
    (markup_abbreviation / emmet.markup.parse / parse_markup_abbreviation + markup_abbreviation) and written SEVERAL times
    (stringify_markup / emmet.markup.stringify / the formatter functions) as haml, pug, slim and html, with one-step calls
    (expand / expand_markup with a Config object) in between; every writing must show the denoted tree.
  SNIPPETS (stream C15snip): snippet names (built-in `!!!`, configured snippets resolving to a text-only node or to an element)
    and written text nodes at every position of generated trees, in particular text-only nodes that are PARENTS (a snippet name
    followed by `>`); oracle_snip judges every element's own line, depth and head and the tree read off the indentation.
  REPLAYS: a reported input is re-run in a fresh process; when it fails only after earlier calls of the stream, those
    calls are stored with it (settle_replays) and replay() performs them first.
"""
import copy
import json
import os
import re

import abbr_gen as g
from common import enc_str
from markup_util import run_cases, impl_expand, canon_cfg, enc_config, decode_res, NotModelled, mentions_lorem

HERE = os.path.dirname(os.path.abspath(__file__))
VERIF = os.path.dirname(os.path.dirname(HERE))

# per-syntax punctuation, restated from the HAML / Pug / Slim syntaxes (not read from the implementation)
SYN = {
    'haml': dict(before_name='%', before_attr='(', after_attr=')', glue=' ', before_text='', after_text=' |',
                 boolean='true', self_close='/'),
    'pug': dict(before_name='', before_attr='(', after_attr=')', glue=', ', before_text='| ', after_text='',
                boolean='', self_close=''),
    'slim': dict(before_name='', before_attr=' ', after_attr='', glue=' ', before_text='| ', after_text='',
                 boolean='', self_close='/'),
}
SYNTAXES = ['haml', 'pug', 'slim']
INDENTS = ['\t', '  ', '    ', '--', ' \t', '\t\t', '~~~', ' ']
# The HTML boolean attributes: the documented default of the option `output.booleanAttributes` (Emmet documentation of the
# output options / upstream src/config.ts, "output.booleanAttributes"); restated here, not read from emmet/config.py.
HTML_BOOLEAN_NAMES = ('contenteditable', 'seamless', 'async', 'autofocus', 'autoplay', 'checked', 'controls', 'defer', 'disabled',
                      'formnovalidate', 'hidden', 'ismap', 'loop', 'multiple', 'muted', 'novalidate', 'readonly', 'required',
                      'reversed', 'selected', 'typemustmatch')
BOOLEAN_NAMES = set(HTML_BOOLEAN_NAMES)
NAME_RE = re.compile(r'[A-Za-z0-9_:\-]+')
LINE_SPLIT = re.compile(r'\r\n|\r|\n')


# ---------------------------------------------------------------- output options that reach the line writer
# What the documented output options mean for a haml/pug/slim line (Emmet documentation of the options; upstream
# src/markup/format/{indent-format,haml,pug,slim}.ts and their tests), restated here:
#   output.booleanAttributes  names that are boolean attributes WHEN WRITTEN WITHOUT A VALUE (compared in lower case)
#   output.compactBoolean     a boolean attribute (no value) is written as the bare name (haml: `disabled` instead of
#                             `disabled=true`); an attribute that HAS a value is written name=value whatever its name
#   output.attributeQuotes    'single' -> '...' around quoted values, otherwise "..."; expressions keep {...}
#   output.attributeCase      'upper' / 'lower' applied to attribute names (not to ids, classes, values)
#   output.newline            the string between two lines;  output.baseIndent  added after every line break
#   output.selfClosingStyle   only pug reads it: `/` after a self-closed element for 'xml', nothing otherwise
#   output.format, formatLeafNode, formatSkip, formatForce, inlineBreak, reverseAttributes, comment.*: options of the
#                             HTML writer / of snippet merging; they do not change a haml/pug/slim line
def writer_of(options, syntax):
    o = options or {}
    ba = o.get('output.booleanAttributes')
    return {'booleans': BOOLEAN_NAMES if ba is None else set(x.lower() for x in ba),
            'compact': bool(o.get('output.compactBoolean', False)),
            'quote': "'" if o.get('output.attributeQuotes') == 'single' else '"',
            'acase': o.get('output.attributeCase') or '',
            'self_close': ('/' if o.get('output.selfClosingStyle') == 'xml' else '') if syntax == 'pug' else SYN[syntax]['self_close']}


def line_break_of(options):
    o = options or {}
    return o.get('output.newline', '\n') + o.get('output.baseIndent', '')


def is_plain_writer(options):
    return not any(k != 'output.indent' for k in (options or {}))


def cfg_of(syntax, indent):
    return {'syntax': syntax, 'options': {'output.indent': indent}}


# ---------------------------------------------------------------- denotation of one element line
def attr_text(a, S, W=None):
    W = W or writer_of(None, 'haml')
    n, v, q = a
    dotted = n.endswith('.')
    if dotted:
        n = n[:-1]
    shown = n.upper() if W['acase'] == 'upper' else n.lower() if W['acase'] == 'lower' else n
    if v is None and (dotted or n.lower() in W['booleans']):
        return shown + ('=' + S['boolean'] if S['boolean'] and not W['compact'] else '')
    if v is None:
        return shown + '=' + W['quote'] * 2
    if q == '{':
        return shown + '={' + v + '}'
    return shown + '=' + W['quote'] + v + W['quote']


def primary_of(el):
    """(id, classes) of an element: written as `#id` / `.class`, or as the value of an id / class attribute (a class
    attribute holds class names separated by white space).  Generated so that the id is written before the classes."""
    idv, classes = el.id, list(el.classes)
    for n, v, q in el.attrs:
        if v is not None and n == 'id':
            idv = v
        elif v is not None and n == 'class':
            classes += v.split()
    return idv, classes


def head_of(name, el, S, W=None):
    """`name#id.class.class` + attribute list; `div` omitted iff an id or a class is present."""
    idv, classes = primary_of(el)
    has_primary = idv is not None or bool(classes)
    h = ''
    if not (name == 'div' and has_primary):
        h += S['before_name'] + name
    if idv is not None:
        h += '#' + idv
    for c in classes:
        h += '.' + c
    # a class/id attribute written without a value carries no class/id: it is not part of the line
    parts = [attr_text(a, S, W) for a in el.attrs if a[0] not in ('class', 'id')]
    if parts:
        h += S['before_attr'] + S['glue'].join(parts) + S['after_attr']
    return h


def text_lines_of(text):
    """the lines of a text: split at line breaks; a trailing line break does not open another line"""
    tl = LINE_SPLIT.split(text)
    if len(tl) > 1 and tl[-1] == '':
        tl.pop()
    return tl


def expected_lines(tree, syntax, indent, d=0, W=None):
    S = SYN[syntax]
    W = W or writer_of(None, syntax)
    out = []
    for name, el, cs, kids in tree:
        head = indent * d + head_of(name, el, S, W)
        if el.self_close and el.text is None and not kids:
            out.append(head + W['self_close'])
        elif el.text is None:
            out.append(head if kids else head + ' ')
        else:
            tl = text_lines_of(el.text)
            if len(tl) == 1:
                out.append(head + ' ' + tl[0])
            else:
                out.append(head)
                width = max(len(t) for t in tl)
                for t in tl:
                    ln = indent * (d + 1) + S['before_text'] + t
                    if S['after_text']:
                        ln += ' ' * (width - len(t)) + S['after_text']
                    out.append(ln)
        out.extend(expected_lines(kids, syntax, indent, d + 1, W))
    return out


# ---------------------------------------------------------------- observers of the output
def recover_tree(out, syntax, indent):
    """(depth, name) of every element line, read off the indentation; text lines (haml: `... |`,
    pug/slim: `| ...`) are skipped.  Returns (list, error)."""
    res = []
    for line in out.split('\n'):
        d = 0
        if syntax == 'haml' and line.endswith(' |'):
            continue
        while indent and line.startswith(indent):
            line = line[len(indent):]
            d += 1
        if syntax == 'haml':
            if line[:1] == '%':
                m = NAME_RE.match(line, 1)
                if not m:
                    return res, 'no element name in line %r' % line
                res.append((d, m.group(0)))
            elif line[:1] in ('#', '.'):
                res.append((d, 'div'))
            else:
                return res, 'line %r is not an element line' % line
        else:
            if line[:1] == '|':
                continue
            m = NAME_RE.match(line)
            if m:
                res.append((d, m.group(0)))
            elif line[:1] in ('#', '.'):
                res.append((d, 'div'))
            else:
                return res, 'line %r is not an element line' % line
    return res, None


def oracle(abbr, cfg, meta, r):
    bad = oracle_plain(abbr, cfg, meta, r)
    if bad and BREAK_BEFORE_FIELD_ON and getattr(bad, 'key', None) is None and BREAK_BEFORE_FIELD_RE.search(abbr):
        bad = ListedVerdict(bad)
        bad.key = KEY_BREAK_BEFORE_FIELD
    return bad


def oracle_plain(abbr, cfg, meta, r):
    if meta and meta.get('snip'):
        return oracle_snip(abbr, cfg, meta, r)      # trees with snippet names / text-only nodes: see SNIPS_ON
    if r[0] != 'ok':
        return 'expand did not return a string: %r' % (r,)
    out = r[1]
    syntax = cfg['syntax']
    indent = cfg.get('options', {}).get('output.indent', '\t')
    sep = line_break_of(cfg.get('options'))
    if sep != '\n':
        # output.newline / output.baseIndent set: the lines are what stands between two `newline + baseIndent`
        pieces = out.split(sep)
        for k, piece in enumerate(pieces):
            if '\n' in piece or '\r' in piece:
                return 'line %d %r holds a line break that is not output.newline + output.baseIndent (%r)' % (k, piece, sep)
        out = '\n'.join(pieces)
    exp = meta.get('lines') if meta else None
    if exp is not None:
        got = out.split('\n')
        if meta.get('ci_names'):
            # output.tagCase: whether the indent formats apply it to names is not part of the statement; the line
            # structure and the omission of `div` are -- compare without regard to letter case
            got = [x.lower() for x in got]
            exp = [x.lower() for x in exp]
        if got != exp:
            k = 0
            while k < min(len(got), len(exp)) and got[k] == exp[k]:
                k += 1
            return 'lines differ from the denoted lines at line %d: got %r, denoted %r (of %d/%d lines)' % (
                k, got[k] if k < len(got) else None, exp[k] if k < len(exp) else None, len(got), len(exp))
    if meta and meta.get('elem_depths') is not None and indent:
        # abbreviations with text-only nodes (whose own layout the statement does not define): every ELEMENT still
        # stands on its own line at its depth in the tree
        pre = '%' if syntax == 'haml' else ''
        got = []
        for line in out.split('\n'):
            d = 0
            while line.startswith(indent):
                line = line[len(indent):]
                d += 1
            for nm in ELEM_VOCAB:
                if line.startswith(pre + nm) and (len(line) == len(pre + nm) or not (line[len(pre + nm)].isalnum() or line[len(pre + nm)] in '-_:')):
                    got.append((d, nm))
                    break
        if got != [tuple(x) for x in meta['elem_depths']]:
            return 'element lines (depth, name) %r differ from the tree %r' % (got, meta['elem_depths'])
    if meta and meta.get('tree') and indent:
        tree, err = recover_tree(out, syntax, indent)
        if err:
            return 'cannot read the tree off the indentation: ' + err
        # xhtml style so that a self-closed element is written `<x />` (the tag parser's leaf criterion)
        hcfg = {'syntax': 'html', 'options': dict(cfg['options'], **{'output.selfClosingStyle': 'xhtml'})}
        h = impl_expand(abbr, hcfg)
        if h[0] != 'ok':
            return 'html expand failed: %r' % (h,)
        htree, depth = g.html_preorder(h[1])
        if depth != 0:
            return 'unbalanced tags in HTML output %r' % h[1]
        if meta.get('ci_names'):
            tree = [(d, nm.lower()) for d, nm in tree]
            htree = [(d, nm.lower()) for d, nm in htree]
        if tree != htree:
            return 'tree from indentation %r differs from tree of the HTML output %r' % (tree[:12], htree[:12])
    return None


# ---------------------------------------------------------------- HTML side: tag chunks (format_events)
def chunk_tags(events):
    """open/close events read off the chunks pushed by the formatter (one chunk = one output.text call)."""
    out = []
    for e in events:
        if e[0] == 'text':
            s = e[1]
            if len(s) >= 2 and s[0] == '<':
                if s[1] == '/':
                    out.append(('close', s[2:-1]))
                elif s[1] != '!':
                    out.append(('open', s[1:]))
    return out


def denoted_events(tree):
    out = []
    for name, el, cs, kids in tree:
        out.append(('open', name))
        if not (el.self_close and el.text is None and not kids):
            out.extend(denoted_events(kids))
            out.append(('close', name))
    return out


def oracle_html(abbr, cfg, meta, r):
    if r[0] != 'ok':
        return 'expand did not return a string: %r' % (r,)
    got = chunk_tags(r[2])
    if got != meta['events']:
        k = 0
        while k < min(len(got), len(meta['events'])) and got[k] == meta['events'][k]:
            k += 1
        return 'tag chunks of the HTML output differ from the open/close events of the denoted tree at %d: got %r, denoted %r' % (
            k, got[k:k + 3], meta['events'][k:k + 3])
    return None


def check_chunks(ctx, hsub):
    from markup_util import impl_events
    bad = 0
    for abbr, cfg, meta in hsub:
        r = impl_events(abbr, cfg)
        why = oracle_html(abbr, cfg, meta, r)
        if why:
            bad += 1
            if bad <= 3:
                ctx.say('CHUNKS %r %s: %s' % (abbr, canon_cfg(cfg), why))
                ctx.broken.append({'kind': 'correspondence', 'file': 'html-tag-chunks', 'input': abbr, 'config': canon_cfg(cfg), 'why': why})
    c = ctx.cov['correspondence'].setdefault('html_tag_chunks_vs_denotation', {'cases': 0, 'disagreements': 0})
    c['cases'] += len(hsub)
    c['disagreements'] += bad


HTML_OPTS = [{}, {'output.format': False}, {'output.selfClosingStyle': 'xhtml'}, {'output.selfClosingStyle': 'xml', 'output.indent': '  '},
             {'output.formatLeafNode': True, 'output.newline': '\r\n'}, {'output.inlineBreak': 1, 'output.baseIndent': '  '},
             {'output.formatSkip': ['section', 'p'], 'output.formatForce': ['em', 'span']}, {'output.inlineBreak': 0, 'output.indent': ''},
             {'output.attributeQuotes': 'single', 'output.compactBoolean': True, 'output.reverseAttributes': True}]


# ---------------------------------------------------------------- generators
TEXT_FIRST = 'abcxyzTQ09é日'
TEXT_REST = TEXT_FIRST + '      ,;:!?-_()\'"@&*+=/~[].#%'
VAL_UNQ = 'abcxyz019-_'
VAL_Q = VAL_UNQ + '   .:/,;é'
IDENT = ['a', 'b1', 'main', 'x-y', 'item', 'c_d', 'Q', 'nav2', 'z9-']
ATTR_NAMES = ['title', 'data-x', 'href', 'for', 'role', 'x:y', 'aria-label', 'T', 'd', 's', 'a', 'i', 'c', 'as', 'l', 'si', 'classes', 'ids']


def rand_word(rng, first, rest, lo, hi):
    n = rng.randint(lo, hi)
    return rng.choice(first) + ''.join(rng.choice(rest) for _ in range(n - 1))


# characters str.splitlines() breaks at but the formatter must not (fixes 8453eaf / eb70875): ordinary characters
ODD_BREAKS = ['\f', '\v', '\u2028', '\u0085', '\x1c', '\u2029']


def rand_line(rng):
    s = rand_word(rng, TEXT_FIRST, TEXT_REST, 1, 12)
    if rng.random() < 0.12:
        k = rng.randint(1, len(s))
        s = s[:k] + rng.choice(ODD_BREAKS) + s[k:]
    return s


def rand_text(rng, multiline):
    if not multiline:
        return rand_line(rng) + ('\n' if rng.random() < 0.05 else '')
    k = rng.choice([2, 2, 3, 4, 6])
    seps = rng.choice([['\n'], ['\n'], ['\r\n'], ['\r'], ['\n', '\r\n', '\r']])
    s = rand_line(rng)
    for _ in range(k - 1):
        nxt = rand_line(rng) if rng.random() < 0.9 else ''
        s += rng.choice(seps) + nxt
    if LINE_SPLIT.split(s)[-1] == '' and rng.random() < 0.8:
        s += 'z'          # mostly no trailing line break
    return s


def rand_attrs(rng):
    k = rng.choice([1, 1, 2, 3])
    names = rng.sample(ATTR_NAMES, k)
    out = []
    for n in names:
        c = rng.random()
        if c < 0.3:
            out.append((n, rand_word(rng, VAL_UNQ, VAL_UNQ, 1, 6), ''))
        elif c < 0.6:
            out.append((n, rand_word(rng, VAL_UNQ, VAL_Q, 1, 9), rng.choice(['"', "'"])))
        elif c < 0.7:
            out.append((n, rand_word(rng, 'abc', 'abc.1', 1, 5), '{'))
        elif c < 0.8:
            out.append((n, None, ''))
        elif c < 0.9:
            out.append((rng.choice(['disabled', 'checked', 'hidden']), None, ''))
        else:
            out.append((n + '.', None, ''))
    # attribute names must be distinct (merging is C03's subject)
    seen = set()
    res = []
    for a in out:
        key = a[0].rstrip('.')
        if key not in seen:
            seen.add(key)
            res.append(a)
    return res


def decorate_el(rng, el, has_child, p=1.0):
    """ids, classes, attributes, text, self-closing on one element."""
    if rng.random() < 0.35 * p:
        el.classes = rng.sample(IDENT, rng.choice([1, 1, 2, 3]))
        if rng.random() < 0.3:
            el.name = None
    if rng.random() < 0.2 * p:
        el.id = rng.choice(IDENT)
        if not el.classes and rng.random() < 0.2:
            el.name = None
    if rng.random() < 0.1 * p and el.name is not None:
        el.name = 'div'
    if rng.random() < 0.3 * p:
        el.attrs = rand_attrs(rng)
        # a class / id attribute without a value (only where no class / id is written: merging is C03's subject)
        if rng.random() < 0.06:
            if not el.classes and rng.random() < 0.5:
                el.attrs.append(('class', None, ''))
            elif el.id is None:
                el.attrs.append(('id', None, ''))
    c = rng.random()
    if c < 0.2 * p:
        el.text = rand_text(rng, False)
    elif c < 0.32 * p:
        el.text = rand_text(rng, True)
    elif c < 0.42 * p and not has_child and el.name is not None:
        el.self_close = True


def decorate_stmt(rng, stmt, p=1.0):
    for unit, op in stmt:
        if isinstance(unit, g.Group):
            decorate_stmt(rng, unit.items, p)
        else:
            decorate_el(rng, unit, op == '>', p)


def has_multiline(stmt):
    for unit, _ in stmt:
        if isinstance(unit, g.Group):
            if has_multiline(unit.items):
                return True
        elif unit.text is not None and len(text_lines_of(unit.text)) > 1:
            return True
    return False


def deep_stmt(rng, names, budget, depth=0):
    """Like abbr_gen.rand_stmt but biased towards nesting: `>` most of the time, short climbs."""
    stmt = []
    i = 0
    n = max(1, budget)
    while i < n:
        if depth < 3 and n - i >= 2 and rng.random() < 0.15:
            k = rng.randint(1, min(4, n - i))
            unit = g.Group(deep_stmt(rng, names, k, depth + 1), repeat=rng.choice([None, None, 2]))
            i += k
        else:
            unit = g.El(name=rng.choice(names), repeat=rng.choice([None, None, None, None, 2, 3]))
            i += 1
        if i >= n:
            op = ''
        elif isinstance(unit, g.Group):
            op = rng.choice(['+', '+', '^'])
        else:
            op = rng.choice(['>', '>', '>', '>', '>', '+', '+', '^', '^^'])
        stmt.append((unit, op))
    return stmt


def load_corpus():
    d = os.path.join(VERIF, 'corpus', 'C15')
    out = []
    if os.path.isdir(d):
        for fn in sorted(os.listdir(d)):
            if fn.endswith('.json'):
                with open(os.path.join(d, fn)) as f:
                    o = json.load(f)
                out.append(o)
    return out


ELEM_VOCAB = ['section', 'div', 'ul', 'li', 'em', 'p', 'i']
TEXT_NODE_CASES = [
    ('div>{a\nb}+p>i', [(0, 'div'), (1, 'p'), (2, 'i')]),
    ('{a\nb}+ul>li', [(0, 'ul'), (1, 'li')]),
    ('div>{a\nb}+ul>li*2', [(0, 'div'), (1, 'ul'), (2, 'li'), (2, 'li')]),
    ('section>p>{x\ny\nz}+em^div>i', [(0, 'section'), (1, 'p'), (2, 'em'), (1, 'div'), (2, 'i')]),
    ('ul>li>{a\nb}^li>{c\nd}+p', [(0, 'ul'), (1, 'li'), (1, 'li'), (2, 'p')]),
    ('{a\nb}+{c\nd}+div>p', [(0, 'div'), (1, 'p')]),
]


# ---------------------------------------------------------------- scale: every repeatable part of a line, many times
# "All abbreviations of the documented grammar": nothing bounds how many class names, attributes, text lines, siblings,
# copies or levels an abbreviation has, how long a name is or how long the indent string is.  One part at a time is taken
# to the counts below (around 8-12, the powers of two and 100: where counters, digit counts and fixed-size limits change),
# on an element standing alone and on one that is parent, child and last leaf of a small tree; then several at once.
SCALE_ON = True
SCALE_COUNTS = [8, 9, 10, 11, 12, 16, 17, 32, 33, 64, 65, 100]
SCALE_DIMS = ['classes', 'classes-in-class-attribute', 'classes-of-nameless-div', 'attributes', 'text-lines', 'name-length',
              'siblings', 'repeat', 'group-repeat', 'depth', 'indent-length']
ATTR_FORMS = ['unquoted', 'quoted', 'single-quoted', 'expression', 'no-value', 'dotted', 'boolean-name', 'explicit-empty']


def numbered(prefix, n):
    return ['%s%d' % (prefix, i + 1) for i in range(n)]


CLASS_SEPARATORS = [' ', '  ', '\t', ' \t ', '\n', '\r\n ']


def class_value(classes, k):
    """the class names as the value of a class attribute: separated by white space (one kind per value, every third
    value mixes them)"""
    if k % 3 == 2:
        return ''.join(c + CLASS_SEPARATORS[(k + i) % len(CLASS_SEPARATORS)] for i, c in enumerate(classes[:-1])) + classes[-1]
    return CLASS_SEPARATORS[(k // 3) % len(CLASS_SEPARATORS)].join(classes)


def attr_of_form(form, name, k, rng=None):
    """one attribute (name, value, quote) of the given written form; k varies the value"""
    if form == 'unquoted':
        return (name, 'v%d' % k, '')
    if form == 'quoted':
        return (name, 'w %d x' % k, '"')
    if form == 'single-quoted':
        return (name, 'q%d,r' % k, "'")
    if form == 'expression':
        return (name, 'e.f%d' % k, '{')
    if form == 'no-value':
        return (name, None, '')
    if form == 'dotted':
        return (name + '.', None, '')
    if form == 'explicit-empty':
        return (name, '', ['"', "'", '{'][k % 3])
    raise ValueError(form)


def many_attrs(n):
    """n attributes of distinct names, the written forms in rotation (boolean attribute names of HTML among them)"""
    out = []
    for i in range(n):
        form = ATTR_FORMS[i % len(ATTR_FORMS)]
        if form == 'boolean-name':
            nm = HTML_BOOLEAN_NAMES[(i // len(ATTR_FORMS)) % len(HTML_BOOLEAN_NAMES)]
            out.append((nm, None, '') if (i // len(ATTR_FORMS)) % 2 == 0 else (nm, 'b%d' % i, ''))
        else:
            out.append(attr_of_form(form, 'data-n%d' % (i + 1), i))
    return out


def many_lines(n):
    return '\n'.join('t%d' % i + 'x' * ((i * 7) % 13) for i in range(n))


def scale_stmts(dim, n, names):
    """[(statement, indent or None)]: the part `dim` taken n times, alone and inside a small tree"""
    E = g.El

    def placed(mk):
        # alone / as parent, child and last leaf
        return [[(mk(), '')],
                [(E(name='section'), '>'), (mk(), '>'), (E(name='em'), '+'), (E(name='p', classes=['z']), '^'), (mk(), '')]]
    if dim == 'classes':
        return [(st, None) for st in placed(lambda: E(name='li', classes=numbered('c', n)))]
    if dim == 'classes-in-class-attribute':
        return [(st, None) for st in placed(lambda: E(name='li', attrs=[('title', 't', ''), ('class', class_value(numbered('k', n), n), '"')]))]
    if dim == 'classes-of-nameless-div':
        return [(st, None) for st in placed(lambda: E(name=None, id='m', classes=numbered('d-', n)))]
    if dim == 'attributes':
        return [(st, None) for st in placed(lambda: E(name='td', classes=['a'], attrs=many_attrs(n)))]
    if dim == 'text-lines':
        return [(st, None) for st in placed(lambda: E(name='p', text=many_lines(n)))]
    if dim == 'name-length':
        w = 'n' + 'a1-_'[n % 4] * (n - 1)
        return [(st, None) for st in placed(lambda: E(name='q', id=w, classes=[w + 'c', 'k'], attrs=[('title', w, ''), ('lang', w + ' ' + w, '"')], text=w + ' ' + w))]
    if dim == 'siblings':
        sib = [(E(name=names[i % len(names)], classes=['s%d' % i] if i % 3 == 0 else []), '+') for i in range(n)]
        a = sib[:-1] + [(sib[-1][0], '')]
        b = [(E(name='ul'), '>')] + [(E(name=names[i % len(names)]), '+') for i in range(n - 1)] + [(E(name='li'), '>'), (E(name='em'), '^^'), (E(name='p'), '')]
        return [(a, None), (b, None)]
    if dim == 'repeat':
        return [([(E(name='li', repeat=n, classes=['r']), '')], None),
                ([(E(name='ul'), '>'), (E(name='li', repeat=n), '>'), (E(name='em'), '^^'), (E(name='p'), '')], None)]
    if dim == 'group-repeat':
        return [([(g.Group([(E(name='dt'), '+'), (E(name='dd'), '>'), (E(name='i'), '')], repeat=n), '+'), (E(name='p'), '')], None),
                ([(E(name='section'), '>'), (g.Group([(E(name='p', text='a\nb'), '')], repeat=n), '+'), (E(name='q', self_close=True), '')], None)]
    if dim == 'depth':
        chain = [(E(name=names[i % len(names)]), '>') for i in range(n)]
        a = chain[:-1] + [(chain[-1][0], '')]
        b = chain[:-1] + [(E(name='p', text='x\ny'), '^' * (n // 2)), (E(name='em'), '>'), (E(name=None, classes=['k']), '^' * n), (E(name='q'), '')]
        return [(a, None), (b, None)]
    if dim == 'indent-length':
        st = [(E(name='ul'), '>'), (E(name='li', text='a\nb'), '>'), (E(name='em'), '^'), (E(name='li'), '>'), (E(name='p'), '>'), (E(name='i', self_close=True), '')]
        return [(st, ' ' * n), (st, ('\t ' * n)[:n])]
    raise ValueError(dim)


def big_head(rng, el):
    """many classes / attributes / text lines on one element (counts past 8, 10 and 16)"""
    c = rng.random()
    if c < 0.35:
        el.classes = numbered(rng.choice(['c', 'k-', 'u_']), rng.randint(4, 20))
        el.attrs = [a for a in el.attrs if a[0] not in ('class', 'id')]
    elif c < 0.45:
        # the classes given as the value of a class attribute (no `.class` on the same element: merging is C03's subject)
        el.classes = []
        el.attrs = [a for a in el.attrs if a[0] not in ('class', 'id')] + \
            [('class', class_value(numbered(rng.choice(['c', 'k-']), rng.randint(2, 20)), rng.randint(0, 17)), rng.choice(['"', "'"]))]
    elif c < 0.75:
        el.attrs = many_attrs(rng.randint(4, 14))
    else:
        el.text = many_lines(rng.randint(7, 18))
        el.self_close = False


# ---------------------------------------------------------------- output options x written forms of attributes
# "configurations": the output options that reach the line writer (see writer_of) in every combination of those that
# decide how an attribute is written, and at random together with the options of the HTML writer that must not matter;
# on elements whose attributes take every written form (no value, unquoted, quoted, expression, explicitly empty,
# `name.`) under every kind of name (ordinary, HTML boolean attribute, configured boolean attribute).
OPTIONS_ON = True
CUSTOM_BOOLEANS = ['title', 'data-x', 'allowfullscreen', 'open', 'inert']
ATTR_OPTION_AXES = [('output.compactBoolean', [None, True, False]),
                    ('output.booleanAttributes', [None, CUSTOM_BOOLEANS, list(HTML_BOOLEAN_NAMES) + ['open', 'inert']]),
                    ('output.attributeQuotes', [None, 'single', 'double']),
                    ('output.attributeCase', [None, 'upper', 'lower'])]
OTHER_OPTION_VALUES = [('output.newline', ['\r\n', '\n\n', '\r']), ('output.baseIndent', ['  ', '\t', '>>']),
                       ('output.selfClosingStyle', ['xml', 'xhtml', 'html']), ('output.reverseAttributes', [True]),
                       ('output.format', [False]), ('output.formatLeafNode', [True]), ('output.formatSkip', [['section', 'p', 'li']]),
                       ('output.formatForce', [['em', 'span', 'i']]), ('output.inlineBreak', [0, 1]), ('comment.enabled', [True]),
                       ('output.tagCase', ['upper', 'lower'])]
VALUE_FORMS = ['no-value', 'unquoted', 'quoted', 'single-quoted', 'expression', 'explicit-empty']


def name_kinds(options):
    ba = (options or {}).get('output.booleanAttributes')
    configured = [x for x in (ba or []) if x not in BOOLEAN_NAMES]
    return {'ordinary': [x for x in ATTR_NAMES + ['lang', 'open', 'inert'] if x not in (ba or [])],
            'html-boolean': list(HTML_BOOLEAN_NAMES), 'configured-boolean': configured}


def rich_attrs(rng, options, k=None):
    """attributes of every kind of name x every written form.  An explicitly EMPTY value is given to ordinary names only
    (whether `hidden=""` still is the boolean attribute is not something the statement settles)."""
    kinds = name_kinds(options)
    out, seen = [], set()
    for i in range(k if k is not None else rng.choice([1, 2, 2, 3, 4, 6])):
        kind = rng.choice(['ordinary', 'ordinary', 'html-boolean', 'html-boolean', 'configured-boolean', 'dotted'])
        if kind == 'dotted':
            nm, form = rng.choice(['foo', 'data-on', 'open', 'T']), 'dotted'
        else:
            if not kinds[kind]:
                kind = 'html-boolean'
            nm = rng.choice(kinds[kind])
            form = rng.choice(VALUE_FORMS if kind == 'ordinary' else VALUE_FORMS[:-1])
        if nm.lower() in seen:
            continue
        seen.add(nm.lower())
        out.append(attr_of_form(form, nm, rng.randint(0, 99)))
    return out


def all_forms_stmt(options, rot=0):
    """a small tree whose elements carry every (kind of name x written form) once (names of a kind in rotation)"""
    kinds = name_kinds(options)
    els, k = [], 0
    for kind in ('ordinary', 'html-boolean', 'configured-boolean'):
        pool = kinds[kind]
        if not pool:
            continue
        attrs, seen = [], set()
        for j, form in enumerate(VALUE_FORMS if kind == 'ordinary' else VALUE_FORMS[:-1]):
            k += 1
            nm = pool[(j + rot) % len(pool)]
            if nm.lower() not in seen:
                seen.add(nm.lower())
                attrs.append(attr_of_form(form, nm, k + rot))
        els.append(g.El(name=['section', 'p', 'td'][len(els)], classes=['c'] if len(els) == 1 else [], attrs=attrs))
    els.append(g.El(name='custom', attrs=[('foo.', None, ''), ('required', 'yes', ''), ('lang', None, '')], self_close=True))
    ops = ['>', '+', '>'][:len(els) - 1] + ['']
    return [(e, o) for e, o in zip(els, ops)]


def decorate_rich(rng, stmt, options):
    for unit, op in stmt:
        if isinstance(unit, g.Group):
            decorate_rich(rng, unit.items, options)
        else:
            decorate_el(rng, unit, op == '>', 0.8)
            if rng.random() < 0.6:
                unit.attrs = rich_attrs(rng, options) + [a for a in unit.attrs if a[0] in ('class', 'id')]


def rand_options(rng):
    o = {}
    for key, vals in ATTR_OPTION_AXES:
        if rng.random() < 0.45:
            v = rng.choice(vals[1:])
            o[key] = list(v) if isinstance(v, list) else v
    for key, vals in OTHER_OPTION_VALUES:
        if rng.random() < 0.15:
            v = rng.choice(vals)
            o[key] = list(v) if isinstance(v, list) else v
    return o


def gen(ctx):
    names = g.safe_names()
    g.load_inline()
    rng = ctx.rng
    cases = []
    del POOL[:]

    def add(stmt, syntax, indent, bucket, options=None):
        abbr = g.render(stmt)
        tree = g.unroll(g.denote_stmt(stmt))
        cfg = cfg_of(syntax, indent)
        meta = {'tree': True, 'events': denoted_events(tree)}
        if options:
            cfg['options'].update(options)
            if options.get('output.tagCase'):
                meta['ci_names'] = True
            for key in sorted(options):
                ctx.cover('option:%s=%s' % (key, 'list' if isinstance(options[key], list) else repr(options[key])))
        lines = expected_lines(tree, syntax, indent, 0, writer_of(cfg['options'], syntax))
        meta['lines'] = lines
        POOL.append((abbr, tree, bucket))
        cases.append((abbr, cfg, meta))
        ctx.cover('gen:' + bucket)
        ctx.cover('syntax:' + syntax)
        ctx.cover('indent:%r' % indent)
        if any(ch in abbr for ch in ODD_BREAKS):
            ctx.cover('text-with-\\f-\\v-U+2028-U+0085')
        ctx.cover('lines:%s' % ('1' if len(lines) == 1 else '2-5' if len(lines) <= 5 else '6-20' if len(lines) <= 20 else '21+'))
        if has_multiline(stmt):
            ctx.cover('multi-line-text')
        depth = max(d for d, _ in g.preorder(tree)) if tree else 0
        ctx.cover('depth:%s' % (depth if depth < 4 else '4+'))
        if len(lines) >= 2:
            ctx.nontrivial((abbr, syntax, indent))

    # 1. committed corpus (past failures), expected lines stored with the case
    for o in load_corpus():
        for syntax in o.get('syntaxes', SYNTAXES):
            exp = o['lines'][syntax]
            cases.append((o['abbr'], cfg_of(syntax, o.get('indent', '\t')), {'lines': exp, 'tree': o.get('tree', True)}))
            ctx.cover('gen:corpus')
    # 2. exhaustive operator skeletons (all mixes of > + ^ ^^, one level of groups, *2), decorations rotating
    max_units = 3 if ctx.tier == 'quick' else 4
    k = 0
    used = 0
    for n in range(1, max_units + 1):
        stmts = g.enum_stmts(n, names)
        for st in stmts:
            k += 1
            if n == 4 and k % 6 != ctx.seed % 6:
                continue
            if n == 3 and ctx.tier == 'quick' and k % 3 != ctx.seed % 3:
                continue
            decorate_stmt(rng, st, 0.7)
            used += 1
            add(st, SYNTAXES[used % 3], INDENTS[(used // 3) % len(INDENTS)], 'skeleton')
    # 3. every element shape x every syntax: the line of one element, as leaf / with a child / as a child
    shapes = []
    for name in ('div', 'p', None):
        for idv in (None, 'i1'):
            for classes in ([], ['c'], ['c', 'd-e']):
                if name is None and idv is None and not classes:
                    continue
                for attrs in ([], [('title', 'v', '')], [('title', 'a b', '"'), ('data-x', None, ''), ('k', 'e.f', '{')],
                              [('hidden', None, ''), ('t.', None, '')], [('class', None, '')]):
                    for text in (None, 'one line', 'two\nlines here', 'a\r\n\r\nc', 'a\fb\nc\u2028d\x0be', 'x\u0085y'):
                        shapes.append(dict(name=name, id=idv, classes=classes, attrs=attrs, text=text))
    for i, sh in enumerate(shapes):
        for syntax in SYNTAXES:
            ind = INDENTS[(i + len(syntax)) % len(INDENTS)]
            add([(g.El(**sh), '')], syntax, ind, 'shape-leaf')
            add([(g.El(name='section'), '>'), (g.El(**sh), '>'), (g.El(name='em'), '+'), (g.El(**sh), '')], syntax, ind, 'shape-nested')
    for syntax in SYNTAXES:
        for nm in ('p', 'div', 'custom'):
            add([(g.El(name=nm, self_close=True), '+'), (g.El(name='ul'), '>'), (g.El(name=nm, self_close=True, classes=['k']), '+'),
                 (g.El(name=None, classes=['x']), '')], syntax, '\t', 'self-close')
    # 3a. output.tagCase set: same lines (letter case of names aside), `div` still omitted when an id/class is present
    for syntax in SYNTAXES:
        for tc in ('upper', 'lower'):
            for st in ([(g.El(name='div', classes=['wrap']), '>'), (g.El(name='div', id='main'), '+'), (g.El(name='p', classes=['c']), '>'), (g.El(name='div'), '')],
                       [(g.El(name=None, classes=['x']), '>'), (g.El(name='section', id='s'), '>'), (g.El(name=None, id='k', classes=['y']), '')]):
                abbr = g.render(st)
                tree = g.unroll(g.denote_stmt(st))
                cfg = cfg_of(syntax, '\t')
                cfg['options']['output.tagCase'] = tc
                cases.append((abbr, cfg, {'lines': expected_lines(tree, syntax, '\t'), 'tree': False, 'ci_names': True}))
                ctx.cover('gen:tagCase-set')
    # 3b. text-only nodes with several lines between elements: the elements keep their lines and depths
    for abbr, depths in TEXT_NODE_CASES:
        for syntax in SYNTAXES:
            for ind in ('\t', '  '):
                cases.append((abbr, cfg_of(syntax, ind), {'lines': None, 'tree': False, 'elem_depths': depths}))
                ctx.cover('gen:text-node-between-elements')
    # 4. random statements: wide and deep, groups, repeaters
    n_rand = 2500 if ctx.tier == 'quick' else 40000
    for _ in range(n_rand):
        big = rng.random() < 0.2
        deep = rng.random() < 0.4
        if deep:
            st = deep_stmt(rng, names, rng.randint(2, 30 if big else 9))
        else:
            st = g.rand_stmt(rng, names, rng.randint(1, 40 if big else 9), max_depth=4)
        if g.total_copies(g.unroll(g.denote_stmt(st))) > 300:
            continue
        decorate_stmt(rng, st, rng.choice([0.3, 1.0, 1.0, 1.6]))
        add(st, rng.choice(SYNTAXES), rng.choice(INDENTS), ('random-deep' if deep else 'random') + ('-big' if big else ''))
    # 5. scale: one repeatable part of a line at a time taken to 8..100, then several at once in random statements
    if SCALE_ON:
        k = ctx.seed
        for dim in SCALE_DIMS:
            for n in SCALE_COUNTS:
                if dim == 'group-repeat' and n > 65:
                    continue
                for st, ind in scale_stmts(dim, n, names):
                    k += 1
                    for syntax in (SYNTAXES if ctx.tier != 'quick' else [SYNTAXES[k % 3]]):
                        add(st, syntax, ind if ind is not None else INDENTS[k % len(INDENTS)], 'scale:' + dim)
                        ctx.cover('scale:%s:%s' % (dim, '8-12' if n <= 12 else '16-33' if n <= 33 else '64-100'))
        for _ in range(120 if ctx.tier == 'quick' else 3000):
            st = deep_stmt(rng, names, rng.randint(2, 7)) if rng.random() < 0.5 else g.rand_stmt(rng, names, rng.randint(1, 7), max_depth=2, rep_max=12)
            decorate_stmt(rng, st, 0.6)
            for el in elements_of(st):
                if rng.random() < 0.5:
                    big_head(rng, el)
            if g.total_copies(g.unroll(g.denote_stmt(st))) > 200:
                continue
            add(st, rng.choice(SYNTAXES), rng.choice(INDENTS + ['        ', '\t\t\t']), 'scale-mixed')
    # 6. output options x written forms of attributes
    if OPTIONS_ON:
        import itertools
        k = ctx.seed
        # every combination of the options that decide how an attribute is written, on every (name kind x form)
        for combo in itertools.product(*[vals for _, vals in ATTR_OPTION_AXES]):
            o = {key: (list(v) if isinstance(v, list) else v) for (key, _), v in zip(ATTR_OPTION_AXES, combo) if v is not None}
            if not o:
                continue
            k += 1
            for syntax in (SYNTAXES if ctx.tier != 'quick' or len(o) <= 2 else [SYNTAXES[k % 3]]):
                add(all_forms_stmt(o, k), syntax, INDENTS[k % len(INDENTS)], 'options:attribute-options-all-combinations', o)
        # every other option value alone and with compactBoolean, on the same trees and on one with text and self-closing
        for key, vals in OTHER_OPTION_VALUES:
            for v in vals:
                for extra in ({}, {'output.compactBoolean': True, 'output.attributeQuotes': 'single'}):
                    o = dict(extra)
                    o[key] = list(v) if isinstance(v, list) else v
                    k += 1
                    for syntax in SYNTAXES:
                        add(all_forms_stmt(o, k), syntax, INDENTS[k % len(INDENTS)], 'options:other-option-values', o)
                        st = [(g.El(name='section', id='s'), '>'), (g.El(name='p', text='one\ntwo', attrs=[('hidden', None, '')]), '+'),
                              (g.El(name='ul'), '>'), (g.El(name='li', repeat=2, classes=['c']), '>'), (g.El(name='q', self_close=True), '^^'),
                              (g.El(name=None, classes=['x'], text='t'), '+'), (g.El(name='custom', self_close=True, attrs=[('checked', 'no', '')]), '')]
                        add(st, syntax, INDENTS[(k + 1) % len(INDENTS)], 'options:other-option-values', o)
        # random statements, attributes of every kind and form, random option sets
        for _ in range(500 if ctx.tier == 'quick' else 12000):
            o = rand_options(rng)
            if not o:
                continue
            st = deep_stmt(rng, names, rng.randint(2, 9)) if rng.random() < 0.4 else g.rand_stmt(rng, names, rng.randint(1, 9), max_depth=3)
            if g.total_copies(g.unroll(g.denote_stmt(st))) > 150:
                continue
            decorate_rich(rng, st, o)
            add(st, rng.choice(SYNTAXES), rng.choice(INDENTS), 'options:random', o)
    return cases


def elements_of(stmt):
    for unit, _ in stmt:
        if isinstance(unit, g.Group):
            for e in elements_of(unit.items):
                yield e
        else:
            yield unit


# ---------------------------------------------------------------- configurations given in layers
# "with any indent string" -- the indent string can reach the writer from three places: the options of the
# configuration passed with the call, and the two entries of the global configuration (third argument of
# emmet.expand / second of emmet.Config) that apply to the call: the entry of the syntax TYPE (`markup`) and the entry
# of the SYNTAX itself (`haml` / `pug` / `slim`).  Documented precedence (Emmet `resolveConfig` / `mergedData`:
# `{...defaultConfig[key], ...typeDefaults[key], ...syntaxDefaults[key], ...globals[type][key], ...globals[syntax][key]}`,
# then the user's own section on top): built-in default < global type entry < global syntax entry < the call's own
# options.  The documented built-in default of `output.indent` is one tab.  Entries of OTHER syntaxes and types never
# apply.  All of this is restated here, nothing is read from emmet/config.py.
POOL = []
LAYERS_ON = True
DEFAULT_INDENT = '\t'
LAYER_INDENTS = INDENTS + ['']
LAYER_NAMES = ('user', 'syntax', 'type')
SECTIONS = ('variables', 'snippets', 'options')
# what a layer that does NOT set the indent string may look like
ABSENT_FORMS = ['missing', 'missing', 'empty-entry', 'options-without-indent', 'other-sections-only', 'empty-options']
FOREIGN_KEYS = ['html', 'xml', 'stylesheet', 'css', 'jsx', 'xsl', 'scss', 'HAML', 'Markup', 'indent']


def layer_entry(form, indent):
    """one entry of the global configuration (or the user configuration's own sections)"""
    if form == 'sets-indent':
        return {'options': {'output.indent': indent}}
    if form == 'sets-indent-among-others':
        return {'variables': {'lang': 'de'}, 'options': {'output.selfClosingStyle': 'xhtml', 'output.indent': indent}}
    if form == 'empty-entry':
        return {}
    if form == 'options-without-indent':
        return {'options': {'output.selfClosingStyle': 'xhtml'}}
    if form == 'other-sections-only':
        return {'variables': {'lang': 'de'}, 'snippets': {'zzq': 'p'}}
    if form == 'empty-options':
        return {'options': {}}
    return None     # missing


def effective_config(user, glob):
    """The flat configuration a layered one stands for, by the documented precedence (see above)."""
    syntax = user['syntax']
    flat = {'syntax': syntax}
    for sec in SECTIONS:
        d = {}
        for src in (glob.get('markup') or {}, glob.get(syntax) or {}, user):
            d.update(src.get(sec) or {})
        if d:
            flat[sec] = d
    flat.setdefault('options', {}).setdefault('output.indent', DEFAULT_INDENT)
    return flat


def impl_expand_layers(abbr, user, glob, via):
    import copy
    from emmet import expand, Config
    from common import time_limit, Hang
    from markup_util import classify_exc, CALL_LIMIT_S
    try:
        with time_limit(CALL_LIMIT_S):
            if via == 'config-object':
                return ('ok', expand(abbr, Config(copy.deepcopy(user), copy.deepcopy(glob))))
            return ('ok', expand(abbr, copy.deepcopy(user), copy.deepcopy(glob)))
    except Hang:
        return ('hang', CALL_LIMIT_S)
    except Exception as e:  # noqa
        return classify_exc(e)


def make_layers(rng, syntax, mask, values, foreign=True):
    """mask: which of (user, syntax entry, type entry) set output.indent; values: their indent strings.
    Returns (user_config, global_config)."""
    user = {'syntax': syntax}
    if rng.random() < 0.3:
        user['type'] = 'markup'
    glob = {}
    for on, v, where in zip(mask, values, LAYER_NAMES):
        form = rng.choice(['sets-indent', 'sets-indent', 'sets-indent-among-others']) if on else rng.choice(ABSENT_FORMS)
        e = layer_entry(form, v)
        if e is None:
            continue
        if where == 'user':
            user.update(e)
        else:
            glob[syntax if where == 'syntax' else 'markup'] = e
    if foreign:
        # entries that do not apply to this call: other syntaxes (the other two indent syntaxes among them), the
        # stylesheet type, keys differing in letter case
        others = [s for s in SYNTAXES if s != syntax] + FOREIGN_KEYS
        for k in rng.sample(others, rng.choice([0, 1, 2, 3])):
            glob[k] = {'options': {'output.indent': rng.choice(LAYER_INDENTS + ['@@'])}}
    return user, glob


def gen_layers(ctx):
    rng = ctx.rng
    out = []
    masks = [(a, b, c) for a in (False, True) for b in (False, True) for c in (False, True)]

    def add(abbr, tree, syntax, mask, values, via, foreign, bucket):
        user, glob = make_layers(rng, syntax, mask, values, foreign)
        flat = effective_config(user, glob)
        indent = flat['options']['output.indent']
        lines = expected_lines(tree, syntax, indent)
        meta = {'lines': lines, 'tree': True}
        out.append((abbr, user, glob, via, flat, meta))
        on = [n for n, m in zip(LAYER_NAMES, mask) if m]
        ctx.cover('layers:gen:' + bucket)
        ctx.cover('layers:indent-set-in:' + ('+'.join(on) if on else 'nowhere(built-in default)'))
        ctx.cover('layers:indent-taken-from:' + (on[0] if on else 'built-in default'))
        ctx.cover('layers:call-form:' + via)
        ctx.cover('layers:effective-indent:%r' % indent)
        if len([k for k in glob if k not in ('markup', syntax)]):
            ctx.cover('layers:with-entries-of-other-syntaxes')
        if len(lines) >= 2 and (mask[1] or mask[2]):
            ctx.nontrivial((abbr, canon_cfg(user), canon_cfg(glob), via))

    # fixed trees (nesting, climbing, a group, multi-line text, a self-closing leaf): every presence mask x every
    # ORDERED pair/triple of distinct indent strings from a small set x syntax x call form
    def E(name, **kw):
        return g.El(name=name, **kw)
    fixed = [
        [(E('ul'), '>'), (E('li', repeat=2), '>'), (E('em'), '>'), (E('p'), '^^'), (E('section'), '>'), (E('div', classes=['k']), '')],
        [(E('section'), '>'), (E('p', text='one\ntwo'), '>'), (E('em'), '^'), (g.Group([(E('ul'), '>'), (E('li'), '')], repeat=2), '+'),
         (E('custom', self_close=True), '')],
    ]
    small = ['\t', '  ', '   ', '']
    k = 0
    for st in fixed:
        abbr = g.render(st)
        tree = g.unroll(g.denote_stmt(st))
        for syntax in SYNTAXES:
            for mask in masks:
                for a in small:
                    for b in small:
                        for c in small:
                            vals = (a, b, c)
                            used = [v for v, m in zip(vals, mask) if m]
                            if len(set(used)) != len(used):
                                continue
                            # values of layers that do not set the indent are not used: one representative
                            if any(v != small[0] for v, m in zip(vals, mask) if not m):
                                continue
                            k += 1
                            add(abbr, tree, syntax, mask, vals, 'config-object' if k % 4 == 0 else 'three-arguments', k % 3 == 0, 'fixed-trees-all-masks')
    # the generated abbreviations of the main stream under random layerings
    pool = [p for p in POOL if p[1]]
    n = 1200 if ctx.tier == 'quick' else 20000
    for _ in range(n):
        abbr, tree, bucket = rng.choice(pool)
        # two thirds without the call's own options setting it (then the global entries decide)
        mask = rng.choice([m for m in masks if not m[0]] if rng.random() < 0.66 else [m for m in masks if m[0]])
        if rng.random() < 0.85:
            vals = tuple(rng.sample(LAYER_INDENTS, 3))
        else:
            vals = tuple(rng.choice(LAYER_INDENTS) for _ in range(3))      # layers may agree
        add(abbr, tree, rng.choice(SYNTAXES), mask, vals, 'config-object' if rng.random() < 0.25 else 'three-arguments', True, 'generated-trees-random-layers')
    return out


def layers_key(abbr, user, glob, via):
    return 'C15layers:%s|%s|%s|%s' % (abbr, canon_cfg(user), canon_cfg(glob), via)


def layers_stage(ctx, model):
    """Oracle on every case; the model (which takes one flat configuration) is run on the flat configuration the
    layered one stands for and its text compared with the implementation's output under the layered one."""
    lcases = gen_layers(ctx)
    wires, idx, impl = [], [], []
    for k, (abbr, user, glob, via, flat, meta) in enumerate(lcases):
        r = impl_expand_layers(abbr, user, glob, via)
        impl.append(r)
        ctx.count_eval()
        ctx.cover('C15layers:%s' % (r[0] if r[0] != 'err' else 'err%d' % r[1]))
        bad = oracle(abbr, flat, meta, r)
        if bad:
            bad = 'indent string in force %r (layers: %s): %s' % (flat['options']['output.indent'], layers_text(user, glob), bad)
            ctx.property_failure(layers_key(abbr, user, glob, via),
                                 'C15layers expand(%r, %s, %s) [%s]: %s' % (abbr, canon_cfg(user), canon_cfg(glob), via, bad),
                                 {'component': 'C15layers', 'abbr': abbr, 'config': user, 'global': glob, 'via': via,
                                  'meta': meta, 'impl': repr(r)[:500], 'why': bad})
        if model is not None and not mentions_lorem(abbr, flat):
            try:
                wires.append([2] + enc_config(flat) + enc_str(abbr))
                idx.append(k)
            except NotModelled:
                ctx.cover('C15layers:not-modelled')
    dis = 0
    if wires:
        from markup_util import decode_expand
        for k, w in zip(idx, model.run(wires)):
            mo = decode_expand(w)
            if impl[k][0] == 'recursion':
                continue
            if mo != impl[k]:
                dis += 1
                if dis <= 5:
                    abbr, user, glob, via, flat, meta = lcases[k]
                    ctx.say('DISAGREE C15layers %r user=%s global=%s [%s]\n  impl  %r\n  model(flat) %r' % (
                        abbr, canon_cfg(user), canon_cfg(glob), via, str(impl[k])[:400], str(mo)[:400]))
                    ctx.broken.append({'kind': 'correspondence', 'file': 'markup-C15layers', 'input': abbr, 'config': canon_cfg(user),
                                       'global': canon_cfg(glob), 'impl': repr(impl[k])[:300], 'model': repr(mo)[:300]})
    c = ctx.cov['correspondence'].setdefault('markup_C15layers_model_on_flattened_config', {'cases': 0, 'disagreements': 0})
    c['cases'] += len(wires)
    c['disagreements'] += dis
    return lcases


def layers_text(user, glob):
    syntax = user['syntax']
    parts = []
    for nm, src in (('call options', user), ('global[%r]' % syntax, glob.get(syntax)), ("global['markup']", glob.get('markup'))):
        o = (src or {}).get('options') or {}
        if 'output.indent' in o:
            parts.append('%s=%r' % (nm, o['output.indent']))
    return ', '.join(parts) or 'none sets it'


# ---------------------------------------------------------------- routes: the two-step interface, one tree written several times
# The package exports the two halves of expand() as its public interface (emmet/__init__.py: `markup_abbreviation`,
# `stringify_markup`, `parse_markup_abbreviation`, `expand_markup`, `Config`; upstream Emmet documents the same pair as
# `parseMarkup(abbr, config)` / `stringifyMarkup(tree, config)`): the caller gets the tree of the abbreviation and has it
# written -- as often as he likes, in whatever syntax he likes.  The statement is about "the tree denoted by the
# abbreviation": every writing of that tree, the first as well as any later one, in haml, pug, slim (lines) or html
# (element tree), must show it; writing is an observation of the caller's tree, not a step that uses it up.  A case of
# this stream is a SEQUENCE of calls on one abbreviation:
#   parse  -- a tree is obtained: markup_abbreviation(abbr, Config) | emmet.markup.parse(abbr, Config) |
#             parse_markup_abbreviation(abbr) handed to markup_abbreviation(tree0, Config)
#   write  -- the current tree is written: stringify_markup(tree, Config) | emmet.markup.stringify(tree, Config) |
#             the formatter of the syntax called directly (emmet.markup.format.haml/pug/slim/html(tree, Config))
#   expand -- a one-step call in between: expand(abbr, Config object) | expand_markup(abbr, Config object)
# each with one of up to three configurations of the case (syntax, indent string, sometimes one more output option),
# given as the SAME Config object every time it is used in the case or as a fresh Config each time.  Every written
# result is judged by the same oracle as the main stream (denoted lines; for an html writing the (depth, name) tree of
# the denotation), and the tree read off the indentation of every haml/pug/slim writing is compared with the tree of
# every html writing of the SAME tree object.
ROUTES_ON = True
PARSE_ROUTES = ['markup_abbreviation', 'markup.parse', 'parse_markup_abbreviation-then-markup_abbreviation']
WRITERS = ['stringify_markup', 'markup.stringify', 'formatter-function']
ENTRY_POINTS = ['expand', 'expand_markup']
WRITE_SYNTAXES = SYNTAXES + ['html']
# output options (besides the indent string) a configuration of this stream may carry: options of the writers only --
# the tree is parsed under one configuration of the case and written under another, so nothing that acts when the
# abbreviation is parsed/resolved is varied here
ROUTE_EXTRA_OPTIONS = [{'output.newline': '\r\n'}, {'output.baseIndent': '  '}, {'output.compactBoolean': True},
                       {'output.attributeQuotes': 'single'}, {'output.newline': '\n\n', 'output.baseIndent': '\t'}]


def route_cfg(syntax, indent, extra=None):
    o = {'output.indent': indent}
    if syntax == 'html':
        o['output.selfClosingStyle'] = 'xhtml'      # a self-closed leaf is written `<x />`: the tag parser's leaf criterion
    else:
        o.update(extra or {})
    return {'syntax': syntax, 'options': o}


def run_route(case):
    """Performs the calls of one case in this process.  Returns one result per step: None for a parse step that
    succeeded, ('ok', text) for a write/expand step, an error classification otherwise."""
    import copy
    import emmet
    import emmet.markup
    import emmet.markup.format
    from common import time_limit, Hang
    from markup_util import classify_exc, CALL_LIMIT_S
    objs = {}
    out = []
    tree = None

    def config_of(st):
        i = st['config']
        if st.get('object') == 'fresh':
            return emmet.Config(copy.deepcopy(case['configs'][i]))
        if i not in objs:
            objs[i] = emmet.Config(copy.deepcopy(case['configs'][i]))
        return objs[i]
    for st in case['steps']:
        try:
            with time_limit(CALL_LIMIT_S):
                cfg = config_of(st)
                if st['op'] == 'parse':
                    tree = None
                    if st['how'] == 'markup_abbreviation':
                        tree = emmet.markup_abbreviation(case['abbr'], cfg)
                    elif st['how'] == 'markup.parse':
                        tree = emmet.markup.parse(case['abbr'], cfg)
                    else:
                        tree = emmet.markup_abbreviation(emmet.parse_markup_abbreviation(case['abbr']), cfg)
                    out.append(None)
                elif st['op'] == 'write':
                    if tree is None:
                        out.append(('no-tree',))
                    elif st['how'] == 'stringify_markup':
                        out.append(('ok', emmet.stringify_markup(tree, cfg)))
                    elif st['how'] == 'markup.stringify':
                        out.append(('ok', emmet.markup.stringify(tree, cfg)))
                    else:
                        out.append(('ok', getattr(emmet.markup.format, case['configs'][st['config']]['syntax'])(tree, cfg)))
                elif st['how'] == 'expand_markup':
                    out.append(('ok', emmet.expand_markup(case['abbr'], cfg)))
                else:
                    out.append(('ok', emmet.expand(case['abbr'], cfg)))
        except Hang:
            out.append(('hang', CALL_LIMIT_S))
        except Exception as e:  # noqa
            out.append(classify_exc(e))
    return out


def step_text(case, k):
    """`write #2 of tree #1 as slim (stringify_markup; the tree was written before as: pug)`"""
    st = case['steps'][k]
    syn = case['configs'][st['config']]['syntax']
    if st['op'] != 'write':
        return 'step %d: %s(abbr, Config) as %s' % (k + 1, st['how'], syn)
    trees, before = 0, []
    for j, s in enumerate(case['steps'][:k + 1]):
        if s['op'] == 'parse':
            trees += 1
            before = []
        elif s['op'] == 'write' and j < k:
            before.append(case['configs'][s['config']]['syntax'])
    return 'step %d: write #%d of tree #%d as %s (%s; %s)' % (
        k + 1, len(before) + 1, trees, syn, st['how'],
        'written before as: ' + ', '.join(before) if before else 'its first writing')


def judge_route(case, results):
    """Why the property fails on this sequence of calls, or None.  case['expect'][k] holds what step k must give:
    {'lines': [...]} for haml/pug/slim, {'html': [[depth, name], ...]} for html."""
    abbr = case['abbr']
    trees = {}          # tree number -> [(step, syntax, (depth, name) list)]
    tno = 0
    for k, (st, r) in enumerate(zip(case['steps'], results)):
        if st['op'] == 'parse':
            tno += 1
            if r is not None:
                return '%s: the tree could not be obtained: %r' % (step_text(case, k), r)
            continue
        cfg = case['configs'][st['config']]
        exp = case['expect'][k]
        if r[0] != 'ok':
            return '%s did not return a string: %r' % (step_text(case, k), r)
        if cfg['syntax'] == 'html':
            got, depth = g.html_preorder(r[1])
            if depth != 0:
                return '%s: unbalanced tags in the HTML output %r' % (step_text(case, k), r[1][:300])
            if [tuple(x) for x in got] != [tuple(x) for x in exp['html']]:
                return '%s: element tree of the HTML output %r differs from the tree denoted by the abbreviation %r' % (
                    step_text(case, k), got[:12], [tuple(x) for x in exp['html']][:12])
            if st['op'] == 'write':
                trees.setdefault(tno, []).append((k, 'html', [tuple(x) for x in got]))
            continue
        bad = oracle(abbr, cfg, {'lines': exp['lines'], 'tree': False}, r)
        if bad:
            return '%s: %s -- output %r' % (step_text(case, k), bad, r[1][:300])
        indent = cfg['options'].get('output.indent', '\t')
        if st['op'] == 'write' and indent:
            text = '\n'.join(r[1].split(line_break_of(cfg['options'])))
            rec, err = recover_tree(text, cfg['syntax'], indent)
            if err:
                return '%s: cannot read the tree off the indentation: %s' % (step_text(case, k), err)
            trees.setdefault(tno, []).append((k, cfg['syntax'], rec))
    # last clause of the statement on ONE tree object: what its indent writings show is what its html writings show
    for tno, ws in trees.items():
        hs = [w for w in ws if w[1] == 'html']
        for k, syn, rec in ws:
            if syn != 'html':
                for hk, _, htree in hs:
                    if rec != htree:
                        return '%s: tree read off the indentation %r differs from the tree of the HTML writing of the same tree object (step %d) %r' % (
                            step_text(case, k), rec[:12], hk + 1, htree[:12])
    return None


def routes_key(case):
    return 'C15routes:%s|%s|%s' % (case['abbr'], canon_cfg(case['configs']), canon_cfg(case['steps']))


def route_expectations(case, tree):
    exp = []
    for st in case['steps']:
        if st['op'] == 'parse':
            exp.append(None)
            continue
        cfg = case['configs'][st['config']]
        if cfg['syntax'] == 'html':
            exp.append({'html': [list(x) for x in g.preorder(tree)]})
        else:
            exp.append({'lines': expected_lines(tree, cfg['syntax'], cfg['options']['output.indent'], 0, writer_of(cfg['options'], cfg['syntax']))})
    case['expect'] = exp
    return case


def has_primary(tree):
    for name, el, cs, kids in tree:
        idv, classes = primary_of(el)
        if idv is not None or classes or has_primary(kids):
            return True
    return False


def gen_routes(ctx):
    rng = ctx.rng
    out = []

    def add(abbr, tree, configs, steps, bucket):
        case = route_expectations({'abbr': abbr, 'configs': configs, 'steps': steps}, tree)
        out.append(case)
        ctx.cover('routes:gen:' + bucket)
        n_on_tree, prev, most = 0, None, 0
        for st in steps:
            syn = configs[st['config']]['syntax']
            ctx.cover('routes:%s:%s' % (st['op'], st['how']))
            ctx.cover('routes:config-object:' + ('a fresh Config for the call' if st.get('object') == 'fresh' else 'one Config object for all its uses in the case'))
            if st['op'] == 'parse':
                n_on_tree, prev = 0, None
                ctx.cover('routes:tree-parsed-under:' + syn)
            elif st['op'] == 'write':
                n_on_tree += 1
                most = max(most, n_on_tree)
                ctx.cover('routes:written-as:' + syn)
                if prev is not None:
                    ctx.cover('routes:consecutive-writings-of-one-tree:%s->%s' % (prev[0], syn))
                    ctx.cover('routes:later-writing-indent-string:' + ('same as the one before' if prev[1] == configs[st['config']]['options']['output.indent'] else 'different'))
                prev = (syn, configs[st['config']]['options']['output.indent'])
        ctx.cover('routes:writings-of-one-tree:%d' % most)
        if has_primary(tree):
            ctx.cover('routes:tree-with-id-or-class')
        if most >= 2 and len(g.preorder(tree)) >= 2:
            ctx.nontrivial(('routes', abbr, canon_cfg(configs), canon_cfg(steps)))

    def E(name, **kw):
        return g.El(name=name, **kw)
    # A. fixed trees (ids, classes, a nameless div, a class attribute, other attributes, multi-line text, a self-closing
    #    leaf, a repeated group): parsed under each of the four syntaxes, then EVERY ordered pair of writings
    fixed = [
        [(E('div', id='main', classes=['a', 'b']), '>'), (E('p', classes=['c']), '+'), (E('q', id='x', attrs=[('title', 't', '')]), '')],
        [(E('ul', id='nav', classes=['menu']), '>'), (E('li', classes=['item'], repeat=2), '>'), (E(None, classes=['link'], text='go'), '')],
        [(E('section', attrs=[('class', 's1 s2', '"'), ('lang', 'en', '')]), '>'), (E(None, id='i1', text='one\ntwo'), '>'), (E('em', classes=['k']), '^'),
         (g.Group([(E('dt', classes=['t']), '+'), (E('dd', id='d'), '')], repeat=2), '+'), (E('custom', self_close=True, classes=['z']), '')],
        [(E('p'), '>'), (E('em'), '>'), (E('q', self_close=True), '^^'), (E('section', attrs=[('hidden', None, ''), ('title', 'a b', '"')]), '>'), (E('i'), '')],
    ]
    k = ctx.seed
    for st in fixed:
        abbr = g.render(st)
        tree = g.unroll(g.denote_stmt(st))
        for ps in WRITE_SYNTAXES:
            for w1 in WRITE_SYNTAXES:
                for w2 in WRITE_SYNTAXES:
                    k += 1
                    ind = INDENTS[k % len(INDENTS)]
                    ind2 = ind if k % 3 else INDENTS[(k + 3) % len(INDENTS)]
                    configs, idx = [], []
                    for c in (route_cfg(ps, ind), route_cfg(w1, ind), route_cfg(w2, ind2)):
                        if c not in configs:
                            configs.append(c)
                        idx.append(configs.index(c))
                    obj = 'fresh' if k % 4 == 0 else 'same'
                    steps = [{'op': 'parse', 'how': PARSE_ROUTES[k % len(PARSE_ROUTES)], 'config': idx[0], 'object': obj},
                             {'op': 'write', 'how': WRITERS[k % len(WRITERS)], 'config': idx[1], 'object': obj},
                             {'op': 'write', 'how': WRITERS[(k // 3) % len(WRITERS)], 'config': idx[2], 'object': obj}]
                    add(abbr, tree, configs, steps, 'fixed-trees-every-ordered-pair-of-writings')
    # B. the generated abbreviations of the main stream under random sequences of calls
    pool = [p for p in POOL if p[1]]
    n = 1000 if ctx.tier == 'quick' else 16000
    for _ in range(n):
        abbr, tree, bucket = rng.choice(pool)
        configs = []
        for _c in range(rng.choice([1, 1, 2, 2, 3])):
            syn = rng.choice(SYNTAXES + SYNTAXES + ['html']) if configs else rng.choice(SYNTAXES)
            c = route_cfg(syn, rng.choice(INDENTS), rng.choice(ROUTE_EXTRA_OPTIONS) if rng.random() < 0.2 else None)
            if c not in configs:
                configs.append(c)
        obj = lambda: 'fresh' if rng.random() < 0.3 else 'same'     # noqa
        pick = lambda: rng.randrange(len(configs))                   # noqa
        steps = [{'op': 'parse', 'how': rng.choice(PARSE_ROUTES), 'config': pick(), 'object': obj()}]
        first = True
        for _w in range(rng.choice([1, 2, 2, 2, 3, 3, 4])):
            c = rng.random()
            if c < 0.08:
                steps.append({'op': 'parse', 'how': rng.choice(PARSE_ROUTES), 'config': pick(), 'object': obj()})
                first = True
            elif c < 0.2:
                steps.append({'op': 'expand', 'how': rng.choice(ENTRY_POINTS), 'config': pick(), 'object': obj()})
                continue
            # the first writing of a tree mostly under the configuration it was parsed with (the plain two-step call)
            ci = steps[-1]['config'] if first and rng.random() < 0.6 else pick()
            steps.append({'op': 'write', 'how': rng.choice(WRITERS), 'config': ci, 'object': obj()})
            first = False
        add(abbr, tree, configs, steps, 'generated-trees-random-call-sequences')
    return out


def routes_stage(ctx, model):
    """Oracle on every written result of every case.  The Coq model knows expand(abbr, config) only -- a tree that
    outlives a call is not something it has: every written result is compared with the model's text for (abbr, the
    configuration of THAT writing)."""
    rcases = gen_routes(ctx)
    wires, idx = [], []
    for n, case in enumerate(rcases):
        res = run_route(case)
        ctx.count_eval()
        bad = judge_route(case, res)
        ctx.cover('C15routes:%s' % ('holds' if not bad else 'fails'))
        if bad:
            ctx.property_failure(routes_key(case), 'C15routes %r configs=%s calls=%s: %s' % (
                case['abbr'], canon_cfg(case['configs']), ' ; '.join('%s:%s[%d]' % (s['op'], s['how'], s['config']) for s in case['steps']), bad),
                {'component': 'C15routes', 'abbr': case['abbr'], 'configs': case['configs'], 'steps': case['steps'],
                 'expect': case['expect'], 'impl': repr(res)[:800], 'why': bad})
        if model is not None and not mentions_lorem(case['abbr'], {}):
            for k, (st, r) in enumerate(zip(case['steps'], res)):
                if st['op'] == 'parse' or r is None or r[0] in ('recursion', 'hang', 'no-tree'):
                    continue
                try:
                    wires.append([2] + enc_config(case['configs'][st['config']]) + enc_str(case['abbr']))
                    idx.append((n, k, r))
                except NotModelled:
                    ctx.cover('C15routes:not-modelled')
    dis = 0
    if wires:
        from markup_util import decode_expand
        for (n, k, r), w in zip(idx, model.run(wires)):
            mo = decode_expand(w)
            if mo != r:
                dis += 1
                if dis <= 5:
                    case = rcases[n]
                    ctx.say('DISAGREE C15routes %r %s\n  impl  %r\n  model(expand under the configuration of this writing) %r' % (
                        case['abbr'], step_text(case, k), str(r)[:400], str(mo)[:400]))
                    ctx.broken.append({'kind': 'correspondence', 'file': 'markup-C15routes', 'input': case['abbr'],
                                       'config': canon_cfg(case['configs'][case['steps'][k]['config']]), 'step': step_text(case, k),
                                       'impl': repr(r)[:300], 'model': repr(mo)[:300]})
    c = ctx.cov['correspondence'].setdefault('markup_C15routes_every_writing_vs_model_expand', {'cases': 0, 'disagreements': 0})
    c['cases'] += len(wires)
    c['disagreements'] += dis
    return rcases


# model/implementation correspondence outside the oracle's domain: text-only nodes, snippets, numbering, whitespace in
# class names, fields, and every output option the indent formatter reads
FRAGS = ['div', 'p', 'ul', 'li', 'span', 'a', 'em', 'img', 'br', 'input', 'x', 'h$', '>', '>', '+', '+', '^', '(', ')', '*2', '*3',
         '.c', '.c$', '#i', '[a=b]', '[a="b c"]', "[a='x']", '[a]', '[a.]', '[!a]', '[class="p  q\tr"]', '[class]', '[id]', '.d.e', '{t}',
         '{t $}', '$', '/', '{a\nb}', '{a\r\nbb\nc}', '{x\n}', '{\n}', '[t={x}]', '{${1:x}}', '{${2}}', '[a=${1}]', '[disabled]',
         '{a${1}\nb${2:q}}', '{a\fb\nc}', '{x\u2028y}', '[a="x\u0085y"]', '{p\x0bq\r\nr\x1cs}', 'label>input', 'input:t', '.', '#', '[class=""]', '{ }', '{ }', '[a="x\ny"]']
OPTS = [{}, {}, {'output.indent': '  '}, {'output.indent': '', 'output.newline': '\r\n'}, {'output.baseIndent': '>>', 'output.indent': '  '},
        {'output.tagCase': 'upper', 'output.attributeCase': 'upper'}, {'output.attributeQuotes': 'single', 'output.compactBoolean': True},
        {'output.selfClosingStyle': 'xml'}, {'output.selfClosingStyle': 'xhtml', 'output.newline': '\n\n'},
        {'output.booleanAttributes': ['a', 'x'], 'output.attributeCase': 'lower'}]
FIXED = ['div>{text}+p', '{text}>p', 'p>{a\nb}', 'p>{a\nb}+q', 'p>q{\nx}', 'p{x\n}', 'p{a}{b}', 'div[class]', 'div[id]>p', 'div.', '.', '#',
         'div[class.]', 'div.a.b#c.d#e', 'div[class=a]#b.c', 'p.a$$*2', 'p[a="x y" b=\'q\' c={e} d. e]', 'ul>.c', 'img/+br', 'a>b{t}>c',
         'input[disabled.]', 'p[class=x y]', 'ul>li.item$*3>{n $}', '(a>b)*2+c', 'p{${1:x}\n${2:yy}}']


def gen_tie(ctx):
    rng = ctx.rng
    cases = []
    for s in FIXED:
        for syntax in SYNTAXES:
            for o in OPTS:
                cases.append((s, {'syntax': syntax, 'options': dict(o)}, None))
    n = 1500 if ctx.tier == 'quick' else 25000
    for _ in range(n):
        s = ''.join(rng.choice(FRAGS) for _ in range(rng.randint(1, 7)))
        cases.append((s, {'syntax': rng.choice(SYNTAXES), 'options': dict(rng.choice(OPTS))}, None))
    return cases


# ---------------------------------------------------------------- snippet names and text-only nodes in every position
# "All abbreviations of the documented grammar": a name of an abbreviation may be a SNIPPET -- a built-in one (the doctype
# snippet `!!!` of the Emmet cheat sheet) or one of the configuration's `snippets` section -- and a snippet may resolve to a
# text-only node `{...}` or to another element.  Unlike a text written in braces (after which `>` continues on the same
# level), a snippet name followed by `>` makes the text-only node the PARENT of what follows: the only way a text-only
# node gets children.  This stream puts such names (and written `{text}` nodes) at every position of generated trees: as
# the first node of the abbreviation, as parent of ONE child, of several, of a group, of a chain, as first / middle / last
# child of an element, as sibling, repeated, inside repeated groups, text under text.
# What the statement settles for these trees (and all the oracle asks): every ELEMENT has a line of its own, in document
# order, indented by its depth in the denoted tree (a text-only node is a node of that tree: its children are one level
# deeper than it is), the line starts with the element's head; the element tree read off the indentation is the element
# tree of the HTML output.  How the text of a text-only node itself is laid out is not settled and not judged (in this
# library it is glued to the end of the preceding line); to keep every element line readable in pug/slim (no name mark)
# a text that begins with a name character is only put at the very start of the abbreviation, unrepeated.
SNIPS_ON = True
# OFF: judging the last clause (tree read off the indentation = tree of the HTML output) on trees where a text-only node
# WITH children follows an element on its level (`div+note>span`, `div>p^note>span`).  On the unchanged library the text is
# glued to the end of the preceding element's line and its children, one level deeper, then read as children of that
# element (`div (note)\n\tspan `) while the HTML output has them as siblings: a finding on the clean tree, reported, not
# listed.  Everything else (own line, depth, head of every element) is judged on these trees too.
SNIP_TREE_CLAUSE_WHEN_TEXT_PARENT_FOLLOWS_ELEMENT = True   # listed finding C15:text-only-parent-after-an-element


class ListedVerdict(str):
    """an oracle verdict that belongs to a listed finding class (markup_util.run_cases uses .key as the failure key)"""
    key = 'C15:text-only-parent-after-an-element'
# configuration snippets: key -> text of the text-only node it resolves to (snippet body `{text}`)
TEXT_SNIPPETS = {'note': '(note)', 'todo': '[x] done', 'sep': '~ sep ~', 'cmt': '<!-- c -->', 'two': '(a)\n(bb)',
                 'three': '[1]\r\n[22]\n[333]', 'fill': '(${1:fill})', 'stop': '(${0})', 'word': 'NOTE', 'w2': 'see below'}
GLUE_SAFE = [k for k, v in sorted(TEXT_SNIPPETS.items()) if not NAME_RE.match(v)]       # usable at any position
START_ONLY = [k for k, v in sorted(TEXT_SNIPPETS.items()) if NAME_RE.match(v)] + ['!!!', '!!!']   # only as very first node
# configuration snippets that resolve to one element: key -> (body, name, classes)
ALIAS_SNIPPETS = {'card': ('section.card', 'section', ['card']), 'art': ('article', 'article', []), 'bx': ('div.bx', 'div', ['bx'])}
WRITTEN_TEXTS = ['(t)', '[w] x', '"q"', '@a b', '(l1)\n(l2)', '(${1:f})']
SNIP_TEXT_CH = 'abcxyzTQ09 '


class Snip(g.El):
    """a unit of a statement that is a snippet name or a written text: kind 'text' (text-only node) or 'alias' (`den`:
    the element the snippet stands for)"""
    __slots__ = ('kind', 'den')

    def __init__(self, kind, name=None, text=None, repeat=None, den=None):
        g.El.__init__(self, name=name, text=text, repeat=repeat)
        self.kind = kind
        self.den = den


def snip_config(syntax, indent):
    sn = {k: '{%s}' % v for k, v in TEXT_SNIPPETS.items()}
    sn.update({k: v[0] for k, v in ALIAS_SNIPPETS.items()})
    return {'syntax': syntax, 'options': {'output.indent': indent}, 'snippets': sn}


def snip_denoted(tree, syntax, d=0, ed=0):
    """([depth, name, head] of every element, depth counting every node of the tree; [depth, name] counting elements only)"""
    S = SYN[syntax]
    els, etree = [], []
    for name, el, cs, kids in tree:
        if isinstance(el, Snip) and el.kind == 'text':
            a, b = snip_denoted(kids, syntax, d + 1, ed)
        else:
            den = el.den if isinstance(el, Snip) else el
            nm = den.name if isinstance(el, Snip) else name
            els.append([d, nm, head_of(nm, den, S)])
            etree.append([ed, nm])
            a, b = snip_denoted(kids, syntax, d + 1, ed + 1)
        els.extend(a)
        etree.extend(b)
    return els, etree


def has_element(tree):
    return any(not (isinstance(el, Snip) and el.kind == 'text') or has_element(kids) for _, el, _, kids in tree)


def text_parent_follows_element(tree):
    """some text-only node that has element descendants stands after an element (or after a node holding one) of its level"""
    seen = False
    for name, el, cs, kids in tree:
        is_text = isinstance(el, Snip) and el.kind == 'text'
        if is_text and seen and has_element(kids):
            return True
        if text_parent_follows_element(kids):
            return True
        seen = seen or not is_text or has_element(kids)
    return False


def read_element_lines(out, syntax, indent, vocab):
    """(depth, name, line without its indentation) of every line that is an element line: haml `%name` / `.c` / `#i`;
    pug, slim: a name of the vocabulary / `.c` / `#i` at the start of the line.  Lines of multi-line text are skipped."""
    res = []
    pre = SYN[syntax]['before_name']
    for line in out.split('\n'):
        d = 0
        if syntax == 'haml' and line.endswith(' |'):
            continue
        while line.startswith(indent):
            line = line[len(indent):]
            d += 1
        if syntax != 'haml' and line[:1] == '|':
            continue
        if line[:1] in ('.', '#'):
            res.append((d, 'div', line))
            continue
        if not line.startswith(pre):
            continue
        m = NAME_RE.match(line, len(pre))
        if m and (pre or m.group(0) in vocab):
            res.append((d, m.group(0), line))
    return res


def oracle_snip(abbr, cfg, meta, r):
    if r[0] != 'ok':
        return 'expand did not return a string: %r' % (r,)
    out = r[1]
    syntax = cfg['syntax']
    indent = cfg['options']['output.indent']
    exp = meta['snip']['elems']
    got = read_element_lines(out, syntax, indent, set(meta['snip']['vocab']))
    gd = [[d, nm] for d, nm, _ in got]
    ed = [[d, nm] for d, nm, _ in exp]
    if gd != ed:
        k = 0
        while k < min(len(gd), len(ed)) and gd[k] == ed[k]:
            k += 1
        return ('element lines (depth, name) read off the output differ from the elements of the denoted tree at element %d: '
                'output has %r, tree has %r (all element lines %r, all elements %r)' % (
                    k, gd[k] if k < len(gd) else None, ed[k] if k < len(ed) else None, gd[:12], ed[:12]))
    for (d, nm, line), (_, _, head) in zip(got, exp):
        if not line.startswith(head):
            return 'the line of element %r at depth %d is %r, it does not start with the denoted head %r' % (nm, d, line, head)
    if meta['snip'].get('follows') and not SNIP_TREE_CLAUSE_WHEN_TEXT_PARENT_FOLLOWS_ELEMENT:
        return None
    listed = bool(meta['snip'].get('follows'))
    # element tree read off the indentation (parent = nearest element line above with a smaller indentation)
    stack, itree = [], []
    for d, nm, _ in got:
        while stack and stack[-1] >= d:
            stack.pop()
        itree.append((len(stack), nm))
        stack.append(d)
    if itree != [tuple(x) for x in meta['snip']['etree']]:
        msg = 'element tree read off the indentation %r differs from the element tree of the abbreviation %r' % (itree[:12], meta['snip']['etree'][:12])
        return ListedVerdict(msg) if listed else msg
    hcfg = {'syntax': 'html', 'options': {'output.indent': indent, 'output.selfClosingStyle': 'xhtml'}, 'snippets': dict(cfg.get('snippets') or {})}
    h = impl_expand(abbr, hcfg)
    if h[0] != 'ok':
        return 'html expand failed: %r' % (h,)
    htree, depth = g.html_preorder(h[1])
    if depth != 0:
        return 'unbalanced tags in HTML output %r' % h[1]
    if itree != htree:
        msg = 'element tree read off the indentation %r differs from the tree of the HTML output %r' % (itree[:12], htree[:12])
        return ListedVerdict(msg) if listed else msg
    return None


def snip_text(rng, multiline):
    k = rng.choice([2, 3]) if multiline else 1
    return '\n'.join(rand_word(rng, 'abcxyzTQ', SNIP_TEXT_CH, 1, 8).rstrip() for _ in range(k))


def snip_decorate(rng, el):
    if rng.random() < 0.25:
        el.classes = rng.sample(IDENT, rng.choice([1, 1, 2]))
    if rng.random() < 0.12:
        el.id = rng.choice(IDENT)
    if rng.random() < 0.1:
        el.name = 'div'
    if rng.random() < 0.15:
        el.attrs = rand_attrs(rng)
    c = rng.random()
    if c < 0.12:
        el.text = snip_text(rng, False)
    elif c < 0.2:
        el.text = snip_text(rng, True)


def snip_unit(rng, el, op, start):
    """what replaces element `el` of a generated statement (followed by operator `op`)"""
    c = rng.random()
    if start and el.repeat is None:
        return Snip('text', name=rng.choice(START_ONLY))
    if c < 0.15:
        key = rng.choice(sorted(ALIAS_SNIPPETS))
        body, nm, classes = ALIAS_SNIPPETS[key]
        return Snip('alias', name=key, repeat=el.repeat, den=g.El(name=nm, classes=classes))
    if c < 0.3 and op != '>':
        return Snip('text', name=None, text=rng.choice(WRITTEN_TEXTS), repeat=el.repeat)
    return Snip('text', name=rng.choice(GLUE_SAFE), repeat=el.repeat)


def snip_substitute(rng, stmt, p, top=True, where=None, counter=None):
    """replace elements of the statement by snippet names / written texts: the k-th element when `where` is k, else each
    with probability p; the very first node of the abbreviation may become a text that starts with a name character"""
    counter = counter if counter is not None else [0]
    out = []
    for i, (unit, op) in enumerate(stmt):
        if isinstance(unit, g.Group):
            unit.items = snip_substitute(rng, unit.items, p, False, where, counter)
        else:
            k = counter[0]
            counter[0] += 1
            hit = (k == where) if where is not None else rng.random() < p
            if hit:
                start = top and i == 0 and rng.random() < (0.5 if where is not None else 0.6)
                unit = snip_unit(rng, unit, op, start)
            else:
                snip_decorate(rng, unit)
        out.append((unit, op))
    return out


def snip_shape(tree, parent_text=False, buckets=None):
    """coverage buckets: where the text-only nodes of a denoted tree stand"""
    buckets = buckets if buckets is not None else set()
    for name, el, cs, kids in tree:
        is_text = isinstance(el, Snip) and el.kind == 'text'
        if is_text:
            n = len(kids)
            buckets.add('text-only-node-with-%s' % ('no-child' if n == 0 else 'ONE-child' if n == 1 else 'several-children'))
            if n == 1 and kids[0][3]:
                buckets.add('text-only-node-with-ONE-child-that-has-children')
            if parent_text:
                buckets.add('text-only-node-under-text-only-node')
            if cs:
                buckets.add('text-only-node-repeated')
        elif isinstance(el, Snip):
            buckets.add('snippet-for-an-element')
        snip_shape(kids, is_text, buckets)
    return buckets


def gen_snips(ctx):
    names = [n for n in g.safe_names() if n not in TEXT_SNIPPETS and n not in ALIAS_SNIPPETS]
    vocab = sorted(set(names) | {'div'} | {v[1] for v in ALIAS_SNIPPETS.values()})
    rng = ctx.rng
    cases = []

    def add(stmt, syntax, indent, bucket):
        abbr = g.render(stmt)
        tree = g.unroll(g.denote_stmt(stmt))
        els, etree = snip_denoted(tree, syntax)
        cfg = snip_config(syntax, indent)
        follows = text_parent_follows_element(tree)
        cases.append((abbr, cfg, {'snip': {'elems': els, 'etree': etree, 'vocab': vocab, 'follows': follows}}))
        ctx.cover('snippets:last-clause-%s' % ('not-judged(text-only-parent-after-an-element)' if follows and not SNIP_TREE_CLAUSE_WHEN_TEXT_PARENT_FOLLOWS_ELEMENT else 'judged'))
        ctx.cover('gen:snippets:' + bucket)
        for b in snip_shape(tree):
            ctx.cover('snippets:' + b)
        top = tree[0][1] if tree else None
        if isinstance(top, Snip) and top.kind == 'text':
            ctx.cover('snippets:first-node-is-text-only:%s' % ('built-in-doctype-snippet' if top.name == '!!!' else 'configured-snippet' if top.name else 'written'))
        if len(els) >= 2:
            ctx.nontrivial((abbr, syntax, indent))

    # exhaustive operator skeletons, every single position replaced in turn
    k = ctx.seed
    for n in (1, 2, 3):
        for st0 in g.enum_stmts(n, names):
            k += 1
            if n == 3 and k % (12 if ctx.tier == 'quick' else 1) != 0:
                continue
            for where in range(n):
                st = snip_substitute(rng, copy.deepcopy(st0), 0.0, where=where)
                add(st, SYNTAXES[(k + where) % 3], INDENTS[(k // 3) % len(INDENTS)], 'skeleton-one-position')
    # fixed: the doctype snippet and configured snippets as parent of one child / a chain / several, x every syntax and indent
    for head in ('!!!', 'word', 'note', 'two', 'fill'):
        for tail in ([('p', '')], [('section', '>'), ('p', '')], [('section', '>'), ('ul', '>'), ('li', '')], [('em', '+'), ('p', '')],
                     [('section', '>'), ('em', '+'), ('p', '^'), ('q', '')]):
            for syntax in SYNTAXES:
                for ind in INDENTS[:4]:
                    st = [(Snip('text', name=head), '>')] + [(g.El(name=nm), op) for nm, op in tail]
                    add(st, syntax, ind, 'text-only-snippet-as-root-parent')
    # random statements
    for _ in range(900 if ctx.tier == 'quick' else 20000):
        deep = rng.random() < 0.5
        st = deep_stmt(rng, names, rng.randint(2, 9)) if deep else g.rand_stmt(rng, names, rng.randint(1, 9), max_depth=3)
        if g.total_copies(g.unroll(g.denote_stmt(st))) > 150:
            continue
        st = snip_substitute(rng, st, rng.choice([0.15, 0.3, 0.5]))
        add(st, rng.choice(SYNTAXES), rng.choice(INDENTS), 'random-deep' if deep else 'random')
    return cases


# ON: texts in which a line break stands DIRECTLY before a `${n}` / `${n:placeholder}` field (`p{one\n${1:two} three}`).
# The text has two lines, the statement asks for one line per text line one level deeper; the unchanged library writes
# `p onetwo three`: split_by_lines() (markup/format/utils.py) drops the trailing line break of every STRING token of the
# value, also when a field token follows (str.splitlines() semantics kept by repair 8453eaf; the JS original splits with
# a regex and keeps it).  The same cause is listed for C06 (c06:raw-linebreak-before-field-or-end).  A repair changes
# OutputStream.push_string / split_by_lines for every text that ends in a line break (five properties' models): not
# small, listed instead.  Every failing input of this class carries the line break + `${digit` in its text.
BREAK_BEFORE_FIELD_ON = True      # listed finding C15:line-break-before-field-lost
KEY_BREAK_BEFORE_FIELD = 'C15:line-break-before-field-lost'
BREAK_BEFORE_FIELD_RE = re.compile(r'(?:\r\n|\r|\n)\$\{\d')


def gen_break_before_field(ctx):
    rng = ctx.rng
    cases = []
    n = 90 if ctx.tier == 'quick' else 1500
    for k in range(n):
        syntax = SYNTAXES[k % 3]
        indent = rng.choice(INDENTS[:4])
        nl = rng.choice(['\n', '\n', '\r\n', '\r'])
        nlines = rng.choice([2, 2, 3, 4])
        at = set(rng.sample(range(1, nlines), rng.randint(1, nlines - 1)))     # lines that START with a field
        raw, shown = [], []
        for j in range(nlines):
            w = rand_word(rng, 'abcxyzTQ', SNIP_TEXT_CH, 1, 8).rstrip()
            if j in at:
                idx = rng.randint(0, 3)
                ph = rng.choice(['', '', 'ph', 'q r'])
                raw.append(('${%d:%s}' % (idx, ph) if ph else '${%d}' % idx) + w)
                shown.append(ph + w)
            else:
                raw.append(w)
                shown.append(w)
        shape = rng.choice(['alone', 'child', 'parent', 'sibling', 'repeat'])
        def stmt_of(text):
            e = g.El(name=rng_name, text=text)
            if shape == 'alone':
                return [(e, '')]
            if shape == 'child':
                return [(g.El(name='div'), '>'), (e, '')]
            if shape == 'parent':
                return [(e, '>'), (g.El(name='b'), '')]
            if shape == 'sibling':
                return [(g.El(name='a'), '+'), (e, '+'), (g.El(name='i'), '')]
            e.repeat = 2
            return [(g.El(name='ul'), '>'), (e, '')]
        rng_name = rng.choice(['p', 'li', 'h1', 'x'])
        abbr = g.render(stmt_of(nl.join(raw)))
        tree = g.unroll(g.denote_stmt(stmt_of('\n'.join(shown))))
        cfg = cfg_of(syntax, indent)
        lines = expected_lines(tree, syntax, indent, 0, writer_of(cfg['options'], syntax))
        cases.append((abbr, cfg, {'tree': True, 'lines': lines}))
        ctx.cover('gen:line-break-before-field')
        ctx.nontrivial((abbr, syntax, indent))
    return cases


def fieldbreak_stage(ctx, model):
    cases = gen_break_before_field(ctx)
    run_cases(ctx, model, cases, 'C15fieldbreak', oracle)
    return cases


def snips_stage(ctx, model):
    cases = gen_snips(ctx)
    run_cases(ctx, model, cases, 'C15snip', oracle)
    attach_meta(ctx, cases)
    return cases


RULE = ('abbreviations generated as an AST (elements with ids, classes, attributes of every value form, single- and multi-line text, '
        'self-closing, nameless elements, groups, repeaters), rendered to text; exhaustive operator skeletons up to the stated size, '
        'every element shape x syntax as leaf/parent/child, random wide and deep statements; x haml/pug/slim x 8 indent strings. '
        'Oracle: output lines = lines denoted by the AST (indent^depth ++ head ++ value; multi-line text one line per text line one '
        'level deeper with the syntax marks); tree read off the indentation = tree of the HTML output. Non-trivial = at least two '
        'lines; distinct by (abbreviation, syntax, indent). A second stream (text-only nodes, snippets, numbering, fields, all '
        'output options) is compared model vs implementation only. '
        'Scale (gen:scale:*): one repeatable part of a line at a time taken to 8, 9, 10, 11, 12, 16, 17, 32, 33, 64, 65 and 100 -- class '
        'names written `.c` / given as the white-space separated value of a class attribute (blank, blanks, tab, line break) / on a '
        'nameless div, attributes (written forms in rotation), text lines, length of id/class/value/text, siblings, `*N` on an element '
        'and on a group, nesting depth (with climbs back), length of the indent string -- on an element alone and as parent, child and '
        'last leaf; plus random statements where several elements carry 4-20 classes / 4-14 attributes / 7-18 text lines at once '
        '(quick tier: one syntax per case in rotation; thorough: all three). '
        'Output options (gen:options:*): every combination of output.compactBoolean x output.booleanAttributes (default, replaced, '
        'extended) x output.attributeQuotes x output.attributeCase on trees carrying every kind of attribute name (ordinary, HTML '
        'boolean attribute, configured boolean attribute, `name.`) x every written form (no value, unquoted, double/single quoted, '
        'expression, explicitly empty for ordinary names); every value of output.newline, baseIndent, selfClosingStyle, tagCase and of '
        'the HTML-writer options that must not matter (format, formatLeafNode, formatSkip, formatForce, inlineBreak, '
        'reverseAttributes, comment.enabled) alone and with compactBoolean+single quotes; random statements with random option sets. '
        'The oracle restates what each option means for a line (writer_of): an attribute that HAS a value is written name=value under '
        'every option; the boolean attribute list is the documented HTML list hard-coded in the harness, not the library\'s table; lines '
        'are what stands between two newline+baseIndent. Not generated: an explicitly empty value on a boolean-named attribute, '
        'empty class/id values, a value after `name.` (the statement does not settle them). All these cases also go through the Coq '
        'model and the extracted spec (same wire format, all options are part of the encoded configuration). '
        'Layered configurations (stream C15layers): the indent string given in the call\'s own options, in the global '
        'configuration\'s entry of the syntax type (markup), in its entry of the syntax (haml/pug/slim), in any subset of the three '
        '(all 8 presence masks x all ordered choices of distinct strings from {tab, 2, 3 spaces, empty} on two fixed trees; random '
        'masks and 9 indent strings incl. the empty one on the generated abbreviations), layers that do not set it being missing / '
        'empty / holding other options or sections only, plus entries of syntaxes and types that do not apply; called as '
        'expand(abbr, config, global_config) and as expand(abbr, Config(config, global_config)). Oracle: the same denoted lines and '
        'tree comparison with the indent string in force by the documented precedence (built-in tab < global type entry < global '
        'syntax entry < call options), restated in the harness. The Coq model takes one flat configuration: for this stream it is '
        'run on the flat configuration the layered one stands for (computed by the harness) and compared with the '
        'implementation\'s output under the layered one; the layer merge itself is not modelled here. '
        'Routes (stream C15routes): the two-step public interface. A case is a sequence of calls on one abbreviation: the tree is '
        'obtained (markup_abbreviation(abbr, Config) / emmet.markup.parse / parse_markup_abbreviation(abbr) handed to '
        'markup_abbreviation) under haml, pug, slim or html, then THE SAME TREE OBJECT is written 1-4 times (stringify_markup / '
        'emmet.markup.stringify / the formatter function of the syntax called directly) as haml, pug, slim or html in any order, '
        'under the same or another indent string (sometimes with output.newline / baseIndent / compactBoolean / attributeQuotes), '
        'with a re-parse or a one-step call (expand(abbr, Config object), expand_markup) in between; a configuration is one Config '
        'object reused for all its calls of the case or a fresh Config per call. Fixed trees (ids, classes, nameless div, class '
        'attribute, attributes, multi-line text, self-closing leaf, repeated group): parsed under each of the 4 syntaxes x every '
        'ordered pair of writings (4 x 4); the generated abbreviations of the main stream under random call sequences. Oracle: '
        'every haml/pug/slim writing, the first and every later one, gives exactly the lines denoted by the abbreviation; every '
        'html writing has the denoted (depth, name) element tree; the tree read off the indentation of a writing equals the tree '
        'of every html writing of the same tree object. Non-trivial = a tree of at least two elements written at least twice. '
        'The Coq model has no tree that outlives a call: each writing is compared with the model\'s expand(abbr, configuration of '
        'that writing). A replay of this stream holds the whole call sequence (abbreviation, configurations, steps, denoted '
        'lines) and is self-contained in a fresh process. '
        'Snippet names and text-only nodes (stream C15snip, gen:snippets:*, snippets:*): names that are snippets -- the built-in '
        'doctype snippet `!!!` and snippets of the configuration\'s `snippets` section that resolve to a text-only node (one line, '
        'several lines, with ${1:field} / ${0}, starting with a name character or not) or to one element (name, name.class, '
        'div.class) -- and written `{text}` nodes, at every position of generated trees: every single position of the exhaustive '
        'operator skeletons of 1-2 units (3 units: one twelfth, chosen by the seed, in the quick tier) replaced in turn, fixed root parents (`!!!`/snippet '
        '> one child / chain / several children) x 3 syntaxes x 4 indent strings, random wide and deep statements with 15-50% of '
        'the elements replaced; a snippet name followed by `>` makes the text-only node the PARENT of one child, of several, of a '
        'group or chain; also repeated, inside repeated groups, text-only under text-only, as first/middle/last child. Oracle '
        '(oracle_snip; denotation from the AST, a text-only node being a node of the tree): the element lines read off the output '
        '(haml: lines starting `%name`/`.c`/`#i`; pug, slim: lines starting with a name of the generator\'s vocabulary, `.c`, `#i`; '
        'lines of multi-line text skipped) are, in document order, exactly the elements of the denoted tree at their depths, each '
        'line starts with the denoted head; the element tree read off the indentation (parent = nearest element line above with a '
        'smaller indentation) equals the denoted element tree and the tag tree of the HTML output under the same snippets. How the '
        'text of a text-only node itself is laid out is not judged; a text starting with a name character is generated only as the '
        'unrepeated first node of the abbreviation (elsewhere it would be glued to a name and make the line unreadable in pug/slim). '
        'Guarded OFF (SNIP_TREE_CLAUSE_WHEN_TEXT_PARENT_FOLLOWS_ELEMENT): the last clause on trees where a text-only node with '
        'children follows an element of its level (it fails there on the unchanged library; the other clauses are judged). Nameless '
        'elements are not generated in this stream (implicit names are another property\'s subject). These cases also go through the '
        'Coq model (user snippets are part of the encoded configuration).')


def spec_stage(ctx, spec, label, cases, impl):
    """The extracted SPEC (node_lines of proofs/IndentProofs.v, not the model of the code) as oracle: inside the
    theorem's domain its text must be the implementation's output; reports how many cases are in the domain."""
    wires, idx = [], []
    for k, (abbr, cfg, meta) in enumerate(cases):
        if impl[k][0] != 'ok' or mentions_lorem(abbr, cfg):
            continue
        try:
            wires.append([1] + enc_config(cfg) + enc_str(abbr))
            idx.append(k)
        except NotModelled:
            pass
    outs = spec.run(wires) if wires else []
    c = ctx.cov['correspondence'].setdefault('spec_node_lines_' + label, {'cases': 0, 'in_domain': 0, 'disagreements': 0})
    for k, w in zip(idx, outs):
        r = decode_res(w, lambda rd: (rd.bool(), rd.str()))
        c['cases'] += 1
        if r[0] != 'ok':
            c['disagreements'] += 1
            ctx.broken.append({'kind': 'correspondence', 'file': 'spec-C15', 'input': cases[k][0], 'spec': repr(r)[:200]})
            continue
        wf, text = r[1]
        if not wf:
            continue
        c['in_domain'] += 1
        if text != impl[k][1]:
            c['disagreements'] += 1
            if c['disagreements'] <= 5:
                ctx.say('SPEC DISAGREE %r cfg=%s\n  impl %r\n  spec %r' % (cases[k][0], canon_cfg(cases[k][1]), impl[k][1][:300], text[:300]))
                ctx.broken.append({'kind': 'correspondence', 'file': 'spec-C15', 'input': cases[k][0], 'config': canon_cfg(cases[k][1]),
                                   'impl': repr(impl[k][1])[:300], 'spec': repr(text)[:300]})


def nest_stage(ctx, spec, hsub):
    """nest(tree_events) of the SPEC vs the tree of the implementation's HTML output (tag parser)."""
    c = ctx.cov['correspondence'].setdefault('spec_nest_vs_html_output', {'cases': 0, 'in_domain': 0, 'disagreements': 0})
    wires, keep = [], []
    for abbr, cfg, meta in hsub:
        o = dict(cfg['options'])
        if o.get('output.selfClosingStyle', 'html') == 'html':
            o['output.selfClosingStyle'] = 'xhtml'      # a void element must be visible to the tag parser
        hc = {'syntax': 'html', 'options': o}
        try:
            wires.append([2] + enc_config(hc) + enc_str(abbr))
            keep.append((abbr, hc))
        except NotModelled:
            pass
    outs = spec.run(wires) if wires else []
    for (abbr, hc), w in zip(keep, outs):
        r = decode_res(w, lambda rd: (rd.bool(), rd.bool(), rd.list(lambda: (rd.int(), rd.str()))))
        h = impl_expand(abbr, hc)
        c['cases'] += 1
        if r[0] != 'ok' or h[0] != 'ok':
            continue
        named, clean, dl = r[1]
        if not (named and clean):
            continue
        c['in_domain'] += 1
        got, depth = g.html_preorder(h[1])
        if depth != 0 or got != dl:
            c['disagreements'] += 1
            if c['disagreements'] <= 5:
                ctx.say('NEST DISAGREE %r cfg=%s\n  html %r\n  spec %r' % (abbr, canon_cfg(hc), got[:10], dl[:10]))
                ctx.broken.append({'kind': 'correspondence', 'file': 'spec-C15-nest', 'input': abbr, 'config': canon_cfg(hc),
                                   'impl': repr(got)[:300], 'spec': repr(dl)[:300]})


def attach_meta(ctx, cases):
    """run_cases builds the replay objects; add what replay() needs to re-judge the input."""
    look = {(a, canon_cfg(c)): m for a, c, m in cases}
    for v in ctx.violations:
        rp = v.get('replay') or {}
        if rp.get('component') in ('C15', 'C15snip') and 'abbr' in rp:
            m = look.get((rp['abbr'], canon_cfg(rp['config'])))
            if m is not None:
                rp['meta'] = m


# ---------------------------------------------------------------- replays that depend on earlier calls
# A failure found in the middle of a stream may depend on what earlier calls of the same process left behind (module
# level caches, shared default arguments).  A replay file must fail when re-run in a FRESH process: every concrete
# violation that is going to be reported is re-run that way (`./check C15 --replay`); when the input alone holds there,
# the calls that preceded it in the stream are recorded with it (`after`: the shortest tried suffix of the history
# that makes it fail again) and replay() performs them first.  Costs nothing when there is no violation.
HISTORY_TRIES = (1, 4, 16, 64, 400)


def call_of(case):
    if len(case) == 3:
        return {'abbr': case[0], 'config': case[1], 'meta': case[2]}
    abbr, user, glob, via, flat, meta = case
    return {'abbr': abbr, 'config': user, 'global': glob, 'via': via, 'meta': meta}


def judge_call(c):
    """(result, why-the-property-fails or None) of one recorded call"""
    meta = c.get('meta') or {'tree': True}
    if 'global' in c:
        r = impl_expand_layers(c['abbr'], c['config'], c['global'], c.get('via', 'three-arguments'))
        return r, oracle(c['abbr'], effective_config(c['config'], c['global']), meta, r)
    r = impl_expand(c['abbr'], c['config'])
    return r, oracle(c['abbr'], c['config'], meta, r)


def fresh_process_replay(rp):
    import subprocess
    import sys
    import tempfile
    with tempfile.NamedTemporaryFile('w', suffix='.json', delete=False) as f:
        json.dump({'property': 'C15', 'replay': rp}, f, default=str)
        path = f.name
    try:
        p = subprocess.run([sys.executable, os.path.join(VERIF, 'check'), 'C15', '--replay', path], cwd=VERIF,
                           stdout=subprocess.DEVNULL, stderr=subprocess.DEVNULL, timeout=300)
        return p.returncode
    except Exception:  # noqa
        return None
    finally:
        os.unlink(path)


def settle_replays(ctx, streams):
    conc = [v for v in ctx.violations if not v['no_input'] and (v.get('replay') or {}).get('component') in streams]
    conc.sort(key=lambda v: len(json.dumps(v['replay'], default=str)))
    first, seen = [], set()
    for v in conc:
        if v['key'] not in seen and len(first) < 10:
            seen.add(v['key'])
            first.append(v)
    changed = False
    for v in first:
        rp = v['replay']
        if fresh_process_replay(rp) != 0:
            continue            # fails on its own (or could not be re-run): nothing to add
        stream = streams[rp['component']]
        pos = None
        for k, case in enumerate(stream):
            c = call_of(case)
            if c['abbr'] == rp['abbr'] and canon_cfg(c['config']) == canon_cfg(rp['config']) and \
                    canon_cfg(c.get('global')) == canon_cfg(rp.get('global')) and c.get('via') == rp.get('via'):
                pos = k
                break
        if pos is None:
            continue
        for n in HISTORY_TRIES:
            hist = [call_of(c) for c in stream[max(0, pos - n):pos]]
            if fresh_process_replay(dict(rp, after=hist)) == 1:
                rp['after'] = hist
                changed = True
                v['what'] += ' [holds on this input in a fresh process; fails after the %d call(s) that preceded it in the stream, recorded in the replay]' % len(hist)
                ctx.cover('replay-needs-earlier-calls')
                break
            if n >= pos:
                break
        if 'after' not in rp:
            v['what'] += ' [not reproduced in a fresh process, not even after the preceding calls of the stream]'
    if changed:
        # the report lists the smallest replays first and a recorded history makes a replay longer: keep the ten that
        # were re-run in a fresh process, say how many other failing inputs there were
        rest = [v for v in conc if v not in first]
        if rest:
            ctx.say('C15: %d further failing inputs are not listed (the listed ones were re-run in a fresh process)' % len(rest))
            ctx.violations[:] = [v for v in ctx.violations if v not in rest]


def run(ctx):
    ok = ctx.build(['props/C15.vo', 'run/MarkupRun.vo', 'run/IndentRun.vo'])
    if ok:
        ctx.obligations('props/C15.v')
    model = ctx.model('markup') if ok else None
    spec = ctx.model('indent') if ok else None
    ctx.cov['rule'] = RULE
    ctx.cov['exhaustive_skeleton_units'] = '1-2 all, 3 one third (by seed)' if ctx.tier == 'quick' else '1-3 all, 4 one sixth (by seed)'
    cases = gen(ctx)
    impl = run_cases(ctx, model, cases, 'C15', oracle)
    # callback events (offset, line, column of every push) on a subset
    sub = cases[:: max(1, len(cases) // (800 if ctx.tier == 'quick' else 8000))]
    run_cases(ctx, model, sub, 'C15ev', None, mode='events')
    # HTML side of the last clause: chunk-exact model/implementation comparison under 9 option sets (ties
    # HtmlEvents.v's chunk model to the code); the tag chunks are also compared with the denoted events, as a
    # tie check only (how the output is cut into chunks is not part of the property)
    hsub = [(a, {'syntax': 'html', 'options': dict(HTML_OPTS[k % len(HTML_OPTS)])}, m)
            for k, (a, cf, m) in enumerate(cases[:: max(1, len(cases) // (1200 if ctx.tier == 'quick' else 12000))]) if 'events' in m]
    run_cases(ctx, model, hsub, 'C15html', None, mode='events')
    check_chunks(ctx, hsub)
    attach_meta(ctx, cases)
    lcases = layers_stage(ctx, model) if LAYERS_ON else []
    if ROUTES_ON:
        routes_stage(ctx, model)
    if ctx.violations:
        settle_replays(ctx, {'C15': cases, 'C15layers': lcases})
    tie = gen_tie(ctx)
    timpl = run_cases(ctx, model, tie, 'C15tie', None)
    if spec is not None:
        spec_stage(ctx, spec, 'generated', cases, impl)
        spec_stage(ctx, spec, 'tie_stream', tie, timpl)
        nest_stage(ctx, spec, hsub)
    if SNIPS_ON:
        # after everything else, so that the streams above draw the same random numbers as before this stream existed
        had = len(ctx.violations)
        scases = snips_stage(ctx, model)
        if len(ctx.violations) > had:
            settle_replays(ctx, {'C15snip': scases})
    if BREAK_BEFORE_FIELD_ON:
        fieldbreak_stage(ctx, model)
    shown = 0
    for (abbr, cfg, meta), r in zip(cases, impl):
        if shown < 6 and r[0] == 'ok' and len(meta['lines']) >= 4 and '\n' in abbr:
            ctx.sample({'abbr': abbr, 'config': cfg, 'output': r[1][:300]})
            shown += 1


def replay(ctx, obj):
    rp = obj.get('replay', {})
    if 'abbr' not in rp:
        print('replay names a broken obligation, no input: %s' % str(rp)[:300])
        return 1
    if rp.get('component') == 'C15routes':
        res = run_route(rp)
        for k, (st, r) in enumerate(zip(rp['steps'], res)):
            print('%s, configuration %r -> %r' % (step_text(rp, k), rp['configs'][st['config']], 'tree' if r is None else r))
        bad = judge_route(rp, res)
        print('abbreviation %r' % rp['abbr'])
        print('property %s' % ('FAILS: ' + bad if bad else 'holds on this sequence of calls'))
        return 1 if bad else 0
    for c in rp.get('after') or []:
        judge_call(c)           # the earlier calls of the same process this failure depends on
    if rp.get('after'):
        print('after %d earlier call(s) in this process (first %r, last %r):' % (len(rp['after']), rp['after'][0]['abbr'], rp['after'][-1]['abbr']))
    if 'global' in rp:
        via = rp.get('via', 'three-arguments')
        r = impl_expand_layers(rp['abbr'], rp['config'], rp['global'], via)
        flat = effective_config(rp['config'], rp['global'])
        bad = oracle(rp['abbr'], flat, rp.get('meta') or {'tree': True}, r)
        print('%s: expand(%r, %r, %r) -> %r' % (via, rp['abbr'], rp['config'], rp['global'], r))
        print('indent string in force: %r (%s)' % (flat['options']['output.indent'], layers_text(rp['config'], rp['global'])))
        print('property %s' % ('FAILS: ' + bad if bad else 'holds on this input'))
        return 1 if bad else 0
    r = impl_expand(rp['abbr'], rp['config'])
    meta = rp.get('meta') or {'tree': True}
    bad = oracle(rp['abbr'], rp['config'], meta, r)
    print('expand(%r, %r) -> %r' % (rp['abbr'], rp['config'], r))
    print('property %s' % ('FAILS: ' + bad if bad else 'holds on this input'))
    return 1 if bad else 0
