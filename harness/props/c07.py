"""C07 -- expand fails only with its two parse errors (position inside the input), never with an internal error.
Markup half: harness/c07_markup.py (this builder).  Stylesheet half: harness/c07_css.py (style component)."""
import os

import common
import c07_markup

TARGETS = ['props/C07.vo', 'run/MarkupRun.vo']


def _css_available():
    return os.path.exists(os.path.join(common.COQ, 'props', 'C07Css.v'))


def _css_oracle_only(ctx):
    """Stylesheet half while coq/props/C07Css.v (owned by the style component) is not in the tree:
    the implementation oracle of c07_css on its own generated cases; no model tie, no theorem."""
    import c07_css
    import style_util as su
    stage_cases, full, _ = c07_css.gen(ctx)
    for cases, tag in ((stage_cases, 'short'), (full, 'full')):
        impl = su.impl_expand_many(cases)
        c07_css.check_oracle(ctx, cases, impl, tag)
    ctx.cov['css_half'] = 'implementation oracle only: coq/props/C07Css.v not present in this tree'
    ctx.cov['rule'] = ctx.cov.get('rule', '') + (' || css: the generated cases of harness/c07_css.py (short strings, valid abbreviations, value grammar, '
                                                'mutations, random option sets) through the implementation oracle only')


def run(ctx):
    ok = ctx.build(TARGETS)
    if ok:
        ctx.obligations('props/C07.v')
    c07_markup.run_markup(ctx, model_ok=ok)
    if _css_available():
        import c07_css
        c07_css.run_css(ctx)          # appends its own rule text, builds and accounts props/C07Css.v itself
    else:
        _css_oracle_only(ctx)
    import c07_callbacks
    c07_callbacks.run_callbacks(ctx)  # user output.text / output.field functions, markup and stylesheet (oracle only)


def replay(ctx, obj):
    rp = obj.get('replay', {})
    if rp.get('component') == 'css':
        import c07_css
        return c07_css.replay_css(ctx, obj)
    if rp.get('component') == 'callbacks':
        import c07_callbacks
        return c07_callbacks.replay_callbacks(ctx, obj)
    rc = c07_markup.replay_markup(ctx, obj)
    if rc is not None:
        return rc
    print('replay names a broken obligation, no input: %s' % str(rp)[:600])
    return 1
