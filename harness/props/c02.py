"""C02 -- Repeaters make exactly N copies and number them as documented.

Generated abbreviations come from an AST (repeat_util.El / Group with numbering templates); the
property ORACLE computes the forest of (name, attributes, text) the statement prescribes directly
from that AST (copies, counters, maxRepeat clause) and compares it with a tag parse of
emmet.expand's output.  The extracted Coq model runs on the same inputs and its full output
string is compared with the implementation's.

Besides counters the AST carries what stands next to them in real abbreviations and shares state with
the copy loop: attributes written in every documented way (repeat_util.ATTR_KINDS) and the `$#`
placeholder with the texts it stands for (none, a string, lines with `*` line repeaters)."""
import copy
import glob
import json
import os

import abbr_gen
import repeat_util as u
from common import enc_str, enc_opt, Reader, VERIF
from markup_util import enc_config, decode_expand, decode_res, impl_expand, canon_cfg, classify_exc, NotModelled
from props.c18 import impl_markup, decode_markup

CONFIGS = [{'options': {'output.format': False}}, {}, {'syntax': 'xml'},
           {'syntax': 'xml', 'options': {'output.format': False}},
           {'options': {'output.selfClosingStyle': 'xhtml', 'output.format': False}}]


MODEL_MAX_NODES = 120
P_RANDOM_ESCAPES = 0.3      # share of the random forests that get backslash escapes sprinkled into their templates


class Case:
    __slots__ = ('abbr', 'cfg', 'exp', 'label', 'why', 'nodes', 'limit', 'text', 'base')

    def __init__(self, abbr, cfg, exp, label, nodes=None, limit=None, text=None, base=None):
        self.abbr = abbr
        self.cfg = cfg
        self.exp = exp        # expected forest, or None: correspondence only (outside the claim)
        self.label = label
        self.nodes = nodes    # the AST the abbreviation was rendered from (None: written by hand / corpus)
        self.limit = limit    # the limit M as a number of copies (None: no limit), however the settings spell it
        self.text = text      # what `$#` stands for
        self.base = base      # the settings without limit and text


def to_json(forest):
    return [[n, a, t, to_json(k)] for n, a, t, k in forest]


def from_json(forest):
    return [(n, dict(a), t, from_json(k)) for n, a, t, k in forest]


def check_output(exp, r):
    """The property on one implementation result: None, or what fails."""
    if r[0] != 'ok':
        return 'expand did not return a string: %r' % (r,)
    try:
        got = u.parse_markup(r[1])
    except ValueError as e:
        return 'output is not a well-formed element tree (%s): %r' % (e, r[1][:200])
    return u.first_diff(exp, got)


def key_of(abbr, cfg):
    return 'C02:%s|%s' % (abbr, canon_cfg(cfg))


# ---------------------------------------------------------------- generators
class Gen:
    def __init__(self, ctx):
        self.ctx = ctx
        self.rng = ctx.rng
        self.cases = []
        from emmet.config import DEFAULT_OPTIONS
        from emmet.snippets import markup_snippets
        self.inline = set(DEFAULT_OPTIONS['inlineElements'])
        self.snippets = markup_snippets
        self.names = abbr_gen.safe_names()

    def acceptable(self, exp, max_nodes=600):
        """The expected forest is small enough and names nothing but plain elements (no snippet, no lorem)."""
        if u.count_nodes(exp) > max_nodes:
            return False
        for nm in u.names_of(exp):
            if nm in self.snippets or nm.lower().startswith('lorem') or nm.lower() in u.UNDOCUMENTED_PARENTS:
                return False
        return True

    def add(self, nodes, limit, cfg, label, text=None):
        exp, total = u.expected(nodes, limit, self.inline, text)
        if not self.acceptable(exp):
            return False
        base = cfg
        cfg = copy.deepcopy(cfg)
        if limit is not None:
            cfg['maxRepeat'] = limit
        if text is not None:
            cfg['text'] = copy.deepcopy(text)
        abbr = u.render(nodes)
        self.cases.append(Case(abbr, cfg, exp, label, nodes=nodes, limit=limit, text=text, base=base))   # generators never touch an AST after adding it
        ctx = self.ctx
        ctx.cover('gen:' + label)
        ctx.cover('depth:%d' % min(u.max_depth_of(nodes), 7))
        if limit is None:
            ctx.cover('limit:none')
        else:
            full, _ = u.expected(nodes, None, self.inline, text)
            ctx.cover('limit:truncates' if u.count_nodes(full) != u.count_nodes(exp) else 'limit:not-reached')
            reps = [n for n in all_units(nodes) if isinstance(n.repeat, int) and n.repeat > 1]
            if reps and limit < min(n.repeat for n in reps):
                ctx.cover('limit:below-every-repeater')
        if u.count_nodes(exp) >= 2:
            ctx.nontrivial(abbr + '|' + canon_cfg(cfg))
        ctx.cover('text:' + ('none' if text is None else 'lines' if isinstance(text, list) else 'string'))
        for n in all_units(nodes):
            if isinstance(n, u.El):
                for _, _, kind in n.attrs:
                    ctx.cover('attr-kind:' + (kind or 'unquoted'))
                if u.el_has_esc(n):
                    ctx.cover('escape:element-with-escaped-characters')
                if u.el_has_ph(n):
                    ctx.cover('placeholder:' + ('nested-repeaters' if self._rep_depth(nodes, n) >= 2 else 'one-or-no-repeater'))
        return True

    @staticmethod
    def _rep_depth(nodes, target):
        """How many repeated units (the element itself included) enclose `target`."""
        def walk(ns, d):
            for n in ns:
                dd = d + (1 if n.repeat is not None else 0)
                if n is target:
                    return dd
                r = walk(n.items if isinstance(n, u.Group) else n.kids, dd)
                if r is not None:
                    return r
            return None
        return walk(nodes, 0) or 0

    # every numbering form, in every position, N = 1 .. 30
    def forms(self):
        thorough = self.ctx.tier != 'quick'
        sizes = (1, 2, 3, 5) if thorough else (1, 2, 3)
        ns = list(range(1, 31)) if thorough else [1, 2, 3, 9, 10, 11, 30]
        k = 0
        for form in u.all_forms(sizes=sizes):
            for pos in ('name', 'id', 'class', 'attr', 'attrq', 'attrx', 'attrname', 'text', 'textnest', 'attrxnest', 'child'):
                for n in (ns if thorough else ns[(k % 3)::3] + [ns[k % len(ns)]]):
                    k += 1
                    f = u.Num(form.size, form.reverse, form.base, form.at)
                    e = u.El(name=['x-y'], repeat=n)
                    if pos == 'name':
                        e.name = ['x', f]
                    elif pos == 'id':
                        e.id = ['i', f]
                    elif pos == 'class':
                        e.classes = [['c', f, 'z'], ['d']]
                    elif pos == 'attr':
                        e.attrs = [(['t'], ['v', f], '')]
                    elif pos == 'attrq':
                        e.attrs = [(['t'], ['v ', f, 'w'], '"')]
                    elif pos == 'attrx':
                        e.attrs = [(['t'], ['go(', f, ')'], '{')]
                    elif pos == 'attrname':
                        e.attrs = [(['t', f], ['v'], "'")]
                    elif pos == 'text':
                        e.text = ['T ', f]
                    elif pos == 'textnest':      # counter inside balanced inner braces of a text (repaired 86fc68a)
                        e.text = [['a{', f, '}b'], ['{', f, '}'], ['{{', f, '}x}'], ['{a}', f, ' {', f, '}']][k % 4]
                    elif pos == 'attrxnest':     # ... and of an expression value
                        e.attrs = [(['t'], [['x{', f, '}'], ['{', f, '}y'], ['f({', f, '})']][k % 3], '{')]
                    else:   # inherited by a descendant without its own repeater
                        e.kids = [u.El(name=['p'], kids=[u.El(name=['q'], classes=[['c', f]])])]
                    self.ctx.cover('form:%s' % form_kind(form))
                    self.ctx.cover('pos:' + pos)
                    self.add([e], None, CONFIGS[k % len(CONFIGS)], 'forms')

    # small nesting skeletons x every limit from 1 to total+2
    def skeletons(self):
        mk = lambda nm, rep, kids=(): u.El(name=[nm], classes=[['c', u.Num(1)]], text=[u.Num(2, True)], repeat=rep, kids=kids)
        k = 0
        for outer_group in (False, True):
            for n1 in (1, 2, 3):
                for inner_group in (False, True):
                    for n2 in (None, 1, 2, 3):
                        for second in ('none', None, 2):
                            for n4 in (None, 2):
                                inner = [u.Group([mk('q', None)], n2)] if inner_group else [mk('q', n2)]
                                if second != 'none':
                                    inner.append(mk('u', second))
                                top = [u.Group([mk('p', None, inner)], n1)] if outer_group else [mk('p', n1, inner)]
                                if n4 is not None or second == 2:
                                    top.append(mk('em', n4))
                                total = u.total_repeat_copies(top)
                                for limit in [None] + list(range(1, total + 3)):
                                    k += 1
                                    self.add(top, limit, CONFIGS[k % 2], 'skeleton')

    # every way of writing an attribute x where the repeated unit stands x N x a limit: all copies alike
    def attr_kinds(self):
        num = lambda: u.Num(1)
        k = 0
        for kind in u.ATTR_KINDS:
            base = kind.lstrip('!')
            values = [[]] if base in ('bare', 'bool') else \
                [['v', num()], [u.Num(2, True, 3)]] + ([[]] if base else []) + \
                ([['a b', num(), ' c']] if base else []) + ([['"', num(), '"'], ["f('k', ", num(), ')']] if base == '{' else [])
            for val in values:
                for named in (False, True):
                    for shape in ('el', 'group', 'nested', 'nested-group', 'child'):
                        for n in ((2,), (3,), (1, 3), (2, 5))[k % 4]:
                            k += 1
                            x = u.El(name=['x-y'], classes=[['c', num()]],
                                     attrs=[(['t', num()] if named else ['t'], copy.deepcopy(val), kind), (['n'], [num()], '')])
                            if shape == 'el':
                                x.repeat = n
                                top = [x]
                            elif shape == 'group':
                                top = [u.Group([x, u.El(name=['q'], classes=[['d', num()]])], n)]
                            elif shape == 'nested':
                                x.repeat = n
                                top = [u.El(name=['p'], classes=[['o', num()]], repeat=2, kids=[x])]
                            elif shape == 'nested-group':
                                x.repeat = n
                                top = [u.Group([u.El(name=['p'], kids=[x]), u.El(name=['q'], classes=[['d', num()]])], 2)]
                            else:           # the attribute on an unrepeated descendant of the repeated element
                                top = [u.El(name=['p'], repeat=n, kids=[u.El(name=['q'], kids=[x])])]
                            total = u.total_repeat_copies(top)
                            limit = None if k % 3 else 1 + k % (total + 1)
                            self.add(top, limit, CONFIGS[k % len(CONFIGS)], 'attr-kinds')

    # `$#` next to counters: nesting skeletons x where the placeholder stands x what text is given x limits
    def placeholders(self):
        num = lambda: u.Num(1)
        k = 0

        def unit(as_group, el, rep):
            if as_group:
                return u.Group([el], rep)
            el.repeat = rep
            return el
        for outer_group in (False, True):
            for inner_group in (False, True):
                for n1 in (2,):
                    for n2 in (1, 2, 3):
                        n1 = 2 + (k // 7) % 2
                        for where in ('inner-attr-first', 'inner-attr-last', 'inner-text', 'inner-class', 'inner-child', 'inner-sibling-before',
                                      'outer-attr', 'outer-text', 'both', 'deep'):
                            for mode in ('none', 'string', 'lines-inner', 'lines-outer', 'lines-both', 'lines-blank'):
                                ph = lambda: [u.PH]
                                inner = u.El(name=['b'], classes=[['c', u.Num(2)]], attrs=[(['n'], [num()], ''), (['r'], [u.Num(1, True)], '"')])
                                kid = u.El(name=['i'], classes=[['k', num()]])
                                inner.kids = [kid]
                                outer = u.El(name=['x-y'], classes=[['o', num()]], attrs=[(['m'], ['v', num()], '')])
                                before = []
                                if where in ('inner-attr-first', 'both', 'deep'):
                                    inner.attrs.insert(0, (['title'], ['a ', u.PH, ' z', num()], '"'))
                                if where == 'inner-attr-last':
                                    inner.attrs.append((['w'], [u.PH, num()], '{'))
                                if where == 'inner-text':
                                    inner.text = [u.PH, 't', num()]
                                if where == 'inner-class':
                                    inner.classes.insert(0, ['p', u.PH, 'q'])
                                if where in ('inner-child', 'deep'):
                                    kid.attrs = [(['h'], ph(), ''), (['n'], [num()], '')]
                                if where == 'inner-sibling-before':
                                    before = [u.El(name=['u'], text=ph())]
                                if where in ('outer-attr', 'both'):
                                    outer.attrs.insert(0, (['title'], ph(), ''))
                                if where == 'outer-text':
                                    outer.text = ['T', u.PH, num()]
                                if where == 'deep':
                                    kid.kids = [u.El(name=['em'], classes=[['e', num()]], repeat=2, text=[u.PH, num()])]
                                # a list of lines: every `$#` needs an enclosing line repeater `*`, and a unit is
                                # only made a line repeater when a `$#` stands inside it (otherwise the text would
                                # be appended to its deepest element, which is another property's business)
                                need_outer = where in ('outer-attr', 'outer-text', 'both', 'inner-sibling-before')
                                inner_has = where not in ('outer-attr', 'outer-text', 'inner-sibling-before')
                                text = None
                                r1, r2 = n1, n2
                                if mode == 'string':
                                    text = 'W'
                                elif mode.startswith('lines'):
                                    text = ['one', 'two', 'three'][:max(n2, 2)] if mode != 'lines-blank' else ['  one', '', 'two  ', ' ', '\tthree']
                                    if need_outer or mode in ('lines-outer', 'lines-both'):
                                        r1 = u.IMPLICIT
                                    if inner_has and mode in ('lines-inner', 'lines-both', 'lines-blank'):
                                        r2 = u.IMPLICIT
                                outer.kids = before + [unit(inner_group, inner, r2)]
                                top = [unit(outer_group, outer, r1), u.El(name=['em'], classes=[['z', num()]])]
                                total = u.total_repeat_copies(top, text)
                                for limit in (None, 1 + k % (total + 1)) if k % 2 else (None,):
                                    self.add(top, limit, CONFIGS[k % len(CONFIGS)], 'placeholders', text)
                                k += 1

    # backslash escapes next to counters: position x escaped character x where it stands relative to the run x form x N
    def escapes(self):
        thorough = self.ctx.tier != 'quick'
        forms = u.all_forms(sizes=(1, 2, 3), bases=(None, 0, 3, 10))
        ns = [1, 2, 3, 9, 10, 11, 30] if thorough else [2, 3, 10, 11]
        positions = [('name', 'name'), ('id', 'id'), ('class', 'class'), ('attr', 'unquoted'), ('attrq', 'quoted'), ('attrq1', 'quoted'),
                     ('attrx', 'expression'), ('attrname', 'attrname'), ('text', 'text'), ('text-leading', 'text'),
                     ('attrq-leading', 'quoted'), ('child', 'class'), ('group-text', 'text')]
        k = 0
        for pos, where in positions:
            chars = list(dict.fromkeys(u.ESCAPABLE[where]))
            for c in chars:
                # the backslash and the dollar with every form, the others with forms taken in turn
                many = c in ('\\', '$')
                for pl_name, pl in sorted(u.ESC_PLACEMENTS.items()):
                    reps = (len(forms) if thorough else 6) if many else 1
                    for _ in range(reps):
                        k += 1
                        form = forms[k % len(forms)]
                        form2 = forms[(k * 7 + 3) % len(forms)]
                        f = u.Num(form.size, form.reverse, form.base, form.at)
                        f2 = u.Num(form2.size, form2.reverse, form2.base, form2.at)
                        n = ns[k % len(ns)]
                        lit = '' if pos.endswith('-leading') else {'name': 'x', 'attr': 'v', 'attrname': 't'}.get(pos, 'a')
                        tpl = [x for x in pl(lit, c, f, f2) if x != '']
                        e = u.El(name=['x-y'], repeat=n)
                        top = [e]
                        if pos == 'name':
                            e.name = tpl
                        elif pos == 'id':
                            e.id = tpl
                        elif pos == 'class':
                            e.classes = [tpl, ['d']]
                        elif pos == 'attr':
                            e.attrs = [(['t'], tpl, '')]
                        elif pos in ('attrq', 'attrq-leading'):
                            e.attrs = [(['t'], tpl, '"'), (['n'], [u.Num(1)], '')]
                        elif pos == 'attrq1':
                            e.attrs = [(['t'], tpl, "'")]
                        elif pos == 'attrx':
                            e.attrs = [(['t'], tpl, '{')]
                        elif pos == 'attrname':
                            e.attrs = [(tpl, ['v', u.Num(1)], '"')]
                        elif pos in ('text', 'text-leading'):
                            e.text = tpl
                        elif pos == 'child':     # inherited by an unrepeated descendant
                            e.kids = [u.El(name=['p'], kids=[u.El(name=['q'], classes=[tpl], text=copy.deepcopy(tpl))])]
                        else:                    # in a repeated group, below an outer repeater
                            e.repeat = None
                            e.text = tpl
                            top = [u.El(name=['p'], repeat=2, kids=[u.Group([e, u.El(name=['b'], classes=[['c', u.Num(1)]])], n)])]
                        u.fix_el(e)
                        total = u.total_repeat_copies(top)
                        limit = None if k % 4 else 1 + k % (total + 1)
                        if self.add(top, limit, CONFIGS[k % len(CONFIGS)], 'escapes'):
                            self.ctx.cover('escape:pos:' + pos)
                            self.ctx.cover('escape:placement:' + pl_name)
                            self.ctx.cover('escape:char:' + ('backslash' if c == '\\' else 'dollar' if c == '$' else 'other'))

    def random(self, count):
        rng = self.rng
        made = 0
        tries = 0
        while made < count and tries < count * 3:
            tries += 1
            big = rng.random() < 0.15
            p_ph = rng.choice([0.0, 0.0, 0.0, 0.2, 0.4])
            nodes = u.rand_forest(rng, self.names, rng.randint(1, 14 if big else 7), max_depth=5,
                                  rep_max=30 if rng.random() < 0.2 else 6, p_num=rng.choice([0.3, 0.5, 0.8]),
                                  p_ph=p_ph, rich=rng.random() < 0.5)
            text = None
            if rng.random() < P_RANDOM_ESCAPES:
                u.sprinkle_escapes(rng, nodes, rng.choice([0.3, 0.6]))
            if p_ph and u.forest_has_ph(nodes):
                r = rng.random()
                if r < 0.3:
                    text = rng.choice(['W', 'two words', 'x1'])
                elif r < 0.6:
                    text = [u.rand_word(rng, 1, 4) for _ in range(rng.randint(1, 4))]
                    if rng.random() < 0.2:
                        text.insert(rng.randint(0, len(text)), rng.choice(['', '  ']))
                    u.make_line_repeaters(rng, nodes)
            total = u.total_repeat_copies(nodes, text)
            if total > (500 if rng.random() < 0.05 else 150):
                continue
            r = rng.random()
            if r < 0.3 or total == 0:
                limit = None
            elif r < 0.9:
                limit = rng.randint(1, total + 2)
            else:
                limit = rng.choice([1, 2, total, total + 1, total + 2])
            if self.add(nodes, limit, rng.choice(CONFIGS), 'random', text):
                made += 1

    def corpus(self):
        for p in sorted(glob.glob(os.path.join(VERIF, 'corpus', 'C02', '*.json'))):
            with open(p) as f:
                o = json.load(f)
            exp = from_json(o['expected']) if o.get('expected') is not None else None
            self.cases.append(Case(o['abbr'], o.get('config', {}), exp, 'corpus'))
            self.ctx.cover('gen:corpus')


def all_units(nodes):
    for n in nodes:
        yield n
        yield from all_units(n.items if isinstance(n, u.Group) else n.kids)


def form_kind(f):
    if not f.at:
        return 'plain'
    if f.reverse:
        return '@-M' if f.base is not None else '@-'
    return '@M' if f.base is not None else '@'


# forms outside the claim (N = 0, implicit `*`, the `@^` parent modifier): model correspondence only
TIE_ONLY = ['a*0', 'x-y.c$*0', '(p+q.c$$)*0', 'p*2>q.x$@^*3', 'p*2>q*2>b.x$@^^', 'p$@^*2', 'p*2>q.x$@^-*3', 'p*2>q.x$$$@^-5*3',
            'p*3>(q.x$@^*2)', 'p*', 'p*>q.c$', 'p*0>q*0', '(p*0)*2', 'p.c$@-*0', 'p*2>q.x$@^^^7*2', 'p*01', 'p*007>q.c$$',
            'p*2>q*2>b.x$@^*2', 'p*2>q*3>b*2>i.x$@^^', 'p*2>(q*2>b.x$$@^-3*2)', 'p*3>q*2>b.x$@^^^*2', 'p*2>q*2>b*2>i$@^*2>u.c$@^^',
            '(p*2>q*2>b.x$@^*3)*2', 'p*2>q*2>b[t=$@^ w=$$@^^-2]{$@^4}*2']


# ---------------------------------------------------------------- tokens of numbering forms
def numbering_strings(ctx):
    out = []
    sizes = range(1, 7) if ctx.tier == 'quick' else range(1, 12)
    bases = ['', '0', '1', '7', '10', '007', '123', '99999'] if ctx.tier == 'quick' else \
        [''] + [str(b) for b in range(0, 130)] + ['007', '99999', '1000000007']
    for size in sizes:
        out.append(('$' * size, (size, False, 1, 0)))
        for rev in (False, True):
            for b in bases:
                s = '$' * size + '@' + ('-' if rev else '') + b
                out.append((s, (size, rev, int(b) if b else 1, 0)))
    return out


# ... and directly after / before an escaped character: `\\` is a backslash, `\$` a dollar sign, neither takes part in the run
ESCAPE_CONTEXTS = (('a{\\\\', '}'), ('a{\\$', '\\$}'), ('a[t="\\\\', '\\\\"]'), ("a[t='x\\\\", "']"), ('a[t=v\\\\', ']'), ('a[t={\\\\', '}]'),
                   ('a.c\\\\', '\\@'), ('a#i\\$', ''), ('a\\\\', '*2'), ('a[t\\\\', '=v]'), ('a{\\\\\\$', '\\-3}'))


def run_tokens(ctx, model):
    """Every `$...$@-M` form tokenizes to RepeaterNumber(size, reverse, base), alone and inside a name."""
    strings = numbering_strings(ctx)
    wires = []
    items = []
    fails = 0
    for s, want in strings:
        for pre, post in (('', ''), ('ab', ''), ('a', 'b'), ('a', '*3'), ('a.c', '.d'), ('a{t ', '}'), ('a[t="', '"]')) + ESCAPE_CONTEXTS:
            src = pre + s + post
            r = impl_markup(src)
            ctx.count_eval()
            ctx.cover('tokens:numbering-form')
            ok = r[0] == 'ok' and any(k == ('RepeaterNumber',) + want and st == len(pre) and en == len(pre) + len(s)
                                      for k, st, en in r[1])
            if not ok:
                fails += 1
            if not ok and fails <= 3:       # a few token-level inputs; the end-to-end streams report the rest
                ctx.property_failure('C02:tokenize:' + src,
                                     'tokenize(%r): no RepeaterNumber(size=%d, reverse=%r, base=%d) over [%d,%d): %r' % (
                                         (src,) + want[:3] + (len(pre), len(pre) + len(s), r)),
                                     {'kind': 'tokenize', 'src': src, 'want': list(want), 'span': [len(pre), len(pre) + len(s)]})
            wires.append([1] + enc_str(src))
            items.append((src, r))
    dis = 0
    if model is not None:
        for (src, r), w in zip(items, model.run(wires)):
            if decode_markup(w) != r:
                dis += 1
                if dis <= 3:
                    ctx.say('DISAGREE tokenize %r\n  impl  %r\n  model %r' % (src, r, decode_markup(w)))
                    ctx.broken.append({'kind': 'correspondence', 'file': 'markup-tokenize', 'input': src})
        ctx.cov['correspondence']['markup_tokenize_numbering'] = {'cases': len(wires), 'disagreements': dis}


# ---------------------------------------------------------------- the converted tree (second observable)
def impl_tree(abbr, cfg):
    """Preorder (depth, name, repeat = (count, value, implicit) | None) of emmet.markup.parse's tree:
    the repetition each copy is tagged with is part of what convert_count states."""
    from emmet.config import Config
    from emmet.markup import parse
    try:
        tree = parse(abbr, Config(copy.deepcopy(cfg)))
    except Exception as e:  # noqa
        return classify_exc(e)
    out = []

    def walk(n, d):
        rp = n.repeat
        out.append((d, n.name, None if rp is None else (rp.count, rp.value, bool(rp.implicit))))
        for c in n.children:
            walk(c, d + 1)
    for c in tree.children:
        walk(c, 0)
    return ('ok', out)


def decode_tree(w):
    def entry(r):
        d = r.int()
        nm = r.opt(r.str)
        rp = r.opt(lambda: (r.int(), r.int(), r.bool()))
        return (d, nm, rp)
    return decode_res(w, lambda r: r.list(lambda: entry(r)))


# ---------------------------------------------------------------- the SPEC of the theorems against convert.py
VTYPES = {'raw': 0, 'singleQuote': 1, 'doubleQuote': 2, 'expression': 3}


def impl_convert(abbr, max_repeat):
    """emmet.abbreviation.parse = tokenize + parse + convert, the function the C02 theorems are about:
    canonical preorder of its node tree (before snippet resolution and formatting)."""
    from emmet.abbreviation import parse
    from emmet.abbreviation.tokenizer import tokens as T
    try:
        tree = parse(abbr, {} if max_repeat is None else {'max_repeat': max_repeat})
    except Exception as e:  # noqa
        return classify_exc(e)

    def val(v):
        if v is None:
            return None
        out = []
        for x in v:
            if isinstance(x, str):
                out.append(('s', x))
            elif isinstance(x, T.Field):
                out.append(('f', x.index, x.name))
            else:
                out.append(('?', repr(x)))
        return out
    res = []

    def walk(n, d):
        rp = n.repeat
        attrs = None
        if n.attributes is not None:
            attrs = [(a.name, val(a.value), VTYPES.get(a.value_type, 9), bool(a.boolean), bool(a.implied), bool(a.multiple))
                     for a in n.attributes]
        res.append((d, n.name, val(n.value), None if rp is None else (rp.count, rp.value, bool(rp.implicit)),
                    attrs, bool(n.self_closing)))
        for c in n.children:
            walk(c, d + 1)
    for c in tree.children:
        walk(c, 0)
    return ('ok', res)


def decode_spec(w):
    r = Reader(w)
    tag = r.int()
    if tag == 1:
        return ('err', r.int(), r.opt(r.int)), None, None
    if tag == 2:
        return ('internal', r.int()), None, None
    if tag != 0:
        return ('bad', w[:8]), None, None
    clean = r.bool()

    def vtok():
        if r.int() == 0:
            return ('s', r.str())
        return ('f', r.int(), r.str())

    def forest():
        out = []
        while r.int() == 1:
            d = r.int()
            nm = r.opt(r.str)
            v = r.opt(lambda: r.list(vtok))
            rp = r.opt(lambda: (r.int(), r.int(), r.bool()))
            at = r.opt(lambda: r.list(lambda: (r.opt(r.str), r.opt(lambda: r.list(vtok)), r.int(), r.bool(), r.bool(), r.bool())))
            sc = r.bool()
            out.append((d, nm, v, rp, at, sc))
        return out
    m = forest()
    sp = forest() if clean else None
    return ('ok', m), clean, sp


def run_spec(ctx, cases):
    """Extracted SPEC (list_b (unroll_b ...), the right-hand side of C02_limit_full) and extracted
    model convert, against emmet.abbreviation.parse on the same abbreviations; also counts on how
    many generated inputs the theorems' hypothesis clean_node holds."""
    ok = ctx.build(['run/RepeatRun.vo'])
    model = ctx.model('repeat') if ok else None
    if model is None:
        return
    step = 1 if ctx.tier == 'quick' else 3
    # abbreviation-level convert without a text: cases with a wrapped text go through the markup model only
    sel = [c for c in cases[::step] if (c.exp is None or u.count_nodes(c.exp) <= MODEL_MAX_NODES) and c.cfg.get('text') is None]
    wires = []
    for c in sel:
        m = c.cfg.get('maxRepeat')
        wires.append([1] + enc_opt(lambda x: [x], m) + enc_str(c.abbr))
    dis_model = dis_spec = n_clean = 0
    for c, w in zip(sel, model.run(wires)):
        im = impl_convert(c.abbr, c.cfg.get('maxRepeat'))
        mo, clean, sp = decode_spec(w)
        ctx.count_eval()
        if im[0] == 'recursion':
            continue
        if mo != im:
            dis_model += 1
            if dis_model <= 3:
                ctx.say('DISAGREE C02 convert %r max_repeat=%r\n  impl  %r\n  model %r' % (c.abbr, c.cfg.get('maxRepeat'), str(im)[:400], str(mo)[:400]))
                ctx.broken.append({'kind': 'correspondence', 'file': 'convert-model', 'input': c.abbr,
                                   'impl': repr(im)[:300], 'model': repr(mo)[:300]})
        if clean:
            n_clean += 1
            if ('ok', sp) != im:
                dis_spec += 1
                if dis_spec <= 3:
                    ctx.say('DISAGREE C02 spec %r max_repeat=%r\n  impl %r\n  spec %r' % (c.abbr, c.cfg.get('maxRepeat'), str(im)[:400], str(sp)[:400]))
                    ctx.broken.append({'kind': 'correspondence', 'file': 'convert-spec', 'input': c.abbr,
                                       'impl': repr(im)[:300], 'spec': repr(sp)[:300]})
    ctx.cov['correspondence']['convert_model'] = {'cases': len(sel), 'disagreements': dis_model}
    ctx.cov['correspondence']['convert_spec_unroll_b'] = {'cases': n_clean, 'disagreements': dis_spec}
    ctx.cov['distribution']['theorem-hypothesis:clean_node holds'] = n_clean
    ctx.cov['distribution']['theorem-hypothesis:clean_node fails'] = len(sel) - n_clean


# ---------------------------------------------------------------- run
def run_cases(ctx, model, cases):
    impl = []
    wires = []
    idx = []
    for k, c in enumerate(cases):
        r = impl_expand(c.abbr, c.cfg)
        impl.append(r)
        ctx.count_eval()
        ctx.cover('result:' + r[0])
        if c.exp is not None:
            bad = check_output(c.exp, r)
            if bad:
                ctx.property_failure(key_of(c.abbr, c.cfg),
                                     'expand(%r, %s): %s' % (c.abbr, canon_cfg(c.cfg), bad),
                                     {'kind': 'expand', 'abbr': c.abbr, 'config': c.cfg, 'expected': to_json(c.exp),
                                      'output': r[1][:2000] if r[0] == 'ok' else repr(r), 'why': bad})
        if model is not None and c.exp is not None and u.count_nodes(c.exp) > MODEL_MAX_NODES:
            ctx.cover('model:skipped-large-output')     # the extracted model keeps positions in unary nat
        elif model is not None:
            try:
                wires.append([2] + enc_config(c.cfg) + enc_str(c.abbr))
                idx.append(k)
            except NotModelled:
                ctx.cover('not-modelled')
    dis = 0
    if wires:
        for k, w in zip(idx, model.run(wires)):
            mo = decode_expand(w)
            im = impl[k]
            if im[0] == 'recursion':
                continue
            if mo != im:
                dis += 1
                if dis <= 5:
                    c = cases[k]
                    ctx.say('DISAGREE C02 %r cfg=%s\n  impl  %r\n  model %r' % (c.abbr, canon_cfg(c.cfg), str(im)[:400], str(mo)[:400]))
                    ctx.broken.append({'kind': 'correspondence', 'file': 'markup-C02', 'input': c.abbr,
                                       'config': canon_cfg(c.cfg), 'impl': repr(im)[:300], 'model': repr(mo)[:300]})
    c = ctx.cov['correspondence'].setdefault('markup_C02', {'cases': 0, 'disagreements': 0})
    c['cases'] += len(wires)
    c['disagreements'] += dis
    # second observable on a slice of the same cases: the converted tree with its repetition tags
    if model is not None and idx:
        step = 1 if ctx.tier == 'quick' else 4
        sel = idx[::step]
        outs = model.run([[4] + wires[j][1:] for j in range(0, len(idx), step)])
        tdis = 0
        for k, w in zip(sel, outs):
            c_ = cases[k]
            it = impl_tree(c_.abbr, c_.cfg)
            mt = decode_tree(w)
            if it[0] == 'recursion':
                continue
            if it != mt:
                tdis += 1
                if tdis <= 3:
                    ctx.say('DISAGREE C02 tree %r cfg=%s\n  impl  %r\n  model %r' % (c_.abbr, canon_cfg(c_.cfg), str(it)[:400], str(mt)[:400]))
                    ctx.broken.append({'kind': 'correspondence', 'file': 'markup-C02-tree', 'input': c_.abbr,
                                       'config': canon_cfg(c_.cfg), 'impl': repr(it)[:300], 'model': repr(mt)[:300]})
        ctx.cov['correspondence']['markup_C02_tree'] = {'cases': len(sel), 'disagreements': tdis}
    return impl


def jsx_cases(ctx, g):
    """Capitalised (component) names under the jsx option: `$` runs in the name are numbered like anywhere else."""
    for syn in ('jsx', 'svelte'):
        for n in (1, 2, 3):
            for name, form, val in (('Item', '$', lambda i, n: str(i)), ('Foo.Bar', '$$@-', lambda i, n: '%02d' % (n - i + 1)),
                                    ('Card', '$@3', lambda i, n: str(2 + i)), ('item', '$', lambda i, n: str(i))):
                abbr = '%s%s[k=v$]*%d' % (name, form, n)
                exp = [(name + val(i, n), {'k': 'v%d' % i}, '', []) for i in range(1, n + 1)]
                g.cases.append(Case(abbr, {'syntax': syn, 'options': {'output.format': False}}, exp, 'jsx-component'))
                ctx.cover('gen:jsx-component-name')


POISON_ABBRS = ['a{${1:foo', 'p[title=${1 x}]', 'p{${1', 'a[href=${1', 'ul>li[title="x', '(a>b', 'a{t', '{${x']


def after_rejected(ctx, cases):
    """Copies and numbering do not depend on earlier calls, in particular not on earlier REJECTED abbreviations
    (what an editor sends mid-typing): every few cases a malformed abbreviation is expanded first."""
    rng = ctx.rng
    sel = [c for c in cases if c.exp is not None]
    step = max(1, len(sel) // (400 if ctx.tier == 'quick' else 4000))
    n = 0
    for c in sel[::step]:
        poison = rng.choice(POISON_ABBRS)
        impl_expand(poison, c.cfg)
        r = impl_expand(c.abbr, c.cfg)
        n += 1
        ctx.count_eval()
        ctx.cover('after-rejected-abbreviation')
        bad = check_output(c.exp, r)
        if bad:
            ctx.property_failure('after-rejected:' + key_of(c.abbr, c.cfg),
                                 'expand(%r, %s) right after the rejected abbreviation %r: %s' % (c.abbr, canon_cfg(c.cfg), poison, bad),
                                 {'kind': 'expand-after-rejected', 'abbr': c.abbr, 'config': c.cfg, 'poison': poison,
                                  'expected': to_json(c.exp), 'output': r[1][:2000] if r[0] == 'ok' else repr(r), 'why': bad})
            break
    ctx.cov['after_rejected_sequences'] = n


# ---------------------------------------------------------------- the limit as settings deliver it, on every route
# The statement speaks of "a maxRepeat limit M": M is a number of copies.  Settings reach the library from JSON / YAML /
# an editor bridge, so the same M arrives as 2 or as 2.0, and under either spelling the library reads
# (`maxRepeat`: README / Emmet config docs; `max_repeat`: the option of emmet.abbreviation.parse, tests/abbreviation/
# test_convert.py test_limit_unroll, also read from the settings by emmet.markup.parse).
LIMIT_SPELLINGS = ('maxRepeat', 'max_repeat', 'both')
LIMIT_SHAPES = ('int', 'float')
# Entry points of the package that take an abbreviation and settings (emmet/__init__.py): expand with a dict, expand
# with a Config object, expand_markup, the two documented steps markup_abbreviation + stringify_markup, and the
# abbreviation-level emmet.abbreviation.parse (the function the theorems are about; observed as a node tree).
ROUTES = ('expand-dict', 'expand-Config', 'expand-markup', 'two-step', 'abbreviation-parse')
DELIVERIES = [(sp, sh, rt) for rt in ROUTES for sp in LIMIT_SPELLINGS for sh in LIMIT_SHAPES
              if (sp, sh, rt) != ('maxRepeat', 'int', 'expand-dict') and not (rt == 'abbreviation-parse' and sp != 'max_repeat')]


def spell_limit(base, limit, text, spelling, shape):
    """The settings `base` plus the limit M written the given way plus the text."""
    cfg = copy.deepcopy(base)
    if limit is not None:
        v = float(limit) if shape == 'float' else int(limit)
        if spelling in ('maxRepeat', 'both'):
            cfg['maxRepeat'] = v
        if spelling in ('max_repeat', 'both'):
            cfg['max_repeat'] = v
    if text is not None:
        cfg['text'] = copy.deepcopy(text)
    return cfg


ZZBOOM = 'ZZBOOM'


def _raising_text(text, **kw):
    """An `output.text` callback of the caller that fails on one marked text and is the identity otherwise."""
    if ZZBOOM in text:
        raise RuntimeError('text callback of the caller failed')
    return text


def make_settings(route, cfg, callback=False):
    """What the caller holds and passes to every call: (object handed to the library, the caller's own dict)."""
    from emmet.config import Config
    raw = copy.deepcopy(cfg)
    if callback:
        raw.setdefault('options', {})['output.text'] = _raising_text
    if route == 'abbreviation-parse':
        raw = {k: v for k, v in raw.items() if k in ('max_repeat', 'text')}
        return raw, raw
    if route == 'expand-dict':
        return raw, raw
    return Config(raw), raw


def call_route(route, abbr, settings):
    """One call; the settings object is passed as it is (never copied): ('ok', output string | node tree) or a failure."""
    import emmet
    from emmet.abbreviation import parse as abbreviation_parse
    from common import Hang, time_limit
    from markup_util import CALL_LIMIT_S
    try:
        with time_limit(CALL_LIMIT_S):
            if route in ('expand-dict', 'expand-Config'):
                return ('ok', emmet.expand(abbr, settings))
            if route == 'expand-markup':
                return ('ok', emmet.expand_markup(abbr, settings))
            if route == 'two-step':
                return ('ok', emmet.stringify_markup(emmet.markup_abbreviation(abbr, settings), settings))
            if route == 'abbreviation-parse':
                return ('ok', abbreviation_parse(abbr, settings))
            raise ValueError(route)
    except Hang:
        return ('hang', CALL_LIMIT_S)
    except Exception as e:  # noqa
        return classify_exc(e)


def tree_diff(exp, nodes, path=''):
    """The abbreviation-level node tree against the expected forest: the same number of nodes in the same places,
    and the same names wherever the abbreviation names the element (an unnamed element gets its name later)."""
    if len(exp) != len(nodes):
        return '%s: %d element(s) expected, %d found (%s | %s)' % (
            path or 'top level', len(exp), len(nodes), ' '.join(e[0] for e in exp)[:120], ' '.join(str(n.name) for n in nodes)[:120])
    for k, (e, n) in enumerate(zip(exp, nodes)):
        here = '%s/%s[%d]' % (path, e[0], k)
        if n.name is not None and n.name != e[0]:
            return '%s: name %r expected, %r found' % (here, e[0], n.name)
        bad = tree_diff(e[3], n.children, here)
        if bad:
            return bad
    return None


def check_route(route, exp, r):
    """The property on the result of one call by the given route."""
    if route != 'abbreviation-parse':
        return check_output(exp, r)
    if r[0] != 'ok':
        return 'emmet.abbreviation.parse did not return a tree: %r' % (r,)
    return tree_diff(exp, r[1].children)


def show_result(r):
    if r[0] != 'ok':
        return repr(r)
    if isinstance(r[1], str):
        return r[1][:2000]

    def names(ns):
        return [[n.name, names(n.children)] for n in ns]
    return json.dumps(names(r[1].children))[:2000]


def limit_delivery(ctx, g):
    """Every generated abbreviation with a limit once more with the limit written another way and / or called by
    another route; abbreviations without a limit by the other routes."""
    with_limit = [c for c in g.cases if c.nodes is not None and c.limit is not None]
    without = [c for c in g.cases if c.nodes is not None and c.limit is None]
    if ctx.tier == 'quick':
        with_limit = with_limit[::max(1, len(with_limit) // 2500)]
        without = without[::max(1, len(without) // 600)]
    fails = 0
    n = 0
    todo = [(c, DELIVERIES[j % len(DELIVERIES)]) for j, c in enumerate(with_limit)] + \
           [(c, ('none', 'none', ROUTES[1 + j % (len(ROUTES) - 1)])) for j, c in enumerate(without)]
    for c, (spelling, shape, route) in todo:
        cfg = spell_limit(c.base, c.limit, c.text, spelling, shape)
        settings, _ = make_settings(route, cfg)
        r = call_route(route, c.abbr, settings)
        n += 1
        ctx.count_eval()
        ctx.cover('delivery:route:' + route)
        if c.limit is not None:
            ctx.cover('delivery:limit-spelling:' + spelling)
            ctx.cover('delivery:limit-shape:' + shape)
            ctx.cover('delivery:limit-' + ('truncates' if u.total_repeat_copies(c.nodes, c.text) > c.limit else 'not-reached'))
        bad = check_route(route, c.exp, r)
        if bad:
            fails += 1
            ctx.property_failure('C02:delivery:%s|%s|%s' % (route, c.abbr, canon_cfg(cfg)),
                                 '%s(%r, %s): %s' % (route, c.abbr, canon_cfg(cfg), bad),
                                 {'kind': 'delivery', 'route': route, 'abbr': c.abbr, 'config': cfg,
                                  'expected': to_json(c.exp), 'output': show_result(r), 'why': bad})
            if fails >= 20:
                break
    ctx.cov['limit_delivery_cases'] = n


# ---------------------------------------------------------------- one settings object, many calls, some of them failing
# User snippets the caller's settings may hold: two that work, and broken ones (what a user's snippets file looks like
# mid-edit) which make a call fail INSIDE snippet resolution.  The names cannot be generated (abbr_gen.PLAIN_NAMES).
USER_SNIPPETS = {'zzcard': 'div.card>p.t$', 'zzrow': 'b.s$*3>i', 'zzq1': 'a[title="oops', 'zzq2': 'p{x}}',
                 'zzq3': 'b>i)', 'zzq4': 'b[t=${1', 'zzq5': 'p>zzq1', 'zzq6': 'em{${1:x', 'zzq7': 'li*2>>a'}
DISTURBANCES = {
    # kind: (abbreviations, what the settings must hold)
    'rejected-by-tokenizer': (['a{${1:foo', 'p[title=${1 x}]', 'p{${1', 'a[href=${1', '{${x', 'a{${1:${2}', 'a,b', 'ul>li.c$*3|', 'p.c$*2&'], None),
    'rejected-by-parser': (['ul>li[title="x', "b[t='", 'a+*3', 'a*2>b)', 'a{x}}', '(a))', 'p*2>q[t="x" "]', 'ul>li*2>>a', 'a]'], None),
    'unfinished-but-accepted': (['(a>b', 'a{t', 'a[', 'p*2>q{', 'ul>li*3>a['], None),
    'broken-user-snippet': (['zzq1', 'ul>zzq2', 'zzq3*2', 'p>em+zzq4', 'zzq5.c$*2', '(p>zzq1)*2', 'zzcard>zzq6', 'ul>zzq7'], 'snippets'),
    'working-user-snippet': (['zzcard*2', 'zzrow', 'ul>zzrow*2'], 'snippets'),
    'raising-output-callback': (['p{%s}' % ZZBOOM, 'ul>li*2>b{x %s}' % ZZBOOM, 'p[title=%s]{t}+em{%s}*2' % (ZZBOOM, ZZBOOM)], 'callback'),
}
SEQ_ROUTES = ('expand-dict', 'expand-Config', 'expand-dict', 'expand-Config', 'expand-markup', 'two-step', 'abbreviation-parse')


def run_sequence(route, cfg, callback, calls):
    """The calls in order on ONE settings object.  calls: [(abbr, expected forest | None = result not judged)].
    -> (index of the first judged call on which the property fails | None, what fails, results, the caller's dict)."""
    settings, raw = make_settings(route, cfg, callback)
    results = []
    for k, (abbr, exp) in enumerate(calls):
        r = call_route(route, abbr, settings)
        results.append(r)
        if exp is not None:
            bad = check_route(route, exp, r)
            if bad:
                return k, bad, results, raw
    return None, None, results, raw


def reused_settings(ctx, g):
    """An editor keeps ONE settings object (a dict, or a Config built once) and calls the library with it again and
    again, catching the errors of the calls that fail.  Every judged call must give what the statement prescribes for
    its abbreviation and the limit in those settings, whatever was called before with the same object."""
    rng = ctx.rng
    pool = {}
    for c in g.cases:
        if c.nodes is not None:
            pool.setdefault(json.dumps(c.text), []).append(c)
    everything = [c for cs in pool.values() for c in cs]
    for nm in USER_SNIPPETS:
        assert nm not in g.names and nm not in g.snippets, nm
    n_seq = 400 if ctx.tier == 'quick' else 6000
    fails = 0
    done = 0
    for s in range(n_seq):
        first = rng.choice(everything)
        group = pool[json.dumps(first.text)]
        members = [first] + [rng.choice(group) for _ in range(rng.randint(1, 4))]
        totals = [u.total_repeat_copies(m.nodes, m.text) for m in members]
        limit = None if rng.random() < 0.12 else rng.randint(1, max(1, rng.choice(totals) + 1))
        spelling = LIMIT_SPELLINGS[s % 3]
        shape = LIMIT_SHAPES[(s // 3) % 2]
        route = SEQ_ROUTES[(s // 6) % len(SEQ_ROUTES)]
        if route == 'abbreviation-parse':
            spelling = 'max_repeat'
        with_snippets = route != 'abbreviation-parse' and rng.random() < 0.75
        callback = route != 'abbreviation-parse' and rng.random() < 0.3
        cfg = spell_limit(rng.choice(CONFIGS), limit, first.text, spelling, shape)
        if with_snippets:
            cfg['snippets'] = dict(USER_SNIPPETS)
        kinds = [k for k, (_, needs) in sorted(DISTURBANCES.items())
                 if needs is None or (needs == 'snippets' and with_snippets) or (needs == 'callback' and callback)]
        calls = []
        what = []
        for m in members:
            exp, _ = u.expected(m.nodes, limit, g.inline, m.text)
            if not g.acceptable(exp, 300):
                continue
            while rng.random() < (0.75 if not what or what[-1] == 'case' else 0.25):
                kind = rng.choice(kinds)
                calls.append((rng.choice(DISTURBANCES[kind][0]), None))
                what.append(kind)
            calls.append((m.abbr, exp))
            what.append('case')
        if 'case' not in what:
            continue
        k, bad, results, raw = run_sequence(route, cfg, callback, calls)
        done += 1
        ctx.cover('sequence:route:' + route)
        ctx.cover('sequence:limit-spelling:' + (spelling if limit is not None else 'none'))
        ctx.cover('sequence:limit-shape:' + (shape if limit is not None else 'none'))
        ctx.cover('sequence:text:' + ('none' if first.text is None else 'lines' if isinstance(first.text, list) else 'string'))
        for w, r in zip(what, results):
            ctx.count_eval()
            if w == 'case':
                ctx.cover('sequence:judged-call')
            else:
                ctx.cover('sequence:%s:%s' % (w, 'raised' if r[0] != 'ok' else 'returned'))
        for j in range(1, len(results)):
            if what[j] == 'case' and what[j - 1] != 'case':
                ctx.cover('sequence:judged-call-after:%s' % what[j - 1])
        if bad is None:
            continue
        # the shortest part of the sequence that still shows it: the call alone, the call before it + the call, all
        fails += 1
        tries = [calls[k:k + 1], calls[k - 1:k + 1] if k >= 1 else None, calls[:k + 1]]
        for t in tries:
            if not t:
                continue
            k2, bad2, res2, raw2 = run_sequence(route, cfg, callback, t)
            if bad2:
                calls_min, bad, r_last, raw = t, bad2, res2[-1], raw2
                break
        else:
            calls_min, r_last = calls[:k + 1], results[k]
        # ... and of the user snippets only those the remaining calls name (directly or through another snippet)
        cfg_min = cfg
        if 'snippets' in cfg:
            keep = {}
            texts = [a for a, _ in calls_min]
            while True:
                more = {nm: body for nm, body in cfg['snippets'].items() if nm not in keep and any(nm in t for t in texts)}
                if not more:
                    break
                keep.update(more)
                texts.extend(more.values())
            small = dict(cfg, snippets=keep)
            if not keep:
                del small['snippets']
            k2, bad2, res2, raw2 = run_sequence(route, small, callback, calls_min)
            if bad2:
                cfg_min, bad, r_last, raw = small, bad2, res2[-1], raw2
        cfg = cfg_min
        now = {key: raw.get(key, '<no longer there>') for key in ('maxRepeat', 'max_repeat', 'text') if key in cfg}
        story = ' ; then '.join(repr(a) for a, _ in calls_min)
        ctx.property_failure('C02:sequence:%s|%s|%s|%s' % (route, canon_cfg(cfg), callback, story),
                             'one settings object %s%s used by route %s for the calls %s: the last call: %s (the caller\'s settings '
                             'now hold %s)' % (canon_cfg(cfg), ' + a text callback that raises on %s' % ZZBOOM if callback else '',
                                               route, story, bad, canon_cfg(now)),
                             {'kind': 'sequence', 'route': route, 'config': cfg, 'callback': callback,
                              'calls': [[a, to_json(e) if e is not None else None] for a, e in calls_min],
                              'output': show_result(r_last), 'why': bad})
        if fails >= 10:
            break
    ctx.cov['reused_settings_sequences'] = done


def run(ctx):
    ok = ctx.build(['props/C02.vo', 'run/MarkupRun.vo'])
    if ok:
        ctx.obligations('props/C02.v')
    model = ctx.model('markup') if ok else None
    ctx.cov['rule'] = (
        'abbreviations rendered from an AST: elements and groups with *N (N <= 30) nested to depth 5, numbering '
        'forms ($-runs of width 1..6, @, @M, @-, @-M) in element names, ids, classes, attribute names/values and text, '
        'maxRepeat from 1 to total+2 (total = copies completed without a limit) or absent; streams: corpus, every '
        'form x every position x N, nesting skeletons x every limit, random forests, escapes (below). non-trivial = expected forest '
        'has at least two elements; distinct by (abbreviation, config). Oracle: forest of (name, attributes, text) '
        'computed from the AST by the statement (copies i=1..N, counter of the nearest repeated unit or 1, '
        'start+i-1 / start+N-i, zero padding to the run width, copies completed in document order until the limit '
        'is reached, then every repeater stops after the copy it is in) = tag parse of the output. Under a limit '
        'a reversed counter still counts down from start+N-1 (N as written). Outside the claim, compared with the '
        'model only: *0, implicit *, the @^ modifier. Numbering tokens: every form alone and embedded, token '
        'fields compared with the written (size, reverse, base). '
        'Attribute value kinds: every way of writing an attribute (unquoted, "..", \'..\', {expression}, explicitly '
        'empty "" \'\' {}, no value, boolean `name.`, implied `!name` with each of these) in forms (position attrx), in '
        'a stream of its own (kind x value x numbered name x repeated element / group / nested in a repeater / '
        'nested in a repeated group / unrepeated descendant x N in 1,2,3,5 x limit) and in half of the random forests: '
        'every copy must show the attribute as copy 1 does (an expression stays `name={..}`, observed with its braces; '
        'output forms hard-coded in repeat_util.ATTR_KINDS from the Emmet syntax documentation). '
        'Repeater placeholder `$#` next to counters: stream placeholders = two nested repeaters (elements and groups, '
        'N1 in 2,3, N2 in 1,2,3) x where the `$#` stands (inner attribute before / after the numbered ones, inner text, '
        'class, inner child, sibling before the inner repeater, outer attribute / text, several, three levels) x text '
        '(none: `$#` yields nothing; one string; a list of lines with the inner, outer or both repeaters written `*` = '
        'one copy per non-blank line, blank and indented lines included) x limit; 40% of the random forests carry `$#` in '
        'classes, attribute values and text, with a string or with lines and randomly chosen enclosing units turned '
        'into line repeaters. A line repeater is a repeated unit with N = number of non-blank lines (its counter and '
        'the maxRepeat clause as for *N); only generated with a `$#` inside, and with lines every `$#` has one around '
        'it (where the text goes without `$#` is not part of C02). The convert-level model/spec comparison (RepeatRun) '
        'takes no text: cases with a text are compared through the markup model only. '
        'Backslash escapes next to counters (documented: a backslash takes the next character literally and is not output, '
        '`\\$` is a dollar sign and no counter, `\\\\` is one backslash after which a `$` run is a run like after any other '
        'character; hard-coded in repeat_util.Esc): stream escapes = position (element name, id, class, unquoted / "double" / '
        "'single' / {expression} attribute value, attribute name, text, value or text STARTING with the escape, class+text of an "
        'unrepeated descendant, text in a repeated group below a repeater) x escaped character (backslash, dollar, @ - # . * + ^ '
        '( ) [ ] { } : , ! % / = | space digit letter, as far as the output observer can read the character back in that '
        'position) x placement (escape directly before the run, directly after it, between two runs, escaped backslash + '
        'escape before, two escapes before, apart on both sides, around, escape and no run at all) x numbering form (widths '
        '1..3, @, @M, @-, @-M; backslash and dollar with six forms each, all forms in the thorough tier) x N x limit; 30% of the '
        'random forests get escapes of the same alphabets sprinkled into their templates (at piece boundaries = next to `$` '
        'runs and `$#`, and inside literals; explicitly empty values stay empty). Numbering tokens are also tokenized '
        'directly after an escaped backslash / escaped dollar in text, quoted, unquoted and expression values, class, id, '
        'element and attribute name. '
        'The limit as settings deliver it (stream delivery, oracle only -- the model takes the resolved limit as a natural '
        'number): the generated cases with a limit once more with the limit spelled maxRepeat / max_repeat / both keys, as '
        'an int or as the integral float a JSON/YAML bridge hands over (2.0), by every entry point: expand with a dict, expand '
        'with a Config object, expand_markup, markup_abbreviation + stringify_markup, and emmet.abbreviation.parse with the '
        'max_repeat option (there the expected forest is compared with the node tree: places and written names); cases '
        'without a limit by the other routes. One settings object for many calls (stream sequence, oracle only): a dict or a '
        'Config object built once is passed, uncopied, to 2..5 generated abbreviations (expectation recomputed from the AST for '
        'the limit of that object: none, or 1..total+1 in every spelling and shape), between them calls the caller catches: '
        'abbreviations rejected by the tokenizer, rejected by the parser, unfinished but accepted, abbreviations naming a user snippet whose body is broken (unclosed '
        'quote, brace, group, field; directly and through another snippet: the call fails inside snippet resolution), user '
        'snippets that work, and an output.text callback of the caller that raises during output; every judged call must '
        'still show the copies and counters the statement prescribes. A failing sequence is cut down to the call alone / the '
        'call before it + the call / the prefix, whichever still fails, and that is the replay.')
    g = Gen(ctx)
    g.corpus()
    g.forms()
    g.skeletons()
    g.attr_kinds()
    g.placeholders()
    g.escapes()
    g.random(3000 if ctx.tier == "quick" else 60000)
    for k, abbr in enumerate(TIE_ONLY):
        for cfg in ({'options': {'output.format': False}}, {'options': {'output.format': False}, 'maxRepeat': 2 + k % 3}):
            g.cases.append(Case(abbr, cfg, None, 'tie-only'))
            ctx.cover('gen:tie-only')
    jsx_cases(ctx, g)
    impl = run_cases(ctx, model, g.cases)
    after_rejected(ctx, g.cases)
    limit_delivery(ctx, g)
    reused_settings(ctx, g)
    run_tokens(ctx, model)
    run_spec(ctx, g.cases)
    # counters and copies observed through lorem word counts (harness/lorem_util.py)
    import lorem_util
    lorem_util.run_c02(ctx, model)
    picks = [k for k, c in enumerate(g.cases) if c.label == 'random'][:3] + \
            [k for k, c in enumerate(g.cases) if c.label == 'skeleton' and 'maxRepeat' in c.cfg][40:42]
    for k in picks:
        c = g.cases[k]
        r = impl[k]
        ctx.sample({'abbr': c.abbr, 'config': c.cfg, 'expected_top_level': [n for n, _, _, _ in c.exp][:10],
                    'output': r[1][:160] if r[0] == 'ok' else r})


def replay_lorem(rp):
    """lorem_util.replay_c02 with `draws` None meaning a fresh seeded stream."""
    import lorem_util
    r, o = lorem_util.impl_expand_oracle(rp['abbr'], rp['config'], draws=rp.get('draws'))
    meta = dict(rp['meta'], counts=[tuple(c) for c in rp['meta']['counts']])
    bad = lorem_util.oracle_c02(rp['abbr'], rp['config'], meta, r, o)
    print('expand(%r, %s) -> %r' % (rp['abbr'], canon_cfg(rp['config']), r))
    print('property %s' % ('FAILS: ' + bad if bad else 'holds on this input'))
    return 1 if bad else 0


def replay(ctx, obj):
    rp = obj.get('replay', {})
    if rp.get('component') == 'C02lorem':
        import lorem_util
        # The replay holds the random draws of the run that failed.  A library that words the text differently (the
        # repaired / unchanged one) may ask for more draws than were recorded; the statement does not depend on the
        # draws, so the input is then judged under a fresh seeded stream instead of being called a failure.
        r, _ = lorem_util.impl_expand_oracle(rp['abbr'], rp['config'], draws=rp.get('draws') or [])
        if r[0] == 'oracle-limit':
            rp = dict(rp, draws=None)
            print('recorded draws exhausted: judged under a fresh seeded draw stream')
        return replay_lorem(rp)
    if rp.get('kind') == 'tokenize':
        r = impl_markup(rp['src'])
        want = ('RepeaterNumber',) + tuple(rp['want'])
        ok = r[0] == 'ok' and any(k == want and [st, en] == rp['span'] for k, st, en in r[1])
        print('tokenize(%r) -> %r\nwanted %r over %r: %s' % (rp['src'], r, want, rp['span'], 'ok' if ok else 'FAILS'))
        return 0 if ok else 1
    if rp.get('kind') == 'delivery':
        settings, _ = make_settings(rp['route'], rp['config'])
        r = call_route(rp['route'], rp['abbr'], settings)
        bad = check_route(rp['route'], from_json(rp['expected']), r)
        print('%s(%r, %r) -> %s\n%s' % (rp['route'], rp['abbr'], rp['config'], show_result(r), ('property fails: ' + bad) if bad else 'property holds'))
        return 1 if bad else 0
    if rp.get('kind') == 'sequence':
        calls = [(a, from_json(e) if e is not None else None) for a, e in rp['calls']]
        k, bad, results, raw = run_sequence(rp['route'], rp['config'], rp.get('callback', False), calls)
        for (a, e), r in zip(calls, results):
            print('%s(%r, <the one settings object>) -> %s%s' % (rp['route'], a, show_result(r)[:400], '' if e is not None else '   (not judged)'))
        print('settings at the start %r%s\nthe caller\'s settings afterwards %r' % (
            rp['config'], ' + a text callback that raises on %s' % ZZBOOM if rp.get('callback') else '',
            {key: v for key, v in raw.items() if key not in ('snippets', 'options')}))
        print(('property fails on call %d: %s' % (k + 1, bad)) if bad else 'property holds')
        return 1 if bad else 0
    if 'abbr' not in rp or rp.get('expected') is None:
        print('replay names a broken obligation, no input: %s' % str(rp)[:300])
        return 1
    if rp.get('kind') == 'expand-after-rejected':
        impl_expand(rp['poison'], rp['config'])
    r = impl_expand(rp['abbr'], rp['config'])
    bad = check_output(from_json(rp['expected']), r)
    print('expand(%r, %r) -> %r\n%s' % (rp['abbr'], rp['config'], r, ('property fails: ' + bad) if bad else 'property holds'))
    return 1 if bad else 0
