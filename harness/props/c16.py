"""C16 -- Scanners and matchers are total and report only well-formed ranges.
Thin dispatcher: one library module per half (HTML: strings, and call sequences with caller-owned options)."""
import c16_calls
import c16_css
import c16_html

HALVES = [c16_html.run_html, c16_calls.run_calls, c16_css.run_css]


def _css_replay(ctx, obj):
    if obj.get('replay', {}).get('component') != 'css':
        return None
    return c16_css.replay_css(ctx, obj)


REPLAYS = [c16_html.replay_html, c16_calls.replay_calls, _css_replay]


def run(ctx):
    for half in HALVES:
        half(ctx)


def replay(ctx, obj):
    for rp in REPLAYS:
        rc = rp(ctx, obj)
        if rc is not None:
            return rc
    print('replay names a broken obligation, no input: %s' % str(obj.get('replay'))[:600])
    return 1
