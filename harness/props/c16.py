"""C16 -- Scanners and matchers are total and report only well-formed ranges.
Thin dispatcher: one library module per half."""
import c16_html

HALVES = [c16_html.run_html]
REPLAYS = [c16_html.replay_html]


def run(ctx):
    for half in HALVES:
        half(ctx)


def replay(ctx, obj):
    for rp in REPLAYS:
        rc = rp(ctx, obj)
        if rc is not None:
            return rc
    print('replay names a broken obligation, no input: %s' % str(obj.get('replay'))[:600])
    return 1
